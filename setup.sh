#!/bin/sh
# Offline setup: resolve modules from the local cache and pre-build the
# harness test binaries (plain and race) and the CLI from /repo's tree.
set -e
cd "$(dirname "$0")"
export GOFLAGS=-mod=mod GOPROXY=off GOSUMDB=off GOTOOLCHAIN=local
mkdir -p build evidence
cp /repo/go.sum harness/go.sum 2>/dev/null || true
cd harness
go test -c -tags verif -o ../build/props.test ./props
go test -c -race -tags verif -o ../build/props.race.test ./props || echo "race build unavailable"
echo setup done
