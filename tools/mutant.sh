#!/bin/sh
# usage: mutant.sh <patch> <prop> [<prop>...]
# Applies the patch to a scratch worktree of /repo (never to /repo itself),
# runs the quick checks against that tree, and removes the worktree.
# Evidence and replays of these runs go to /tmp, not to /verif.
patch="$(readlink -f "$1")"; shift
root="$(cd "$(dirname "$0")/.." && pwd)"
wt="/tmp/mutant-wt.$$"
git -C /repo worktree add -q --detach "$wt" HEAD || exit 2
if ! git -C "$wt" apply "$patch" 2>/dev/null && ! git -C "$wt" apply --3way "$patch"; then echo "patch does not apply"; git -C /repo worktree remove --force "$wt"; exit 2; fi
export VERIF_REPO="$wt" VERIF_EVIDENCE_DIR=/tmp/mutant-evidence.$$ VERIF_REPLAY_DIR=/tmp/mutant-replays.$$
for p in "$@"; do
  "$root/check" "$p" ${VERIF_MUTANT_TIER:-quick} > /tmp/mutant.$$.out 2>&1; rc=$?
  echo "== $(basename "$patch") $p rc=$rc $(grep -c '^VIOLATION' /tmp/mutant.$$.out) violation line(s)"
  grep '^VIOLATION\|^INFRA' /tmp/mutant.$$.out | head -3
done
rm -f /tmp/mutant.$$.out
if [ -z "$VERIF_MUTANT_KEEP" ]; then rm -rf /tmp/mutant-evidence.$$ /tmp/mutant-replays.$$; fi
git -C /repo worktree remove --force "$wt"
rm -f "$root"/build/props._tmp_mutant_wt_$$*.test "$root"/build/alt._tmp_mutant_wt_$$* "$root"/build/evalfilter._tmp_mutant_wt_$$
