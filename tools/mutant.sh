#!/bin/sh
# usage: mutant.sh <patch> <prop> [<prop>...]  -- applies the patch to /repo, runs the quick checks, reverts.
patch="$(readlink -f "$1")"; shift
cd /repo || exit 2
git diff --quiet || { echo "/repo has uncommitted changes"; exit 2; }
git apply "$patch" || { echo "patch does not apply"; exit 2; }
export VERIF_EVIDENCE_DIR=/tmp/mutant-evidence VERIF_REPLAY_DIR=/tmp/mutant-replays
for p in "$@"; do
  /verif/check "$p" quick > /tmp/mutant.$$.out 2>&1; rc=$?
  echo "== $(basename $patch) $p rc=$rc $(grep -c '^VIOLATION' /tmp/mutant.$$.out) violation line(s)"
  grep '^VIOLATION\|^INFRA' /tmp/mutant.$$.out | head -3
done
rm -f /tmp/mutant.$$.out
git checkout -- . && git status --short | grep -v '^??' 
