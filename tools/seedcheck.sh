#!/bin/sh
# usage: seedcheck.sh <seed_out dir of one change> <seeded id> <primary prop> [<more props>...]
# Verifies an independently written breaking change in a scratch worktree
# (compiles, baseline tests pass, demonstration fails with it and passes
# without it), runs the named quick checks against it, and files it under
# /verif/seeded/<id>/ with a meta.json describing what was run.
src="$(readlink -f "$1")"; id="$2"; shift 2
export GOFLAGS=-mod=mod GOPROXY=off GOSUMDB=off GOTOOLCHAIN=local
wt="/tmp/seedcheck-wt.$$"
git -C /repo worktree add -q --detach "$wt" HEAD || exit 2
cleanup() { git -C /repo worktree remove --force "$wt" 2>/dev/null; }
demo() {
  if [ -f "$src/demo_test.go" ]; then
    cp "$src/demo_test.go" "$wt/zz_seed_demo_test.go"
    names=$(grep -o '^func Test[A-Za-z0-9_]*' "$src/demo_test.go" | sed 's/func //' | paste -sd'|')
    (cd "$wt" && go test $SEED_DEMO_FLAGS -vet=off -count=1 -run "^($names)\$" . >/tmp/seedcheck.$$.demo 2>&1); r=$?
    rm -f "$wt/zz_seed_demo_test.go"; return $r
  elif [ -f "$src/demo/main.go" ]; then
    mkdir -p "$wt/zz_seed_demo"; cp "$src/demo/main.go" "$wt/zz_seed_demo/main.go"
    (cd "$wt" && timeout 300 go run ./zz_seed_demo >/tmp/seedcheck.$$.demo 2>&1); r=$?
    rm -rf "$wt/zz_seed_demo"; return $r
  fi
  echo "no demonstration found" > /tmp/seedcheck.$$.demo; return 99
}
demo; clean_rc=$?
if ! git -C "$wt" apply "$src/patch.diff" 2>/dev/null && ! git -C "$wt" apply --3way "$src/patch.diff"; then echo "SEED $id: patch does not apply"; cleanup; exit 2; fi
(cd "$wt" && go build ./... && go vet ./... ) >/tmp/seedcheck.$$.build 2>&1; build_rc=$?
(cd "$wt" && go test -vet=off -count=1 ./... ) >/tmp/seedcheck.$$.tests 2>&1; tests_rc=$?
demo; broken_rc=$?
demo_tail=$(tail -5 /tmp/seedcheck.$$.demo | cut -c1-300)
cleanup
echo "SEED $id: demo on clean tree rc=$clean_rc; with change: build rc=$build_rc, baseline tests rc=$tests_rc, demo rc=$broken_rc"
ok=no
if [ $clean_rc -eq 0 ] && [ $build_rc -eq 0 ] && [ $tests_rc -eq 0 ] && [ $broken_rc -ne 0 ] && [ $broken_rc -ne 99 ]; then ok=yes; fi
results=""
if [ $ok = yes ]; then
  for p in "$@"; do
    out=$(/verif/tools/mutant.sh "$src/patch.diff" "$p" 2>&1 | head -1)
    echo "   $out"
    rc=$(echo "$out" | sed -n 's/.* rc=\([0-9]*\) .*/\1/p')
    results="$results\"$p\": $rc, "
  done
  mkdir -p /verif/seeded/$id
  cp "$src/patch.diff" /verif/seeded/$id/patch.diff
  [ -f "$src/demo_test.go" ] && cp "$src/demo_test.go" /verif/seeded/$id/demo_test.go.txt
  [ -f "$src/demo/main.go" ] && cp "$src/demo/main.go" /verif/seeded/$id/demo_main.go.txt
  [ -f "$src/notes.md" ] && cp "$src/notes.md" /verif/seeded/$id/notes.md
  printf '{\n "id": "%s",\n "property": "%s",\n "verified": {"demo_passes_on_clean_tree": true, "compiles_and_vets_with_change": true, "baseline_tests_pass_with_change": true, "demo_fails_with_change": true},\n "quick_check_exit_status_with_change": {%s},\n "needs_to_manifest": "see notes.md",\n "ran": "tools/seedcheck.sh (scratch worktree of /repo HEAD; go build, go vet, go test -vet=off -count=1 ./..., demonstration with and without the patch; then tools/mutant.sh <patch> <props> = quick checks against a scratch worktree with the patch)"\n}\n' "$id" "$1" "$(echo "$results" | sed 's/, $//')" > /verif/seeded/$id/meta.json
else
  echo "   NOT KEPT (does not meet the conditions)"; echo "   demo output: $demo_tail"
fi
rm -f /tmp/seedcheck.$$.*
