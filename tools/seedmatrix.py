#!/usr/bin/env python3
"""Re-runs the quick checks against every seeded change and records the
outcome in seeded/<id>/meta.json (quick_check_exit_status_with_change) and
in seeded/MATRIX.md.  usage: seedmatrix.py [id-prefix]"""
import json, os, re, subprocess, sys
ROOT = os.path.dirname(os.path.dirname(os.path.abspath(__file__)))
EXTRA = {
 "C01-constant-pool-by-text": ["C14", "C18"], "C01-string-index-bytes": ["C16"], "C03-deadcode-past-jump": ["C18"], "C03-stale-fold-operands": ["C18"],
 "C06-scope-map-reuse": ["C07"], "C07-calls-leak-field-cache": [], "C07-context-poll-phase": ["C09"], "C02-foreach-setlocal": ["C06"],
 "C04-field-cache-same-reference": ["C07"], "C05-optimizer-drops-double-bang": ["C03"], "C05-int-fast-path": ["C01"], "C12-slash-after-lsquare": ["C14"],
 "C14-constant-pool-by-text": ["C01"], "C15-copy-in-set-only": ["C07"], "C16-ascii-fast-path-index": ["C01"], "C16-float-hashkey-as-string": ["C01"],
 "C18-deadcode-past-jump": ["C03"], "C19-field-cache-by-address": ["C04", "C07"], "C19-optimizer-error-map-order": [], "C08-calls-leak-on-failure": ["C07"],
 "C08-nil-holes-in-arrays": ["C04"],
 # round 2
 "C08b-calls-leak-on-panic": ["C07"], "C15b-shared-index-cell": ["C02"], "C16b-array-literal-constants": ["C01"], "C19b-keys-via-sort-helper": ["C16"],
 "C14b-constant-pool-by-text": ["C01"],
 # round 3
 "C02c-scope-store-recycled": ["C06", "C07"], "C08c-regcache-write-under-rlock": ["C11"], "C15c-set-walks-outermost-first": ["C06"], "C03c-deadcode-past-jump": ["C18"],
 "C18c-deadcode-past-jump": ["C03"], "C05c-empty-then-no-jump": ["C02"], "C06c-scope-store-recycled": ["C07"], "C07c-scope-store-recycled": ["C06"],
 "C12c-slash-after-rsquare": ["C14"], "C14c-constant-pool-float-compare": ["C01"], "C16c-float-hashkey-32bit": ["C01"], "C17c-float-inspect-exponent": ["C01"],
 "C04c-fields-kept-by-type": ["C07"],
 # round 4
 "C08d-regcache-fill-under-rlock": ["C11"], "C14d-lexer-shared-scratch": ["C11"], "C07d-calls-leak-on-depth-error": ["C08"], "C08d-calls-leak-on-panic": ["C07"],
 "C06d-scope-store-recycled": ["C07"], "C07d-scope-store-recycled": ["C06"], "C12d-fold-across-ternary-join": ["C03"], "C03d-jump-fold-reads-previous-byte": ["C02"],
 "C02d-dead-else-peeks-three-bytes": ["C03"], "C13d-prepare-keeps-truncated-tree": ["C19"], "C04d-shared-map-visited-set": ["C19"], "C19d-shared-map-visited-set": ["C04"],
 # round 6
 "C01f-fold-accepts-65536": ["C03"], "C01f-unwind-skips-depth-zero": ["C07", "C06"], "C01f-match-fast-path-no-trim": ["C02"], "C17f-array-inspect-leading-empty": ["C16"],
 "C19f-float-hashkey-bits-nan": ["C16"], "C19f-failed-regexp-cached-standin": ["C17"], "C04f-reflect-depth-leaks-past-limit": ["C07"], "C04f-cycle-mark-deleted-by-inner": ["C08"],
 "C04f-string-hashkey-by-rune": ["C16"], "C15f-constant-limit-65537": ["C18"], "C15f-unwind-closes-half": ["C06", "C07"], "C15f-identifier-truncated-at-64": ["C14"],
 "C07f-calls-reset-on-depth-error": ["C08"], "C07f-cli-timeout-shared-by-files": ["C20"], "C16f-range-end-overflows": ["C01"], "C16f-unwind-closes-half": ["C06"],
 "C16f-string-hashkey-shared-hasher": ["C11"], "C09f-integer-power-minint-loop": ["C01"], "C09f-recovered-panic-machine-without-context": ["C07"], "C09f-regcache-lock-leak": ["C11"],
 "C08f-refused-call-stays-counted": ["C07"], "C08f-run-returns-holding-mutex": ["C20"], "C08f-empty-array-literal-string-panics": ["C13"], "C02f-function-size-check-uses-main": ["C18"],
 "C02f-arity-error-leaves-callee-code": ["C07"], "C02f-match-fast-path-no-trim": ["C01"], "C06f-function-size-check-uses-main": ["C18"], "C06f-unwind-closes-half": ["C07"],
 "C06f-set-global-fast-path": ["C15"], "C14f-integer-literal-2-63": ["C01"], "C14f-float-literal-range-error-ignored": ["C13"], "C05f-fold-accepts-65536": ["C03"],
 "C05f-unwind-depth-read-at-exit": ["C07", "C06"], "C13f-size-checked-on-node-entry": ["C18"], "C20f-fold-accepts-65536": ["C03"], "C20f-arity-error-leaves-callee-code": ["C07", "C06"],
 "C12f-fold-keeps-stale-constants-out-of-range": ["C03"], "C12f-divzero-fold-keeps-stale-constants": ["C03"], "C12f-slash-after-lsquare-table": ["C14"],
 "C03f-function-optimizer-error-replaces-main": ["C19"], "C03f-float-literal-string-by-value": ["C19"], "C18f-function-size-check-uses-main": ["C02"], "C18f-sqrt-fold-abandoned-keeps-constants": ["C03"],
 # round 10 (suffix j)
 "C01j-constant-index-survives-second-prepare": ["C19"], "C01j-createhash-bookkeeping-without-defer": ["C07", "C04"], "C01j-in-compares-floats-by-value": ["C16"],
 "C02j-host-function-resolved-once": ["C20", "C07"], "C02j-object-equal-floats-by-value": ["C01", "C16"], "C02j-unwind-only-in-outermost-run": ["C06", "C07"],
 "C03j-code-make-shared-scratch": ["C11"], "C03j-constants-regrouped-across-operand": ["C12"], "C03j-times-one-dropped": ["C01"],
 "C04j-field-maps-pooled-callee-map-kept": ["C07", "C11"], "C04j-non-ascii-digits-end-identifier": ["C14"], "C04j-unwind-only-in-outermost-run": ["C06"],
 "C05j-float-true-excludes-smallest-positive": ["C01"], "C05j-reflection-panic-recovered-fields-truncated": ["C04"], "C05j-struct-layouts-cached-by-type-string": ["C04", "C07"],
 "C06j-empty-container-loop-opens-no-scope": ["C02"], "C06j-foreach-in-place-at-last-round": ["C16"], "C06j-no-unwind-after-panic": ["C07"],
 "C07j-float-hashkey-memo-copied-by-step": ["C16", "C15"], "C07j-no-unwind-after-panic": ["C06"], "C07j-range-cache-packed-key": ["C16"],
 "C08j-cyclic-map-memoised-self-containing-hash": ["C04"], "C08j-function-error-in-switch-value-keeps-scratch": ["C13"], "C08j-zero-time-typed-nil-integer": ["C04"],
 "C09j-errors-rewrapped-at-every-call-level": ["C08"], "C09j-hash-next-sticks-on-missing-key": [], "C09j-split-empty-separator-spins": ["C17"],
 "C10j-getenv-default-syntax-exports": [], "C10j-scopes-open-diagnostic-on-stderr": [], "C10j-zoneinfo-remembered-relative-path": [],
 "C11j-field-cache-kept-for-same-address": ["C04", "C19"], "C11j-float-stepped-in-place": ["C15"], "C11j-scope-maps-reused-unwind-leaves-them": ["C07"],
 "C12j-bracketed-sum-emitted-operand-by-operand": ["C01"], "C12j-prepare-remembers-request-before-success": ["C13"], "C12j-sign-peephole-skips-negation": ["C03"],
 "C13j-byte-order-marks-trimmed-both-ends": ["C14"], "C13j-compile-stops-quietly-when-context-done": ["C19", "C09"], "C13j-ternary-flag-reset-by-statement": [],
 "C14j-division-by-zero-fold-leaves-stale-operand": ["C03", "C01"], "C14j-dollar-stripped-in-shared-constant": ["C04", "C07"], "C14j-leading-group-characters-sorted": [],
 "C16j-in-same-value-floats": ["C01"], "C16j-scope-maps-reused-unwind-leaves-them": ["C06", "C07"], "C16j-string-chars-cached-in-object": [],
 "C17j-builtin-inline-cache-keyed-by-size-and-ip": ["C06"], "C17j-match-scanner-long-lines-trailing-newline": ["C01"], "C17j-scope-maps-recycled-unwind-leaves-them": ["C07", "C06"],
 "C18j-hash-literal-skips-pair-keeps-count": ["C16"], "C18j-prepare-recycles-slices-keeps-old-machine": ["C19", "C08"], "C18j-spare-call-stack-handed-out-twice": ["C06"],
 "C19j-host-functions-remembered-by-name": ["C20", "C07"], "C19j-inspect-object-recovers-reflection-panic": ["C04", "C08"], "C19j-string-hashkey-walks-runes": ["C16"],
 "C20j-dollar-prefix-stripped-twice": ["C04"], "C20j-hash-entries-cached-by-length": ["C16"], "C20j-unwind-only-in-outermost-run": ["C06"],
 # round 9 (suffix i)
 "C01i-arithmetic-identity-dropped": ["C03"], "C01i-call-arguments-buffer-reused": ["C20", "C15"], "C01i-hash-entries-sorted-by-text-only": ["C16", "C19"],
 "C02i-call-arguments-buffer-kept": [], "C02i-empty-if-emits-no-code": ["C05"], "C02i-string-next-ascii-fast-path-by-rune-index": ["C16"],
 "C03i-nop-blanking-stops-at-256": ["C02"], "C03i-prepare-reports-optimizer-complaint": ["C13"], "C03i-stack-inline-entries-clear-forgets-overflow": ["C07"],
 "C04i-null-assignment-deletes-variable": ["C20"], "C04i-scope-maps-pooled-unwind-leaves-them": ["C07"], "C04i-slice-arrays-windows-on-one-buffer": ["C15"],
 "C05i-field-objects-refilled-between-runs": ["C15", "C04"], "C05i-null-assignment-deletes-global": ["C04"], "C05i-setvariable-stores-copy": ["C20"],
 "C06i-block-compile-stops-after-return": ["C13"], "C06i-function-table-shared-new-names": ["C20"], "C06i-prepare-keeps-function-table": ["C19"],
 "C07i-call-arguments-buffer-reused": ["C20", "C02"], "C07i-field-names-cached-by-type-name": ["C04"], "C07i-negative-lookup-set-not-cleared-by-declare": ["C06"],
 "C08i-constant-index-survives-compile-error": ["C19", "C18"], "C08i-hash-json-assumes-string-keys": ["C20"], "C08i-lexer-backslash-cr-at-end": ["C14", "C13"],
 "C09i-cli-timeout-budget-zero-means-none": ["C20"], "C09i-lazy-function-optimizer-in-call": [], "C09i-timezone-helper-self-deadlock": ["C17"],
 "C10i-function-table-shared-by-first-environment": ["C20"], "C10i-println-in-hash-less": ["C16"], "C10i-tz-variable-exported-to-process": ["C17"],
 "C11i-array-inspect-buffer-pool-double-put": [], "C11i-call-arguments-vector-reused": [], "C11i-prepare-cache-shares-function-bytes": ["C19"],
 "C12i-constant-chain-regrouped": ["C03"], "C12i-index-does-not-bind-to-hash-literal": [], "C12i-ternary-string-without-brackets": [],
 "C13i-definition-named-like-host-function-not-compiled": ["C06"], "C13i-prevtoken-only-identifiers": ["C18"], "C13i-vertical-tab-and-form-feed-skipped": ["C14"],
 "C14i-cli-result-spliced-into-format": ["C20"], "C14i-integer-literal-base-zero": ["C01"], "C14i-match-plain-pattern-fast-path": ["C01", "C17"],
 "C15i-constant-fold-writes-pool-slot": ["C03"], "C15i-declare-skips-same-object": ["C06"], "C15i-setvariable-writes-into-existing-number": ["C20"],
 "C16i-array-literals-share-capacity": [], "C16i-array-next-reuses-index-object": ["C15"], "C16i-hash-entries-cached-by-length": [],
 "C17i-builtin-table-shared-first-environment": ["C20"], "C17i-integer-literal-base-zero": ["C14"], "C17i-replace-plain-pattern-fast-path": [],
 "C18i-constant-lookup-map-by-text": ["C14"], "C18i-limits-checked-after-optimizer": ["C02"], "C18i-stack-forgets-oldest-entries": ["C01"],
 "C19i-hash-entries-cached-slice-handed-out": ["C16"], "C19i-long-string-literal-abbreviated": [], "C19i-scope-maps-reused-not-emptied-by-unwind": ["C07", "C06"],
 "C20i-api-methods-take-run-mutex": ["C08"], "C20i-scope-maps-pooled-unwind-leaves-them": ["C07", "C06"], "C20i-sort-reorders-its-argument": ["C17"],
 # round 8 (suffix h)
 "C01h-eq-fold-by-pool-slot": ["C03"], "C01h-regexp-ring-cache-stale": ["C17"], "C01h-shared-submap-null": ["C04"],
 "C02h-field-cache-kept-when-calls-leak": ["C07", "C04"], "C02h-placeholder-does-not-stop-folding": ["C03"], "C02h-regexp-ring-cache-stale": ["C01", "C17"],
 "C03h-constant-functions-inlined": ["C06", "C20"], "C03h-eq-fold-same-pool-entry": ["C01"], "C03h-if-shares-placeholder-wiped-by-optimizer": ["C18"],
 "C04h-prepare-restores-header-only": ["C13", "C08", "C19"], "C04h-promoted-field-shadows-outer": [], "C04h-sort-in-place": ["C17"],
 "C05h-and-true-dropped-by-opcode-range": ["C03"], "C05h-copy-in-set-params-step-in-place": ["C15", "C07"], "C05h-createhash-marks-leak": ["C07", "C04"],
 "C06h-call-limit-counts-scopes": ["C01"], "C06h-callee-stacks-per-level": ["C07"], "C06h-scripted-call-cache": ["C20"],
 "C07h-host-function-cached": ["C20"], "C07h-join-leaves-position": ["C16"], "C07h-loop-variable-stepped-in-place": ["C15"],
 "C08h-prepare-limit-failure-keeps-old-machine": ["C19", "C13"], "C08h-run-dumps-under-its-own-lock": ["C20"], "C08h-switch-value-function-pool-rollback": ["C18"],
 "C09h-depth-walk-exponential": ["C08"], "C09h-done-channel-outermost-frame-leak": ["C07"], "C09h-straight-flag-from-last-function": [],
 "C10h-host-warn-to-stderr": [], "C10h-print-falls-back-to-stderr": [], "C10h-range-reads-meminfo": [],
 "C11h-field-map-pool-double-put": [], "C11h-foreach-in-place-when-unstepped": [], "C11h-time-memo-shared-by-all": [],
 "C12h-hash-key-ternary-floor": [], "C12h-parser-pool-depth-leaks": ["C13", "C19"], "C12h-ternary-flag-survives-failed-prepare": ["C13", "C19"],
 "C13h-mode-bits-ternary-wiped-by-function": [], "C13h-parser-pool-keeps-function-flag": [], "C13h-switch-value-only-default-not-compiled": [],
 "C14h-constant-index-stale-after-rollback": ["C01", "C02"], "C14h-slash-equals-before-regexp": ["C12"], "C14h-step-mutates-before-copy": ["C15", "C07"],
 "C15h-member-stepped-in-place": ["C04"], "C15h-scope-store-recycled-unwind": ["C07", "C06"], "C15h-set-remembered-scope": ["C06"],
 "C16h-createhash-mark-no-defer": ["C07", "C04"], "C16h-float-zero-keys-unordered": ["C19"], "C16h-foreach-in-place-when-idle": ["C02", "C06"],
 "C17h-host-time-via-unixnano": ["C04"], "C17h-regexp-cache-stale-after-eviction": ["C01"], "C17h-regexp-flags-merged-in-pool": ["C01", "C14"],
 "C18h-bare-return": ["C13"], "C18h-else-without-code-no-placeholder": ["C02"], "C18h-function-table-survives-prepare": ["C19"],
 "C19h-compile-depth-leaks": ["C13"], "C19h-createhash-cleanup-no-defer": ["C07"], "C19h-float-literal-string-by-value": [],
 "C20h-cli-unwraps-error": [], "C20h-null-variable-yields-field": ["C04"], "C20h-panic-leaves-scopes-open": ["C07", "C06"],
 # round 5
 "C19e-fields-kept-for-same-pointer": ["C07", "C04"], "C19e-float-hashkey-memo-copied": ["C16"], "C17e-sorted-array-keeps-cached-text": [], "C10e-zone-argument-reads-files": ["C17"],
 "C04e-convert-mark-leaks-on-panic": ["C07"], "C04e-fields-kept-after-runaway-recursion": ["C07"], "C05e-fields-kept-for-nil-object": ["C07", "C04"], "C05e-placeholders-dropped-second-round": ["C03"],
 "C14e-regexp-cache-stale-key-on-eviction": [], "C16e-reverse-flips-sorted-input": ["C17"], "C01e-fields-kept-for-same-object": ["C04", "C07"], "C01e-float-key-after-step": ["C16"],
 "C01e-string-index-invalid-utf8": ["C16"], "C18e-lastop-nested-definition": ["C06"], "C18e-prepare-again-reuses-compacted-code": ["C19"], "C02e-fields-kept-for-same-object": ["C04", "C07"], "C02e-foreach-after-join": ["C16"],
 "C20e-run-nil-without-program": ["C08"], "C07e-context-poll-phase-64": ["C09"], "C06e-lastop-nested-definition": ["C18"], "C06e-unwind-closes-half": ["C07"], "C06e-calls-counter-leaks-on-arity-error": ["C07"],
 "C15e-stepped-memo-survives-run": [], "C08e-panic-nil": ["C20"], "C08e-convert-mark-leaks-on-panic": ["C07"], "C08e-run-nil-without-program": ["C20"],
 "C03e-jump-fold-reads-operand-byte-12-13": ["C05"], "C03e-field-cache-kept-when-main-has-no-lookup": ["C07"], "C03e-old-header-over-compacted-code": ["C18"], "C12e-slash-after-rsquare-table": ["C14"], "C12e-ternary-flag-sticks-after-function": ["C06"],
 "C06d-user-function-before-builtin": ["C20"], "C18d-deadcode-past-jump": ["C03"], "C08c-calls-leak-on-error": ["C07"], "C19c-integer-key-order-cycle": ["C16"], "C06b-stale-lastop": ["C18"], "C07b-fields-survive-nil-object": ["C04"], "C04b-shared-map-converted-once": ["C07"],
}
# usage: seedmatrix.py [id-prefix] [--shard i/n] [--table-only]
args = [a for a in sys.argv[1:] if not a.startswith("--")]
pref = args[0] if args else ""
shard_i, shard_n = 0, 1
table_only = "--table-only" in sys.argv
for k, a in enumerate(sys.argv):
    if a == "--shard":
        shard_i, shard_n = [int(x) for x in sys.argv[k + 1].split("/")]
args = [a for a in args if "/" not in a]
pref = args[0] if args else ""
rnd = ""
for k, a in enumerate(sys.argv):
    if a == "--round":
        rnd = sys.argv[k + 1]
args = [a for a in args if a != rnd]
pref = args[0] if args else ""
rows = []
count = 0
for sid in sorted(os.listdir(os.path.join(ROOT, "seeded"))):
    d = os.path.join(ROOT, "seeded", sid)
    mf = os.path.join(d, "meta.json")
    if not os.path.isfile(mf):
        continue
    meta = json.load(open(mf))
    count += 1
    if sid.startswith(pref) and (not rnd or re.match(r"C\d\d" + rnd + "-", sid)) and not table_only and count % shard_n == shard_i:
        props = [meta["property"]] + EXTRA.get(sid, [])
        res = {}
        for p in props:
            out = subprocess.run([os.path.join(ROOT, "tools", "mutant.sh"), os.path.join(d, "patch.diff"), p], capture_output=True, text=True).stdout
            m = re.search(r" rc=(\d+) ", out)
            res[p] = int(m.group(1)) if m else -1
            print(sid, p, res[p], flush=True)
        meta["quick_check_exit_status_with_change"] = res
        json.dump(meta, open(mf, "w"), indent=1)
        open(mf, "a").write("\n")
    rows.append((sid, meta["property"], meta["quick_check_exit_status_with_change"]))
with open(os.path.join(ROOT, "seeded", "MATRIX.md"), "w") as fh:
    fh.write("| seeded change | written for | quick checks run against it (exit status: 1 = VIOLATION reported, 0 = missed) |\n|---|---|---|\n")
    for sid, prop, res in rows:
        fh.write("| %s | %s | %s |\n" % (sid, prop, ", ".join("%s: %s" % (k, v) for k, v in res.items())))
