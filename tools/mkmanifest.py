#!/usr/bin/env python3
"""Regenerates /verif/MANIFEST.json from the table below."""
import json, os, subprocess
ROOT = os.path.dirname(os.path.dirname(os.path.abspath(__file__)))

ALL = ["C%02d" % i for i in range(1, 21)]

CHECKS = {
 "C01": dict(
  technique="property-based testing (rapid) against a reference interpreter: exhaustive operator x type-pair x boundary-value table + random expression nestings",
  text="Exploration: every cell of the operator x ordered-type-pair x boundary-value table is executed (4 operand provenances, optimizer on and off) and compared with an independent reference interpreter (type, printed form and deep structure, or 'is an error'); random expression trees to depth 4 (quick) / 6 (thorough) over generated objects and variables are compared the same way. Finds wrong values, wrong types and missing/extra errors for the generated expressions; proves nothing beyond them.",
  note="Trusted: the reference interpreter in harness/lang (written from README + property text; cells the text leaves open are accepted either way and counted as 'unspecified'; behaviour pinned from the implementation is marked quirk and an error is accepted there). Float results are compared by printed form. Known finding C03-sqrt-fold is excluded by construction.",
  ref="DESIGN.md §3 C01"),
 "C02": dict(
  technique="property-based testing (rapid): random control-flow programs compared with a reference interpreter on result, host-call trace and resulting variables",
  text="Exploration: generated programs of nested if/else-if/else, while/for, foreach over arrays, strings, hashes and ranges, switch (literal/expression/regexp/list cases, default anywhere), ternaries and returns, instrumented with trace() host calls, are run on generated objects (map, struct, pointer; optimizer on/off) and must agree with an independent reference interpreter on the result, the exact sequence of host calls and every global variable left behind.",
  note="Trusted: reference interpreter (harness/lang); termination by construction (bounded counters) plus a model step budget; switch subjects are side-effect free (their evaluation count is unspecified). Global variables are read through the verif hook VerifGlobals.",
  ref="DESIGN.md §3 C02"),
 "C03": dict(
  technique="differential property-based testing (rapid): same script prepared with and without NoOptimize, run on a sequence of objects",
  text="Exploration: generated programs biased to what the peephole optimizer rewrites (inline integer arithmetic and comparisons around the 65534 limit, constant conditions in every construct, expression statements before loop heads, returns around jumps, user functions) are prepared twice and run on 3 objects in sequence; after every run value (type, printed form, structure) or failure, host-call sequence and global variables must be identical. Non-trivial cases are those where the hook shows that the optimizer really changed the program.",
  note="No model involved: the oracle is the unoptimized evaluator. Runs that hit the 2 s safety deadline are inconclusive and dropped (counted). Known findings C03-sqrt-fold and C03-optimize-variable are excluded by construction (√ is never applied to a foldable integer constant, the name OPTIMIZE is never generated).",
  ref="DESIGN.md §3 C03"),
 "C06": dict(
  technique="property-based testing (rapid): random programs with user functions and deliberate name clashes compared with a scope-stack reference interpreter",
  text="Exploration: generated programs with up to 3 user functions (before/after use, recursive on a decreasing counter, value-less, wrong arity, unknown names) whose parameters, locals and loop variables are drawn from a pool that also names globals, with returns from inside foreach/while/switch at every depth, must agree with a reference interpreter that keeps an explicit scope stack: result, host-call sequence, and all globals after the run.",
  note="Trusted: reference interpreter. A callee reading or writing a caller's local (dynamic visibility) is outside what the property fixes: such cases are detected by the model and accepted either way (counted as unspecified).",
  ref="DESIGN.md §3 C06"),
 "C07": dict(
  technique="stateful property-based testing (rapid): generated run/SetVariable histories on one evaluator, each run compared with a freshly prepared evaluator holding the same variables",
  text="Exploration: one prepared evaluator is driven through generated histories of run(object_i) and SetVariable actions with scripts that end normally, by early return from nested loops and functions, by run-time error, panic() or arity mismatch at top level and inside functions at depth 1-3, and that use ++/-- on literals around 65534. After every run a fresh evaluator built from the same text and given deep copies of the pre-run variables must give the same result/error-ness, host calls and variables; open scopes, residual stack depth and the printed constant pool (hooks) must equal the fresh evaluator's, which is how 'cost does not grow' is decided (state, not timing).",
  note="Oracle is differential (used vs fresh), no model. Time-outs are only met as the 2 s safety deadline and make a history inconclusive. Hooks used: VerifGlobals, VerifScopeDepth, VerifStackDepth, VerifProgram.",
  ref="DESIGN.md §3 C07"),
 "C18": dict(
  technique="property-based testing (rapid) with a bytecode verifier as validity predicate over compiled programs, plus deterministic stressors at the 16-bit limits",
  text="Exploration: for every generated program (three generator profiles) and a fixed set of stressor programs (integer literals 65533-131071 next to every jumping construct, function bodies ending in operand byte 24, bodies padded to 65450-65600 bytes (thorough: 32 Ki, 128 Ki, 200 KB) before every jumping construct, 255-1000 (thorough 65535-65537) distinct constants and elements) the program the machine will run - main and every function, with and without optimizer, read through the hook - is checked by a structural verifier: known opcodes, complete operands, jump targets on instruction starts inside the body, constant references exist and are strings where names are required, function bodies return on all paths, and a min-stack-depth data-flow over ALL paths never drops below what an instruction pops. Executions must not end in the machine's internal errors, and padded programs must behave like their unpadded twins.",
  note="The verifier (harness/bcverify) is trusted; it assumes calls push one value (as the property allows). It is a predicate over generated programs, not a proof about the compiler. Known finding C18-valueless-operand (statement-like nodes accepted as operands) is outside the generated grammar by construction.",
  ref="DESIGN.md §3 C18"),
 "C05": dict(
  technique="property-based testing: exhaustive value x provenance x position table and random !/&&/|| nestings against the statement's truth function",
  text="Exploration: every boundary value of every type (incl. empty/non-empty containers and regexps, negative and tiny numbers) reaches every truth-consuming position (if, while, ternary, both sides of && and ||, operand of !, the boolean returned by Run) through 7 provenances (literal, script variable, SetVariable with a fresh object, struct field, map field, built-in result, host-function result); all ordered pairs of values are combined under && and ||; random nestings of ! && || are checked in if/while/ternary/Run. The oracle is the single truth function of the property statement.",
  note="Exhaustive only over the listed boundary values; provenances that cannot carry a value (e.g. a regexp in a host field) are skipped and counted.",
  ref="DESIGN.md §3 C05"),
 "C12": dict(
  technique="property-based testing: exhaustive operator-pair table and random expression trees; round trip tree -> minimal/redundant/full parenthesisation -> parser shape, plus evaluation against the reference interpreter",
  text="Exploration: all ordered pairs of the 18 infix operators, every prefix operator against every infix operator on both sides, prefix/infix against index, call and '.', ternary against every operator, each also with regrouping parentheses (exhaustive), and random trees to depth 5/6 printed with minimal parentheses according to the DOCUMENTED table, with random redundant parentheses and fully parenthesised: the repository parser must produce exactly the intended tree (compared through its printed shape) and the three printings must evaluate like the reference interpreter's value of the tree. Nested ternaries buried in arms through parentheses, call arguments, array elements, indexes and prefix/infix operands must be rejected by Prepare.",
  note="The documented precedence table (property statement) is the oracle, not the parser's own table. A ternary in the condition of another is not asserted either way. Compound assignment operators are outside the documented order and not used inside expressions.",
  ref="DESIGN.md §3 C12"),
 "C13": dict(
  technique="property-based testing / grammar-based fuzzing: invalid fragments x enclosing contexts (exhaustive to depth 2/3, random to depth 6) and token-boundary truncations; oracle: Prepare returns an error",
  text="Exploration: ~90 invalid fragments are placed into every composition of 33 enclosing contexts (statement and expression holes) exhaustively to depth 2 (thorough 3) and randomly to depth 6; every context path is first validated to Prepare cleanly with a valid filler, so the script is invalid only through the fragment. In addition the repository's example scripts and generated programs are truncated at every token boundary where a bracket is still open. Prepare must return an error for each.",
  note="Only the rejection direction is asserted here; acceptance of valid scripts is exercised by every other check. Context texts contain no quotes or slashes so that unterminated literals stay unterminated.",
  ref="DESIGN.md §3 C13"),
 "C14": dict(
  technique="property-based testing: lexer round trips (text -> random valid spelling -> token/value), reference slash rule, layout metamorphism, termination on arbitrary bytes",
  text="Exploration: six sub-checks - string literals (either quote style, all escapes, gratuitous escapes, backslash-newline continuations, any Unicode) denote exactly the text, as token and as executed value; regexp literals denote pattern and de-duplicated i/m flags as token, as executed value, and agree with the host regexp library when matched; integer and decimal spellings denote their strconv value; '/' is division or regexp start per the reference rule; re-rendering token soups and valid programs with random whitespace, newlines and // comments leaves the token stream (and program behaviour) unchanged; tokenisation of arbitrary byte strings ends within runes+2 tokens and 20 s.",
  note="Scripts are valid UTF-8 without NUL wherever meaning is checked (NUL is the lexer's end marker); the 20 s bound is the subject of the termination clause, not an incidental time-out.",
  ref="DESIGN.md §3 C14"),
 "C15": dict(
  technique="property-based testing: generated copy-then-mutate programs run 3 times on one evaluator against a value-semantics reference interpreter",
  text="Exploration: programs copy a number (integer literals on both sides of 65534, floats, fields, SetVariable values) along random data-flow shapes (variable to variable, argument to parameter, array element, one literal to two variables, loop variable), apply ++ -- += -= *= /= to exactly one copy inside a 1-5 iteration loop, and report every copy plus the re-evaluated source; each program runs three times on one prepared evaluator and every run must match the reference interpreter (result, host calls, variables).",
  note="Trusted: reference interpreter with value semantics. Only numbers can be mutated in place in this language, so strings and booleans appear as bystanders.",
  ref="DESIGN.md §3 C15"),
 "C16": dict(
  technique="property-based testing: generated containers and accesses against the reference interpreter; validity predicate for hashes whose keys print alike",
  text="Exploration: arrays (0-8 mixed/nested elements), strings with 1-4 byte runes, hashes with int/float/string keys, ranges (incl. a..a, negative, reversed) as literals, variables, SetVariable values and host fields are indexed from -3 to len+3 and with non-integer indexes, probed with 'in' for present and absent elements, measured with len/keys, printed, and iterated with and without index (observed through trace()); results must equal the reference interpreter's. Hashes with keys of different types that print alike are checked by a predicate: each entry visited exactly once, keys non-decreasing, every key found by type.",
  note="Which of two duplicate hash keys wins is not asserted (C19 covers its determinism).",
  ref="DESIGN.md §3 C16"),
 "C17": dict(
  technique="property-based testing: per built-in argument generators against README-derived reference implementations and in-language algebraic laws",
  text="Exploration: each documented built-in is called with generated arguments (numbers with different digit counts, signs and int/float mixes; arrays of mixed values with the case flag; arbitrary strings and separators; every value type; instants from year 1 to 9999 in six time zones and with TZ unset, also as time.Time fields) passed as literals, variables or fields, and with every wrong arity 0-4 and wrong argument types; results must equal a reference implementation written from the README, the laws between(v,lo,hi)==(lo<=v&&v<=hi), min<=max and join(split(s,d),d)==s must hold inside the language, and sort/reverse must return an ordered permutation leaving their input unchanged.",
  note="time/tzdata is linked into the harness so zones resolve offline; min/max of equal numbers of different type, and of non-numbers, are accepted either way. Behaviour the README does not fix (int() of a float, replace with an invalid pattern) is pinned and an error is accepted instead.",
  ref="DESIGN.md §3 C17"),
 "C04": dict(
  technique="property-based testing: struct types generated at run time (reflect.StructOf), maps and JSON documents, expected script view computed from the Go values; object sequences on one evaluator",
  text="Exploration: struct types with 0-8 exported fields in random order over all supported kinds (int, int64, float32/64, string, bool, time.Time, typed slices, []interface{}, nested map[string]interface{}) and over unsupported kinds (uint*, int8/16/32, complex, pointers, nested structs, arrays, chan, func, interfaces, other maps, slices/maps with unsupported elements) are built with reflect.StructOf, filled by reflection, passed by value, by pointer, as map[string]interface{} (also behind a pointer) and as JSON documents decoded by encoding/json; 1-4 different objects are run in sequence on one evaluator with scripts returning F, type(F), len(F), F[i], A.B, [F, G], 'x in F', with the legacy $ prefix, and with a same-named SetVariable value. Each run must return the (type, printed form, structure) computed from THAT object's Go value; naming an unrepresentable field must give null or an error, never a panic or a nil object, from Execute and from Run. A fixed list of odd objects (nil, typed nil, scalars, channels, unexported and embedded fields, map[string]string, ...) must not crash either and leave the evaluator usable.",
  note="Slices whose element kind is unsupported are only required not to crash (the statement promises loss-free conversion only for the listed kinds). An object carrying an unsupported field may make the whole run fail (error), which is accepted.",
  ref="DESIGN.md §3 C04"),
 "C20": dict(
  technique="property-based and differential testing of the API (Run vs Execute, variable round trips, host-function call protocol, flag handling) and of the CLI binary built from the current tree against in-process Execute",
  text="Exploration: (1) generated programs and objects, incl. objects with unrepresentable fields: Run fails exactly when Execute fails and otherwise returns the truth of Execute's value; (2) SetVariable before/after Prepare for every value type is what the script reads and what GetVariable returns, script assignments are read back, unassigned names are null, variables shadow fields; (3) host functions of arity 0-6 returning any type or void are called once per call execution with the script's arguments in order, their result is the call's value, void leaves nothing (and is an error as an operand); (4) only NoOptimize among all flag bytes/slices changes the compiled program (hook digest) and the NoOptimize program still contains unfolded arithmetic; (5) the evalfilter binary is built from /repo and 'run [-json] [-no-optimizer] [-timeout]' must print exactly the type/value/truth or error class that Execute gives in-process for the decoded document; endless scripts stop within 3 s under -timeout 100ms; lex/parse/bytecode/run on arbitrary bytes, token soup and arbitrary (also invalid) JSON exit with status 0 and no Go panic within 10 s.",
  note="CLI cases are process spawns (hundreds, not thousands, in the quick tier). Host functions are not available through the CLI, so CLI scripts are generated without them.",
  ref="DESIGN.md §3 C20"),
 "C08": dict(
  technique="fuzzing / property-based testing in journalling worker processes: byte strings, token soup, token-level mutations of valid scripts, faulty programs, odd host objects, and size/depth stressors; oracle: no panic escapes, no nil result, the process survives",
  text="Exploration: every case is journalled to disk before it runs, so a process killed by a fatal error (stack overflow, concurrent map access) still yields its case as replay. Cases: raw bytes, token soup, delete/duplicate/swap/replace/truncate/splice mutations of the repository's example scripts and of generated programs, generated programs with run-time faults and unbounded recursion, objects with fields of arbitrary kinds plus nil/typed-nil/scalar/channel/unexported/embedded objects, and 44 stressor shapes (nesting of ( [ { - ! if else-if while foreach function switch call index, operator chains, long literals, unterminated openers, four recursion patterns) at 10^3, 10^5 and for the cheap shapes 2*10^6 repetitions (thorough: 2*10^6 for all, scripts up to 8 MiB). Per case: Prepare, then Dump/Run/Execute twice on each object and on a good object; no panic may leave any of them, Execute never returns (nil, nil).",
  note="Outcomes (error vs value) are counted, not judged. Scripts whose single operations need more memory than a host has (huge ranges, doubling strings) are not generated, as the property excludes them. A 5 s context bounds each case; a time-out is an ordinary outcome here.",
  ref="DESIGN.md §3 C08"),
 "C09": dict(
  technique="property-based testing over endless-script shapes x context kinds with a watchdog; oracle: an error is returned within deadline + 3 s, an expired context prevents execution, terminating scripts are unaffected",
  text="Exploration: scripts that never terminate by construction (every loop construct, constant-folded and field-dependent conditions, nested loops, loops inside user functions at call depth 1-4, functions spinning inside loops, recursion ending in a loop, foreach over ranges up to 10^4 inside an endless while, busy bodies) run under contexts that are already cancelled, past their deadline, expire after 1-300 ms, or are cancelled from another goroutine after 0-100 ms, through Run and Execute, with and without optimizer. A watchdog goroutine reports a call that has not returned deadline + 3 s after the context ended; already-expired contexts must prevent the first statement; a control group of terminating programs under a 30 s deadline must return what it returns without a context.",
  note="Uses real time: the 3 s margin is >= 1000x the normal latency and is the subject of the property. A single huge built-in operation cannot be interrupted and is excluded by the property itself (ranges stay <= 10^4).",
  ref="DESIGN.md §3 C09"),
 "C10": dict(
  technique="exhaustive built-in x argument-type-tuple enumeration plus generated programs executed in a worker under strace -f; oracle: allow-list over the syscall log between markers",
  text="Exploration with a monitor: a worker process runs under strace -f; between BEGIN/END markers it calls EVERY function registered in the environment (names via the hook) with EVERY tuple of the 8 value types up to arity 3 (584 tuples per function, ~19000 script executions through Execute and Run) using path-, URL-, host:port-, command- and environment-like strings, then the time functions under 8 TZ settings, then generated programs mixed with print/printf/getenv/now/sprintf/replace/split/match. The syscall log in that window must contain no open with a write/create flag, no read-only open outside the time-zone database, no unlink/rename/mkdir/rmdir/chmod/truncate/link/chown/utime, no socket/connect/bind/send/recv, no execve/fork/vfork and no clone without CLONE_THREAD.",
  note="Exhaustive only over (function x argument-type tuple); values are sampled, so a capability hidden behind one magic argument value is out of reach, and library paths no script can drive are not examined. If ptrace/strace is unavailable the check exits 2 (infrastructure), never 0.",
  ref="DESIGN.md §3 C10"),
 "C11": dict(
  technique="generated concurrent workloads under the Go race detector with a sequential reference for verdicts and a lost-update counter",
  text="Exploration: rapid draws workloads - one shared prepared evaluator used by 2-16 goroutines x 20-200 Run calls on different objects (scripts with fields, a persistent counter updated by = / ++ / +=, regexps, built-ins, user functions), 2-16 goroutines each preparing and running private evaluators with shared and distinct regexp patterns, or both, under GOMAXPROCS 2/4/16 with optional yields. The binary is built with -race and halt_on_error; each workload is journalled before it starts so a race report or a fatal 'concurrent map' error yields the workload as replay. Every verdict must equal the sequential verdict for that object and the counter must equal the number of runs.",
  note="Schedules are sampled, not enumerated; the race detector's happens-before analysis is what makes a few hundred workloads meaningful. Only Run on a shared evaluator is promised to be safe, so Execute/SetVariable are not called concurrently on one evaluator.",
  ref="DESIGN.md §3 C11"),
 "C19": dict(
  technique="property-based testing: repeated Prepare/run in one process and across worker processes, comparing compiled program (hook), results, host calls and variables",
  text="Exploration: scripts with hash literals (keys of different types that print alike, repeated keys, expression keys, nesting), hashes from map fields, keys(), foreach over hashes, string(h), several user functions and many constants are prepared 20 (thorough 60) times with and without optimizer and run 3 times per evaluator: compiled constants, main bytecode and function bodies (hook), results, host-call sequences and variables must be identical every time. The same cases are executed in 4 (thorough 16) separate processes (different map-iteration seeds and addresses) and must agree there too.",
  note="now()/time()/getenv() are not generated. Runs that hit the 2 s safety deadline are dropped.",
  ref="DESIGN.md §3 C19"),
}

def main():
    checks = []
    for pid in ALL:
        if pid not in CHECKS:
            continue
        c = CHECKS[pid]
        checks.append(dict(
            property_id=pid,
            quick_cmd="./check %s quick" % pid,
            thorough_cmd="./check %s thorough" % pid,
            evidence_file="/verif/evidence/%s.json" % pid,
            replay_cmd_template="./check --replay {path}",
            engine="harness",
            level_claimed=dict(category=c.get("category", "exploration"), text=c["text"], design_ref=c["ref"]),
            level_note=c["note"],
            technique=c["technique"]))
    hooks_commits = subprocess.run(["git", "-C", "/repo", "log", "--format=%H", "--grep=^verif hooks"], capture_output=True, text=True).stdout.split()
    m = dict(
        version=1,
        setup_cmd="./setup.sh",
        hooks=dict(guard="verif", enable="go build/test -tags verif (the harness module replaces github.com/skx/evalfilter/v2 by /repo, so every check rebuilds from /repo's working tree)",
                   baseline_off_cmd="cd /repo && GOFLAGS=-mod=mod GOPROXY=off GOSUMDB=off go test -vet=off -count=1 ./...",
                   source_commits=hooks_commits, add_only=True),
        engines=[dict(name="harness", path="/verif/harness", serves_properties=[c["property_id"] for c in checks],
                      kind_free_text="Go module: rapid v1.3.0 property tests + native go fuzz targets + reference interpreter (harness/lang), driven by /verif/check")],
        checks=checks,
        notes="Family: property-based testing and fuzzing only. ./check <ID> <tier> exits 0/1/2 (2 = infrastructure trouble, never a verdict). VERIF_SEED selects the rapid seeds. known_findings.json lists open findings (printed as KNOWN-FINDING) and fixed ones.",
        not_applicable=[dict(property_id=p, reason="check not built") for p in ALL if p not in CHECKS],
    )
    with open(os.path.join(ROOT, "MANIFEST.json"), "w") as fh:
        json.dump(m, fh, indent=1)
        fh.write("\n")

main()
