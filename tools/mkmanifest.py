#!/usr/bin/env python3
"""Regenerates /verif/MANIFEST.json from the table below."""
import json, os, subprocess
ROOT = os.path.dirname(os.path.dirname(os.path.abspath(__file__)))

ALL = ["C%02d" % i for i in range(1, 21)]

CHECKS = {
 "C01": dict(
  technique="property-based testing (rapid) against a reference interpreter: exhaustive operator x type-pair x boundary-value table + random expression nestings",
  text="Exploration: every cell of the operator x ordered-type-pair x boundary-value table is executed (4 operand provenances, optimizer on and off) and compared with an independent reference interpreter (type, printed form and deep structure, or 'is an error'); random expression trees to depth 4 (quick) / 6 (thorough) over generated objects and variables are compared the same way. Finds wrong values, wrong types and missing/extra errors for the generated expressions; proves nothing beyond them.",
  note="Trusted: the reference interpreter in harness/lang (written from README + property text; cells the text leaves open are accepted either way and counted as 'unspecified'; behaviour pinned from the implementation is marked quirk and an error is accepted there). Float results are compared by printed form. Known finding C03-sqrt-fold is excluded by construction.",
  ref="DESIGN.md §3 C01"),
 "C02": dict(
  technique="property-based testing (rapid): random control-flow programs compared with a reference interpreter on result, host-call trace and resulting variables",
  text="Exploration: generated programs of nested if/else-if/else, while/for, foreach over arrays, strings, hashes and ranges, switch (literal/expression/regexp/list cases, default anywhere), ternaries and returns, instrumented with trace() host calls, are run on generated objects (map, struct, pointer; optimizer on/off) and must agree with an independent reference interpreter on the result, the exact sequence of host calls and every global variable left behind.",
  note="Trusted: reference interpreter (harness/lang); termination by construction (bounded counters) plus a model step budget; switch subjects are side-effect free (their evaluation count is unspecified). Global variables are read through the verif hook VerifGlobals.",
  ref="DESIGN.md §3 C02"),
 "C03": dict(
  technique="differential property-based testing (rapid): same script prepared with and without NoOptimize, run on a sequence of objects",
  text="Exploration: generated programs biased to what the peephole optimizer rewrites (inline integer arithmetic and comparisons around the 65534 limit, constant conditions in every construct, expression statements before loop heads, returns around jumps, user functions) are prepared twice and run on 3 objects in sequence; after every run value (type, printed form, structure) or failure, host-call sequence and global variables must be identical. Non-trivial cases are those where the hook shows that the optimizer really changed the program.",
  note="No model involved: the oracle is the unoptimized evaluator. Runs that hit the 2 s safety deadline are inconclusive and dropped (counted). Known findings C03-sqrt-fold and C03-optimize-variable are excluded by construction (√ is never applied to a foldable integer constant, the name OPTIMIZE is never generated).",
  ref="DESIGN.md §3 C03"),
 "C06": dict(
  technique="property-based testing (rapid): random programs with user functions and deliberate name clashes compared with a scope-stack reference interpreter",
  text="Exploration: generated programs with up to 3 user functions (before/after use, recursive on a decreasing counter, value-less, wrong arity, unknown names) whose parameters, locals and loop variables are drawn from a pool that also names globals, with returns from inside foreach/while/switch at every depth, must agree with a reference interpreter that keeps an explicit scope stack: result, host-call sequence, and all globals after the run.",
  note="Trusted: reference interpreter. A callee reading or writing a caller's local (dynamic visibility) is outside what the property fixes: such cases are detected by the model and accepted either way (counted as unspecified).",
  ref="DESIGN.md §3 C06"),
}

def main():
    checks = []
    for pid in ALL:
        if pid not in CHECKS:
            continue
        c = CHECKS[pid]
        checks.append(dict(
            property_id=pid,
            quick_cmd="./check %s quick" % pid,
            thorough_cmd="./check %s thorough" % pid,
            evidence_file="/verif/evidence/%s.json" % pid,
            replay_cmd_template="./check --replay {path}",
            engine="harness",
            level_claimed=dict(category=c.get("category", "exploration"), text=c["text"], design_ref=c["ref"]),
            level_note=c["note"],
            technique=c["technique"]))
    hooks_commits = subprocess.run(["git", "-C", "/repo", "log", "--format=%H", "--grep=^verif hooks"], capture_output=True, text=True).stdout.split()
    m = dict(
        version=1,
        setup_cmd="./setup.sh",
        hooks=dict(guard="verif", enable="go build/test -tags verif (the harness module replaces github.com/skx/evalfilter/v2 by /repo, so every check rebuilds from /repo's working tree)",
                   baseline_off_cmd="cd /repo && GOFLAGS=-mod=mod GOPROXY=off GOSUMDB=off go test -vet=off -count=1 ./...",
                   source_commits=hooks_commits, add_only=True),
        engines=[dict(name="harness", path="/verif/harness", serves_properties=[c["property_id"] for c in checks],
                      kind_free_text="Go module: rapid v1.3.0 property tests + native go fuzz targets + reference interpreter (harness/lang), driven by /verif/check")],
        checks=checks,
        notes="Family: property-based testing and fuzzing only. ./check <ID> <tier> exits 0/1/2 (2 = infrastructure trouble, never a verdict). VERIF_SEED selects the rapid seeds. known_findings.json lists open findings (printed as KNOWN-FINDING) and fixed ones.",
        not_applicable=[dict(property_id=p, reason="check not built yet in this session (planned in DESIGN.md §3); not claimed until it exists") for p in ALL if p not in CHECKS],
    )
    with open(os.path.join(ROOT, "MANIFEST.json"), "w") as fh:
        json.dump(m, fh, indent=1)
        fh.write("\n")

main()
