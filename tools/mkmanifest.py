#!/usr/bin/env python3
"""Regenerates /verif/MANIFEST.json from the table below."""
import json, os, subprocess
ROOT = os.path.dirname(os.path.dirname(os.path.abspath(__file__)))

ALL = ["C%02d" % i for i in range(1, 21)]

CHECKS = {
 "C01": dict(
  technique="property-based testing (rapid) against a reference interpreter: exhaustive operator x type-pair x boundary-value table + random expression nestings",
  text="Exploration: every cell of the operator x ordered-type-pair x boundary-value table is executed (4 operand provenances, optimizer on and off) and compared with an independent reference interpreter (type, printed form and deep structure, or 'is an error'); random expression trees to depth 4 (quick) / 6 (thorough) over generated objects and variables are compared the same way. Finds wrong values, wrong types and missing/extra errors for the generated expressions; proves nothing beyond them.",
  note="Trusted: the reference interpreter in harness/lang (written from README + property text; cells the text leaves open are accepted either way and counted as 'unspecified'; behaviour pinned from the implementation is marked quirk and an error is accepted there). Float results are compared by printed form. Known finding C03-sqrt-fold is excluded by construction.",
  ref="DESIGN.md §3 C01"),
}

def main():
    checks = []
    for pid in ALL:
        if pid not in CHECKS:
            continue
        c = CHECKS[pid]
        checks.append(dict(
            property_id=pid,
            quick_cmd="./check %s quick" % pid,
            thorough_cmd="./check %s thorough" % pid,
            evidence_file="/verif/evidence/%s.json" % pid,
            replay_cmd_template="./check --replay {path}",
            engine="harness",
            level_claimed=dict(category=c.get("category", "exploration"), text=c["text"], design_ref=c["ref"]),
            level_note=c["note"],
            technique=c["technique"]))
    hooks_commits = subprocess.run(["git", "-C", "/repo", "log", "--format=%H", "--grep=^verif hooks"], capture_output=True, text=True).stdout.split()
    m = dict(
        version=1,
        setup_cmd="./setup.sh",
        hooks=dict(guard="verif", enable="go build/test -tags verif (the harness module replaces github.com/skx/evalfilter/v2 by /repo, so every check rebuilds from /repo's working tree)",
                   baseline_off_cmd="cd /repo && GOFLAGS=-mod=mod GOPROXY=off GOSUMDB=off go test -vet=off -count=1 ./...",
                   source_commits=hooks_commits, add_only=True),
        engines=[dict(name="harness", path="/verif/harness", serves_properties=[c["property_id"] for c in checks],
                      kind_free_text="Go module: rapid v1.3.0 property tests + native go fuzz targets + reference interpreter (harness/lang), driven by /verif/check")],
        checks=checks,
        notes="Family: property-based testing and fuzzing only. ./check <ID> <tier> exits 0/1/2 (2 = infrastructure trouble, never a verdict). VERIF_SEED selects the rapid seeds. known_findings.json lists open findings (printed as KNOWN-FINDING) and fixed ones.",
        not_applicable=[dict(property_id=p, reason="check not built yet in this session (planned in DESIGN.md §3); not claimed until it exists") for p in ALL if p not in CHECKS],
    )
    with open(os.path.join(ROOT, "MANIFEST.json"), "w") as fh:
        json.dump(m, fh, indent=1)
        fh.write("\n")

main()
