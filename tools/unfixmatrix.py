#!/usr/bin/env python3
"""Runs, for every repaired defect listed in known_findings.json, the quick
check of its property against a scratch tree with the reverse patch
(mutants/unfix-<commit>.patch) applied: the check must report the violation
again. Also runs the hand-made mutants. Writes mutants/MATRIX.md."""
import json, os, re, subprocess, sys
ROOT = os.path.dirname(os.path.dirname(os.path.abspath(__file__)))
kf = json.load(open(os.path.join(ROOT, "known_findings.json")))
want = {}
for line in kf["fixed"]:
    m = re.match(r"fixed: property=(C\d\d) ([0-9a-f]{7})", line)
    if m:
        want.setdefault(m.group(2), []).append(m.group(1))
EXTRA = {"be0a9e8": ["C01", "C05"], "b7dba9b": ["C16", "C01"], "3a0098c": ["C03", "C18", "C02"], "9d5c49d": ["C06", "C07"], "d9a3cd3": ["C15", "C07"],
         "5ec70de": ["C02", "C06"], "d020b54": ["C16", "C19"], "770ae13": ["C04", "C20"], "6ea59da": ["C18", "C13"], "68c6dcc": ["C18", "C13"],
         "93243a4": ["C13"], "9a8a6aa": ["C13"], "a6f3af5": ["C08"], "7359f47": ["C08"], "61f0891": ["C19"], "f1639ae": ["C14"], "15d5c8f": ["C19", "C20"]}
HAND = {"hand-run-without-mutex": ["C11"], "hand-getenv-reads-files": ["C10"], "hand-print-logs-to-file": ["C10"]}
rows = []
pref = sys.argv[1] if len(sys.argv) > 1 else ""
for f in sorted(os.listdir(os.path.join(ROOT, "mutants"))):
    if not f.endswith(".patch") or not f.startswith(pref if pref else f[:1]):
        continue
    name = f[:-6]
    if name.startswith("unfix-"):
        c = name[6:]
        props = list(dict.fromkeys(want.get(c, []) + EXTRA.get(c, [])))
    else:
        props = HAND.get(name, [])
    res = {}
    for p in props:
        out = subprocess.run([os.path.join(ROOT, "tools", "mutant.sh"), os.path.join(ROOT, "mutants", f), p], capture_output=True, text=True).stdout
        m = re.search(r" rc=(\d+) ", out)
        res[p] = int(m.group(1)) if m else -1
        print(name, p, res[p], flush=True)
    rows.append((name, res))
if not pref:
    with open(os.path.join(ROOT, "mutants", "MATRIX.md"), "w") as fh:
        fh.write("| mutant | quick checks run against it (1 = VIOLATION reported, 0 = missed, 2 = infrastructure status) |\n|---|---|\n")
        for name, res in rows:
            fh.write("| %s | %s |\n" % (name, ", ".join("%s: %s" % kv for kv in res.items())))
