#!/usr/bin/env python3
import json, sys, glob
import jsonschema
m=json.load(open('/verif/MANIFEST.json')); s=json.load(open('/root/.vp/MANIFEST.schema.json'))
jsonschema.validate(m,s); print("manifest ok: %d checks, %d not applicable" % (len(m['checks']), len(m.get('not_applicable',[]))))
es=json.load(open('/root/.vp/EVIDENCE.schema.json'))
for f in sorted(glob.glob('/verif/evidence/*.json')):
    jsonschema.validate(json.load(open(f)),es); print("evidence ok", f)
