#!/usr/bin/env python3
"""Rebuilds the seeded-change table of DESIGN.md section 8 (between the
seeded-table markers) from seeded/MATRIX.md, the first line of each
seeded/<id>/notes.md and the NEEDED map below."""
import os, re
ROOT = os.path.dirname(os.path.dirname(os.path.abspath(__file__)))
NEEDED = {
 "C01b-fold-below-unfoldable": "constant trees in the expression generator (gen.ConstTree)",
 "C02b-else-jump-skipped-by-last-byte": "pool-index shift so that an operand byte equals an opcode (gen PoolShift)",
 "C02b-switch-regexp-nonstring-subject": "regexp cases on non-string subjects",
 "C04b-shared-map-as-cycle": "part TestC04Shared (one map shared by objects and fields)",
 "C05b-negated-ternary-swap": "negated and double-negated conditions in every truth position",
 "C05b-jump-fold-reads-operand-byte": "pool-index shift",
 "C06b-stale-lastop": "nested function definitions + value-less function as operand (VoidOperand)",
 "C07b-fields-survive-nil-object": "nil objects in histories",
 "C08b-calls-leak-on-panic": "part TestC08Wear",
 "C09b-integer-power-loop": "cheap-single-operation loops + 90 s engine watchdog",
 "C09b-poll-counter-survives-run": "context kind cancel-after-runs",
 "C10b-debug-trace-to-stderr": "write-descriptor audit + DEBUG/OPTIMIZE phase",
 "C10b-getenv-file-convention": "environment-derived names with planted variables",
 "C11b-global-converting-set": "objects sharing nested maps across evaluators",
 "C11b-unwind-after-unlock": "shared scripts that fail for some objects inside scopes",
 "C13b-prepare-again-returns-nil": "Prepare asked twice, and with NoOptimize",
 "C13b-repeated-key-pairs-skipped": "contexts: values/keys of repeated constant keys, dead code",
 "C14b-escape-table-truncated-rune": "arbitrary code points, low-bits aliases of special characters",
 "C15b-shared-index-cell": "foreach index/element copied out of an iteration",
 "C15b-step-then-pass": "copies interleaved with mutations (parameter, twice-passed, returned value)",
 "C16b-array-literal-constants": "print-alike decoy literal; typed signatures in traces",
 "C16b-string-hashkey-lead-bytes": "string keys sharing lead bytes / prefixes",
 "C17b-number-less-as-float": "neighbouring numbers around any int64 base",
 "C19b-keys-via-sort-helper": "typed signatures in traces (1 vs \"1\" inside keys())",
 "C19-field-cache-by-address": "part TestC19Addresses",
 "C20b-cli-result-in-format-string": "hostile result strings through the CLI",
 "C08-calls-leak-on-failure": "C07 fault histories; later C08 wear",
 "C09-expiry-flag-goroutine": "loop-free burners / cold contexts (round 1)",
 "C10-crash-report-file": "run-time panics inside the audited window (round 1)",
 "C11-lazy-global-builtins": "cold-start part (round 1)",
 "C13-skip-after-return": "contexts after a return (round 1)",
 "C13-local-after-function": "nested functions / contexts (round 1)",
 "C15-step-copy-step": "step, copy, step sequences (round 1)",
 "C18-stale-lastop-implicit-return": "nested function definitions in C18 programs (round 1)",
 "C19-optimizer-error-map-order": "optimizer-sensitive function bodies (round 1)",
 "C20-host-function-cache": "API order histories (round 1)",
 "C20-cli-timeout-after-prepare": "CLI robustness with -timeout (round 1)",
 # round 3
 "C01c-match-trim-once": "strings with blanks/tabs next to line breaks, CR LF; anchored patterns",
 "C02c-scope-store-recycled": "belongs to C06/C07 (needs a user function or a second run)",
 "C04c-slice-cache-by-address": "part TestC04SharedSlices",
 "C05c-negated-comparison-nan": "ordering comparisons of host floats incl. NaN as boolean leaves",
 "C05c-empty-then-no-jump": "empty then/else blocks; if/else-if positions",
 "C07c-reflect-depth-leak": "part TestC07Reflect",
 "C08c-regcache-write-under-rlock": "belongs to C11 (needs two goroutines)",
 "C09c-deadline-by-clock-only": "cancellation before a far deadline; derived contexts",
 "C13c-local-after-nested-function": "preludes with functions that define functions",
 "C13c-unicode-number-identifiers": "generated illegal characters (any non-letter, non-digit code point)",
 "C14c-constant-pool-float-compare": "two to four neighbouring literals in one script",
 "C15c-private-copy-reuse": "host-read counter; GetVariable objects retained across runs",
 "C15c-set-walks-outermost-first": "same-named parameters / loop variables across nested calls and loops",
 "C16c-float-hashkey-32bit": "float keys that differ only beyond single precision",
 "C16c-string-iter-stops-at-fffd": "U+FFFD in iterated strings",
 "C19c-dollar-key-collision": "map objects with X, $X and $$X keys",
 "C20c-run-prepares-itself": "runs before any Prepare (Run fails exactly when Execute does)",
 # round 4
 "C01d-constant-pool-number-text": "twin constants: the same number written as the other kind earlier in the script",
 "C04d-field-names-by-type-name": "part TestC04SameNamedTypes",
 "C05d-condition-drops-double-bang": "positions !! in if / while / ternary",
 "C05d-ternary-true-false-folded": "truth-spelling idioms observed type-sensitively",
 "C06d-user-function-before-builtin": "part TestC06BuiltinWins (host functions registered before/after Prepare, after a run)",
 "C07d-calls-leak-on-depth-error": "part TestC07Wear: runaway recursion, good depth at the limit",
 "C08d-regcache-fill-under-rlock": "belongs to C11 (needs two goroutines)",
 "C09d-run-returns-holding-mutex": "three runs after the cancellation, each under the watchdog",
 "C11d-regcache-reset-outside-lock": "workloads with thousands of run-time patterns",
 "C14d-lexer-shared-scratch": "belongs to C11 (needs concurrent Prepare calls)",
 "C14d-backslash-crlf-rewritten": "CR LF sequences, also behind a backslash, in string texts",
 "C16d-string-hashkey-32bit": "string keys whose 32-bit FNV-1a values collide",
 "C17d-sort-result-in-pool": "profile sorttwice: several sort/reverse results alive at once",
 "C19d-shared-map-visited-set": "one nested host map reachable under several keys",
 "C19d-float-hashkey-bits": "NaN keys with different bit patterns, the two zeros",
 "C20d-cli-strips-bom": "odd first characters (BOM, NBSP, NUL, ...) in CLI scripts",
 # round 5
 "C19e-float-hashkey-memo-copied": "key variables with a history (C19); part TestC16Stepped",
 "C01e-float-key-after-step": "belongs to C16 (part TestC16Stepped: keys with a history)",
 "C17e-trim-ascii-fast-path": "white space that is not ASCII in the shared text generator",
 "C17e-sorted-array-keeps-cached-text": "the engine's own Inspect() compared; sort inputs with a history",
 "C04e-fields-kept-after-runaway-recursion": "failing runs between the records",
 "C09e-poll-only-on-empty-stack": "statements whose value nobody uses before and inside the spinning part",
 "C09e-prepare-memo-keeps-old-context": "Prepare histories (validate first, other context first, expired first)",
 "C11e-lazy-index-in-shared-array": "host objects shared by all private evaluators through SetVariable",
 "C05e-nan-condition-fast-path": "NaN and the infinities as truth values",
 "C05e-fields-kept-for-nil-object": "null by absence after every history, with and without an object",
 "C05e-placeholders-dropped-second-round": "positions in which a ternary feeds a condition or comparison",
 "C14e-bare-cr-ends-comment": "generated comment texts (CR, quotes, code)",
 "C16e-foreach-cursor-copies-offset": "containers used before: walked by a host function through Iterable",
 "C16e-reverse-flips-sorted-input": "containers used before: handed to built-ins",
 "C01e-string-index-invalid-utf8": "belongs to C16 (access 'agree' on host strings that are not valid UTF-8)",
 "C01e-fields-kept-for-same-object": "history before the judged run (same address, other contents)",
 "C18e-constant-index-stale-after-failed-prepare": "evaluators re-targeted after a rejected script",
 "C18e-prepare-again-reuses-compacted-code": "evaluators prepared a second time",
 "C02e-fields-kept-for-same-object": "sequences of runs on one evaluator, records changed in place",
 "C02e-foreach-after-join": "containers handed to built-ins between loops",
 "C06e-calls-counter-leaks-on-arity-error": "belongs to C07 (an arity error, then an early return, then a third run)",
 "C08e-panic-nil": "panic(null) under GODEBUG=panicnil=1 (odd shards)",
 "C08e-convert-mark-leaks-on-panic": "part TestC08Repair (the failing object repaired in place)",
 "C12e-ternary-flag-sticks-after-function": "surroundings of the meaning scripts",
 # round 6
 "C01f-unwind-skips-depth-zero": "belongs to C07/C06 (an abandoned loop in an earlier run)",
 "C17f-failed-zone-cached-nil": "zones the host cannot load; time parts asked twice",
 "C10f-large-sort-log-file": "phase with arguments of 65536-70000 entries",
 "C19f-failed-regexp-cached-standin": "patterns that do not compile, new to the process",
 "C04f-reflect-depth-leaks-past-limit": "part TestC04Deep (too-deep objects, depths at the limit)",
 "C04f-cycle-mark-deleted-by-inner": "part TestC04Graphs (several back-references)",
 "C04f-string-hashkey-by-rune": "part TestC04Graphs (keys that are not valid UTF-8)",
 "C11f-unreflectable-types-seen-map": "record types made for the occasion with unconvertible fields",
 "C11f-hash-entries-memo-shared": "mode hostvalues (all goroutines on the shared host objects)",
 "C15f-constant-limit-65537": "belongs to C18 (stressor: exactly 65536+d constants over eight bodies)",
 "C15f-unwind-closes-half": "belongs to C06/C07 (leaving two loops at once inside a function)",
 "C15f-identifier-truncated-at-64": "names sharing a 76-character prefix",
 "C07f-reflect-depth-leaks-past-limit": "too-deep objects, depths at the limit",
 "C07f-cli-timeout-shared-by-files": "belongs to C20 (CLI: a first script that uses up its allowance)",
 "C16f-string-hashkey-shared-hasher": "belongs to C11 (needs two goroutines)",
 "C09f-integer-power-minint-loop": "operations on the ends of the integers inside the endless loops",
 "C09f-recovered-panic-machine-without-context": "a failing run before the judged one",
 "C09f-regcache-lock-leak": "belongs to C11 (a fresh pattern met by all goroutines at once; watchdog)",
 "C08f-run-returns-holding-mutex": "watchdog around every API call; Run twice after a failed Prepare",
 "C02f-function-size-check-uses-main": "part TestC02Limits (bodies crossing 65535 bytes end in jumps)",
 "C06f-function-size-check-uses-main": "belongs to C18/C02 limits (a body beyond 65535 bytes)",
 "C18f-function-size-check-uses-main": "stressor: bodies of exactly 65533-70000 bytes as function",
 "C02f-arity-error-leaves-callee-code": "belongs to C06/C07 (a top-level arity error, then another run)",
 "C20f-arity-error-leaves-callee-code": "belongs to C06/C07 (a top-level arity error, then another run)",
 "C14f-integer-literal-2-63": "literals beyond the range of integers",
 "C14f-float-literal-range-error-ignored": "literals beyond the range of finite floats",
 "C05f-fold-accepts-65536": "provenance folded (constants the optimizer computes), 65534-65537",
 "C20f-fold-accepts-65536": "belongs to C03/C05/C01 (a folded constant of exactly 65536)",
 "C05f-unwind-depth-read-at-exit": "belongs to C07/C06 (an abandoned loop)",
 "C13f-size-checked-on-node-entry": "belongs to C18 (stressor: bodies of exactly 65533-65538 bytes)",
 "C13f-trailing-nul-is-eof": "NUL at every offset and at the very end",
 "C12f-fold-keeps-stale-constants-out-of-range": "literal-only trees",
 "C12f-divzero-fold-keeps-stale-constants": "literal-only trees",
 "C03f-float-literal-string-by-value": "belongs to C19 (order of pairs under a repeated key)",
 "C18f-sqrt-fold-abandoned-keeps-constants": "known-finding exclusion narrowed to perfect squares (roots of other constants are generated)",
 "C18f-constant-count-check-removed": "stressor: exactly 65536+d constants over eight bodies",
}
rows = open(os.path.join(ROOT, "seeded", "MATRIX.md")).read().strip().splitlines()[2:]
lines = ["| seeded change (suffix b = round 2, c = round 3, d = round 4, e = round 5, f = round 6) | what it does | caught by (quick tier, seed 1) | generator/oracle work it needed |", "|---|---|---|---|"]
for r in rows:
    sid, prop, res = [c.strip() for c in r.strip("|").split("|")]
    title = ""
    f = os.path.join(ROOT, "seeded", sid, "notes.md")
    if os.path.isfile(f):
        for l in open(f):
            if l.startswith("# "):
                title = re.sub(r"^(C\d\d )?(seed(ed)? ?(change)?|Seed(ed)? ?(change)?|Change|C\d\d ?/ ?change|Seed C\d\d ?/|C\d\d seed(ed)?( change)?)[^-]*- ", "", l[2:].strip())
                break
    caught = [x.split(":")[0].strip() for x in res.split(",") if x.strip().endswith("1")]
    missed = [x.split(":")[0].strip() for x in res.split(",") if x.strip() and not x.strip().endswith("1")]
    c = ", ".join(caught)
    if missed:
        c += " (not by " + ", ".join(missed) + ")"
    lines.append("| %s | %s | %s | %s |" % (sid, title.replace("|", "/")[:160], c, NEEDED.get(sid, "- (caught as filed)")))
p = os.path.join(ROOT, "DESIGN.md")
s = open(p).read()
b, e = "<!-- seeded-table-begin -->", "<!-- seeded-table-end -->"
i, j = s.index(b), s.index(e)
s = s[:i + len(b)] + "\n" + "\n".join(lines) + "\n" + s[j:]
open(p, "w").write(s)
print(len(rows), "rows")
