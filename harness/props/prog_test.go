package props

import (
	"encoding/json"
	"fmt"
	"os"
	"testing"
	"time"

	"pgregory.net/rapid"

	"verif/harness/eng"
	"verif/harness/evid"
	"verif/harness/gen"
	"verif/harness/lang"
)

// caseFromProg packages a generated program as a reproducible Case with
// the model's expectation. It returns the model machine for its statistics.
func caseFromProg(prop, kind string, pr *gen.Prog, noOpt bool, objMode string) (*Case, *lang.Machine) {
	c := &Case{Prop: prop, Kind: kind, Vars: map[string]lang.Value{}, Obj: &eng.ObjSpec{Mode: objMode}, NoOpt: noOpt}
	m := lang.NewMachine()
	eng.ModelHost(m)
	for _, b := range pr.In.Fields {
		c.Obj.Fields = append(c.Obj.Fields, eng.Field{Name: b.Name, V: b.V})
		m.Fields[b.Name] = b.V
	}
	for _, b := range pr.In.Vars {
		c.Vars[b.Name] = b.V
		m.Globals[b.Name] = b.V
	}
	if c.Obj.Mode != "map" && !c.Obj.StructOK() {
		c.Obj.Mode = "map"
	}
	c.Script = lang.ProgramText(pr.P)
	c.Exp = expectFromModel(m, pr.P)
	c.Exp.CheckTrace = true
	c.Exp.CheckGlobals = true
	return c, m
}

type progCheckCfg struct {
	prop, part, rule string
	opts             func() gen.ProgOpts
	nontrivial       func(m *lang.Machine, c *Case) bool
}

func progCheck(t *testing.T, cfg progCheckCfg) {
	defer silence()()
	col := evid.New(cfg.prop, cfg.part, cfg.rule)
	replayKnown(t, col, cfg.prop)
	rapidCheck(t, col, func(rt *rapid.T) {
		pr := gen.Program(rt, cfg.opts())
		if gen.Uniform(rt, "longnames", 10) == 0 {
			// the same program with variable names that agree in their first 76
			// characters: every name is still its own variable
			isField := map[string]bool{}
			for _, f := range pr.In.Fields {
				isField[f.Name] = true
			}
			long := func(n string) string {
				if isField[n] {
					return n
				}
				return "a_rather_long_name_a_rather_long_name_a_rather_long_name_a_rather_long_name_" + n
			}
			pr.P = lang.Rename(pr.P, long)
			for i := range pr.In.Vars {
				pr.In.Vars[i].Name = long(pr.In.Vars[i].Name)
			}
			col.Class("names-sharing-a-long-prefix")
		}
		noOpt := rapid.Bool().Draw(rt, "noopt")
		mode := rapid.SampledFrom([]string{"map", "struct", "ptr"}).Draw(rt, "objmode")
		c, m := caseFromProg(cfg.prop, cfg.part, pr, noOpt, mode)
		if gen.Uniform(rt, "sequence", 4) == 0 && !c.Exp.Unspec {
			// the same evaluator runs again (and again): the model goes on
			// from the variables the previous run left
			c.PrepareTwice = rapid.Bool().Draw(rt, "preparetwice")
			c.SameAddress = rapid.Bool().Draw(rt, "sameaddress")
			newObjects := rapid.Bool().Draw(rt, "newobjects")
			for k := rapid.IntRange(1, 3).Draw(rt, "moreruns"); k > 0; k-- {
				if newObjects && len(c.Obj.Fields) > 0 {
					// the next record: other values in (some of) the fields
					var fs []eng.Field
					for _, f := range c.Obj.Fields {
						nf := f
						if rapid.Bool().Draw(rt, "changefield") {
							nf.V = redrawField(rt, f.Name, f.V)
						}
						fs = append(fs, nf)
						m.Fields[nf.Name] = nf.V
					}
					if c.Obj.Mode != "map" && !(&eng.ObjSpec{Mode: c.Obj.Mode, Fields: fs}).StructOK() {
						break
					}
					c.LaterFields = append(c.LaterFields, fs)
				} else {
					c.LaterFields = append(c.LaterFields, nil)
				}
				m.Trace = nil
				m.Steps = 0
				m.Quirk = false
				e := expectFromModel(m, pr.P)
				e.CheckTrace, e.CheckGlobals = true, true
				c.Later = append(c.Later, e)
				if e.Unspec {
					break
				}
			}
			col.Class(fmt.Sprintf("runs-on-one-evaluator:%d", 1+len(c.Later)))
		}
		t0 := time.Now()
		if e := runCase(c); e != nil {
			violation(rt, cfg.prop, c, "%v", e)
		}
		if d := time.Since(t0); d > 2*time.Second {
			col.Class("slow-case(>2s)")
			cj, _ := json.Marshal(c)
			fmt.Fprintf(os.Stderr, "SLOW CASE %v (%s):\n%s\nSLOW CASE JSON %s\n", d, c.Exp.Why, c.Script, cj)
		}
		switch {
		case c.Exp.Unspec:
			col.Excluded("unspecified: " + clip(c.Exp.Why, 60))
			col.Class("outcome:unspecified")
		case c.Exp.Err:
			col.Class("outcome:error")
		default:
			col.Class("outcome:value")
		}
		col.Class(fmt.Sprintf("funcs:%d", pr.NFuncs))
		if m.Stats.LoopReturns > 0 {
			col.Class("return-from-loop")
		}
		if m.Stats.ShadowCalls > 0 {
			col.Class("call-with-name-clash-or-loop-return")
		}
		if m.Stats.Calls > 0 {
			col.Class("user-call")
		}
		if m.Stats.LoopIters > 0 {
			col.Class("loop-iterated")
		}
		cc := c
		col.Case(c.Script+"|"+fmt.Sprint(c.Vars, c.Obj.Fields, c.NoOpt), !c.Exp.Unspec && cfg.nontrivial(m, c), func() interface{} { return sampleOf(cc) })
	})
}

func clip(s string, n int) string {
	if len(s) > n {
		return s[:n]
	}
	return s
}

// C02 — control flow runs exactly the statements the language selects.
func TestC02(t *testing.T) {
	progCheck(t, progCheckCfg{
		prop: "C02", part: "programs",
		rule: "random programs of nested if/else-if/else, while/for, foreach (array, string, hash, range; with/without index), switch (literal, expression, regexp, lists, default anywhere), ternary, return, with trace() calls; compared with the reference interpreter on result, host-call sequence and resulting variables; non-trivial = >=2 branch decisions of which >=1 inside a loop body or switch arm; distinct by program text + inputs",
		opts: func() gen.ProgOpts {
			return gen.ProgOpts{Depth: scale(3, 4), Block: scale(3, 4), Clash: true, Ternary: true, Switch: true, EarlyRet: true, IncDec: true, PoolShift: true, NoSqrtFold: true, StringIter: true}
		},
		nontrivial: func(m *lang.Machine, c *Case) bool { return m.Stats.Branches >= 2 && m.Stats.BranchInLoop >= 1 },
	})
}

// C06 — functions and scopes.
func TestC06(t *testing.T) {
	progCheck(t, progCheckCfg{
		prop: "C06", part: "programs",
		rule: "random programs with 0-3 user functions (defined before or after use, recursive on a decreasing counter, value-less, wrong arity, unknown function), parameters/locals/loop variables drawn from a pool that also names globals; compared with a reference interpreter with an explicit scope stack on result, host-call sequence, resulting variables, and zero open scopes after the run; non-trivial = >=1 call whose callee binds a name live in the caller/globally or returns from inside a loop; distinct by program text + inputs",
		opts: func() gen.ProgOpts {
			return gen.ProgOpts{Depth: scale(3, 4), Block: 3, Funcs: 3, Clash: true, Ternary: true, Switch: true, EarlyRet: true, IncDec: false, ErrStmts: true, NoSqrtFold: true, VoidOperand: true}
		},
		nontrivial: func(m *lang.Machine, c *Case) bool { return m.Stats.ShadowCalls >= 1 },
	})
}

// redrawField draws another value for an input field of a generated program;
// the name's first letter says what the program uses the field for.
func redrawField(rt *rapid.T, name string, old lang.Value) lang.Value {
	var v lang.Value
	switch name[0] {
	case 'A':
		v = gen.ArrayValue(rt, "newarr", gen.ValueOpts{FieldSafe: true})
	case 'H':
		v = gen.HashValue(rt, "newhash", gen.ValueOpts{Depth: 1, FieldSafe: true})
	case 'C':
		v = gen.Value(rt, "newcond", gen.ValueOpts{Depth: 1, FieldSafe: true})
	default:
		v = gen.Scalar(rt, "newscalar", old.K)
	}
	if !eng.FieldOK(v, false) {
		return old
	}
	return v
}
