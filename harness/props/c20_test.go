package props

import (
	"bytes"
	"context"
	"encoding/json"
	"fmt"
	"os"
	"os/exec"
	"path/filepath"
	"regexp"
	"strings"
	"testing"
	"time"

	evalfilter "github.com/skx/evalfilter/v2"
	"github.com/skx/evalfilter/v2/object"
	"pgregory.net/rapid"

	"verif/harness/bcverify"
	"verif/harness/eng"
	"verif/harness/evid"
	"verif/harness/gen"
	"verif/harness/lang"
)

// C20 — the embedding API and the command-line driver are faithful front ends.

// ---- 1. Run vs Execute ----

func TestC20RunExecute(t *testing.T) {
	defer silenceAs("runexecute")()
	col := evid.New("C20", "runexecute", "five parts: (1) Run vs Execute on generated programs and objects (two fresh evaluators): Run fails exactly when Execute fails, else returns the truth of Execute's value; (2) SetVariable/GetVariable round trips for every value type before and after Prepare, script assignments read back, never-assigned names are null; (3) host functions of arity 0-6 returning every type or the void value: called once per call execution with the script's arguments in written order, their result is the call's value, a void result leaves nothing; (4) Prepare flags: only NoOptimize changes the program, unknown flag bytes change nothing; (5) the command-line driver built from the current tree: 'run [-json f] [-no-optimizer] [-timeout d] script' reports the type, value and truth (or error) that Execute gives in-process for the decoded document; an endless script with -timeout stops within 3 s; lex/parse/bytecode/run on arbitrary bytes and JSON exit with status 0 without a Go panic within 10 s; non-trivial = the script uses the injected variable/function/field or a non-default flag; distinct by (script, inputs, flags)")
	replayKnown(t, col, "C20")
	rapidCheck(t, col, func(rt *rapid.T) {
		pr := gen.Program(rt, gen.ProgOpts{Depth: 2, Block: 3, Funcs: 1, Ternary: true, Switch: true, EarlyRet: true, ErrStmts: true, NoSqrtFold: true})
		noOpt := rapid.Bool().Draw(rt, "noopt")
		c, _ := caseFromProg("C20", "run-vs-execute", pr, noOpt, rapid.SampledFrom([]string{"map", "struct", "ptr"}).Draw(rt, "mode"))
		// final statement: return a value of an arbitrary type so that the verdict matters
		c.UseRun = true
		if err := runCase(c); err != nil {
			violation(rt, "C20", c, "%v", err)
		}
		// and directly: Execute and Run on two fresh evaluators agree
		a, err1 := prepared(c.Script, c.Vars, noOpt)
		b, err2 := prepared(c.Script, c.Vars, noOpt)
		if err1 != nil || err2 != nil {
			violation(rt, "C20", c, "Prepare rejected a valid script: %v %v", err1, err2)
		}
		res := a.Execute(c.Obj.Build())
		var verdict bool
		var rerr error
		var pan interface{}
		func() {
			defer func() { pan = recover() }()
			verdict, rerr = b.E.Run(c.Obj.Build())
		}()
		switch {
		case pan != nil:
			violation(rt, "C20", c, "Run panicked: %v", pan)
		case res.Panic != nil:
			violation(rt, "C20", c, "Execute panicked: %v", res.Panic)
		case (res.Err == nil) != (rerr == nil):
			violation(rt, "C20", c, "Execute err=%v but Run err=%v", res.Err, rerr)
		case res.Err == nil && verdict != res.Val.Truth():
			violation(rt, "C20", c, "Execute returned %s (truth %v) but Run returned %v", res.Val.Describe(), res.Val.Truth(), verdict)
		}
		cc := c
		col.Case(fmt.Sprint(c.Script, c.Vars, c.Obj, noOpt), !c.Exp.Unspec, func() interface{} { return sampleOf(cc) })
	})
}

// ---- 2. variables ----

func TestC20Variables(t *testing.T) {
	defer silenceAs("variables")()
	col := evid.New("C20", "variables", "")
	rapidCheck(t, col, func(rt *rapid.T) {
		v := gen.Value(rt, "val", gen.ValueOpts{Depth: 2, Regexp: true, NoKeyTies: true})
		name := rapid.SampledFrom([]string{"v", "Count", "_x", "name9", "狐", "$id", "$ref", "v", "Count"}).Draw(rt, "name")
		// how the script spells the name: as it is, or with the legacy "$" in
		// front (which is not part of the name - so a name that does begin with
		// "$" is spelled with two)
		spelled := name
		if strings.HasPrefix(name, "$") || rapid.Bool().Draw(rt, "legacydollar") {
			spelled = "$" + name
		}
		after := rapid.Bool().Draw(rt, "afterprepare")
		noOpt := rapid.Bool().Draw(rt, "noopt")
		assigned := gen.Value(rt, "assigned", gen.ValueOpts{Depth: 1, NoKeyTies: true})
		if !gen.LiteralOK(assigned) {
			assigned = lang.Int(3)
		}
		script := "out = " + spelled + "; mine = " + lang.ExprText(lang.ValueExpr(assigned)) + "; return " + spelled + ";"
		payload := map[string]interface{}{"prop": "C20", "kind": "variables", "script": script, "name": name, "value": v.Describe(), "set_after_prepare": after, "noopt": noOpt}
		r := eng.NewRunner(script)
		if !after {
			r.E.SetVariable(name, eng.ToObject(v))
		}
		if err, pan := r.Prepare(noOpt); err != nil || pan != nil {
			violation(rt, "C20", payload, "Prepare failed: %v %v", err, pan)
		}
		if after {
			r.E.SetVariable(name, eng.ToObject(v))
		}
		// GetVariable before any run: the injected value; never-assigned: null
		got, gerr := eng.FromObject(r.E.GetVariable(name))
		if gerr != nil || !lang.DeepEqual(got, v) {
			violation(rt, "C20", payload, "GetVariable(%s) before the run: expected %s, got %s %v", name, v.Describe(), got.Describe(), gerr)
		}
		if n, _ := eng.FromObject(r.E.GetVariable("never_assigned")); n.K != lang.KNull {
			violation(rt, "C20", payload, "GetVariable of a never-assigned name: expected null, got %s", n.Describe())
		}
		res := r.Execute(map[string]interface{}{name: "a field that the variable must shadow", strings.TrimPrefix(name, "$"): "a member of a similar name"})
		if res.Panic != nil || res.Err != nil {
			violation(rt, "C20", payload, "run failed: %v %v", res.Panic, res.Err)
		}
		if !lang.DeepEqual(res.Val, v) || res.Val.Inspect() != v.Inspect() {
			violation(rt, "C20", payload, "the script read %s, SetVariable gave %s", res.Val.Describe(), v.Describe())
		}
		for n, want := range map[string]lang.Value{"out": v, "mine": assigned, name: v} {
			got, gerr := eng.FromObject(r.E.GetVariable(n))
			if gerr != nil || !lang.DeepEqual(got, want) {
				violation(rt, "C20", payload, "GetVariable(%s) after the run: expected %s, got %s %v", n, want.Describe(), got.Describe(), gerr)
			}
		}
		col.Class("type:" + v.Type())
		col.Case(fmt.Sprint(script, v.Describe(), after, noOpt), true, func() interface{} { return payload })
	})
}

// ---- 3. host functions ----

func TestC20HostFunctions(t *testing.T) {
	defer silenceAs("hostfunctions")()
	col := evid.New("C20", "hostfunctions", "")
	rapidCheck(t, col, func(rt *rapid.T) {
		arity := rapid.IntRange(0, 6).Draw(rt, "arity")
		void := gen.Uniform(rt, "void", 4) == 0
		ret := gen.Value(rt, "ret", gen.ValueOpts{Depth: 1, Regexp: true, NoKeyTies: true})
		args := make([]lang.Value, arity)
		argExprs := make([]string, arity)
		for i := range args {
			args[i] = gen.Value(rt, "arg", gen.ValueOpts{Depth: 1, NoKeyTies: true})
			if !gen.LiteralOK(args[i]) {
				args[i] = lang.Int(int64(i))
			}
			argExprs[i] = lang.ExprText(lang.ValueExpr(args[i]))
		}
		calls := rapid.IntRange(1, 3).Draw(rt, "calls")
		call := "hf(" + strings.Join(argExprs, ", ") + ")"
		var script string
		position := "statement"
		switch {
		case void && rapid.Bool().Draw(rt, "voidoperand"):
			position = "void-as-operand"
			script = "x = " + call + "; return 1;"
		case void:
			script = "before = 5; n = 0; while (n < " + fmt.Sprint(calls) + ") { " + call + "; n = n + 1; } after = before + 1; return [before, after];"
		default:
			position = "operand"
			script = "r = []; n = 0; while (n < " + fmt.Sprint(calls) + ") { r = " + call + "; n = n + 1; } return [r, 7];"
		}
		payload := map[string]interface{}{"prop": "C20", "kind": "hostfunction", "script": script, "arity": arity, "void": void, "returns": ret.Describe()}
		var seen [][]lang.Value
		r := eng.NewRunner(script)
		// a host function may use the evaluator it belongs to (keep a counter in
		// a variable scripts can see, look at what the script has set so far,
		// register a helper): under Run as under Execute
		reentrant := gen.Uniform(rt, "reentrant", 3) == 0
		hostCount := int64(0)
		r.E.AddFunction("hf", func(a []object.Object) object.Object {
			if reentrant {
				hostCount++
				_ = r.E.GetVariable("before")
				r.E.SetVariable("hostcount", &object.Integer{Value: hostCount})
				r.E.AddFunction("helper", func([]object.Object) object.Object { return &object.Null{} })
			}
			var got []lang.Value
			for _, o := range a {
				v, _ := eng.FromObject(o)
				got = append(got, v)
			}
			seen = append(seen, got)
			if void {
				return &object.Void{}
			}
			return eng.ToObject(ret)
		})
		noOpt := rapid.Bool().Draw(rt, "noopt")
		if err, pan := r.Prepare(noOpt); err != nil || pan != nil {
			violation(rt, "C20", payload, "Prepare failed: %v %v", err, pan)
		}
		var res eng.Result
		if reentrant {
			col.Class("host-function-uses-its-evaluator")
			// first through Run (which holds the evaluator's lock for the whole
			// script), then through Execute; a call that does not come back is blocked
			type runOut struct {
				err error
				pan interface{}
			}
			rdone := make(chan runOut, 1)
			go func() {
				var o runOut
				defer func() { o.pan = recover(); rdone <- o }()
				_, o.err = r.E.Run(nil)
			}()
			select {
			case o := <-rdone:
				if o.pan != nil {
					violation(rt, "C20", payload, "Run panicked: %v", o.pan)
				}
				if (o.err != nil) != (position == "void-as-operand") {
					violation(rt, "C20", payload, "Run with a host function that uses its evaluator: err=%v", o.err)
				}
			case <-time.After(30 * time.Second):
				violation(rt, "C20", payload, "Run had not returned after 30 s: the host function calls GetVariable/SetVariable/AddFunction on the evaluator that is running it, and the call is blocked")
			}
			seen = nil
			edone := make(chan eng.Result, 1)
			go func() { edone <- r.Execute(nil) }()
			select {
			case res = <-edone:
			case <-time.After(30 * time.Second):
				violation(rt, "C20", payload, "Execute had not returned after 30 s (host function using its evaluator)")
			}
		} else {
			res = r.Execute(nil)
		}
		if res.Panic != nil {
			violation(rt, "C20", payload, "panic: %v", res.Panic)
		}
		wantCalls := calls
		if position == "void-as-operand" {
			wantCalls = 1
			if res.Err == nil {
				violation(rt, "C20", payload, "a value-less call used as an operand gave %s instead of an error", res.Val.Describe())
			}
		} else if res.Err != nil {
			violation(rt, "C20", payload, "unexpected error: %v", res.Err)
		}
		if len(seen) != wantCalls {
			violation(rt, "C20", payload, "the host function was called %d times for %d call executions", len(seen), wantCalls)
		}
		for _, got := range seen {
			if len(got) != arity {
				violation(rt, "C20", payload, "the host function received %d arguments, the script passed %d", len(got), arity)
			}
			for i := range got {
				if !lang.DeepEqual(got[i], args[i]) {
					violation(rt, "C20", payload, "argument %d: the script passed %s, the host function received %s", i, args[i].Describe(), got[i].Describe())
				}
			}
		}
		switch position {
		case "operand":
			want := lang.Array(ret, lang.Int(7))
			if !lang.DeepEqual(res.Val, want) {
				violation(rt, "C20", payload, "expected %s, got %s", want.Describe(), res.Val.Describe())
			}
		case "statement":
			want := lang.Array(lang.Int(5), lang.Int(6))
			if !lang.DeepEqual(res.Val, want) {
				violation(rt, "C20", payload, "a void call disturbed the following expressions: expected %s, got %s", want.Describe(), res.Val.Describe())
			}
		}
		col.Class(fmt.Sprintf("arity:%d", arity))
		col.Class("position:" + position)
		col.Case(fmt.Sprint(script, ret.Describe(), void, noOpt), true, func() interface{} { return payload })
	})
}

// ---- 4. flags ----

func digestWithFlags(script string, flags ...[]byte) (string, error) {
	e := evalfilter.New(script)
	if err := e.Prepare(flags...); err != nil {
		return "", err
	}
	r := &eng.Runner{E: e}
	return programDigest(r), nil
}

func TestC20Flags(t *testing.T) {
	defer silenceAs("flags")()
	col := evid.New("C20", "flags", "")
	rapidCheck(t, col, func(rt *rapid.T) {
		pr := gen.Program(rt, gen.ProgOpts{Depth: 2, Block: 3, Funcs: 1, OptBias: true, Ternary: true, Switch: true, EarlyRet: true, NoSqrtFold: true})
		script := "k = 1 + 2;\n" + lang.ProgramText(pr.P)
		payload := map[string]interface{}{"prop": "C20", "kind": "flags", "script": script}
		opt, err := digestWithFlags(script)
		if err != nil {
			violation(rt, "C20", payload, "Prepare() failed: %v", err)
		}
		raw, err := digestWithFlags(script, []byte{evalfilter.NoOptimize})
		if err != nil {
			violation(rt, "C20", payload, "Prepare(NoOptimize) failed: %v", err)
		}
		junk := byte(rapid.IntRange(1, 255).Draw(rt, "junk"))
		for name, fl := range map[string][][]byte{
			"empty flag slice": {{}}, "unknown flag byte": {{junk}}, "two unknown bytes": {{junk, 200}}, "nil slice": {nil}, "several slices": {{junk}, {}, {201}},
		} {
			d, err := digestWithFlags(script, fl...)
			if err != nil || d != opt {
				payload["flags"] = fmt.Sprint(fl)
				violation(rt, "C20", payload, "Prepare with %s compiles a different program than Prepare() (err %v)", name, err)
			}
		}
		for name, fl := range map[string][][]byte{
			"NoOptimize + unknown": {{evalfilter.NoOptimize, junk}}, "unknown + NoOptimize": {{junk, evalfilter.NoOptimize}}, "second slice": {{junk}, {evalfilter.NoOptimize}},
		} {
			d, err := digestWithFlags(script, fl...)
			if err != nil || d != raw {
				payload["flags"] = fmt.Sprint(fl)
				violation(rt, "C20", payload, "Prepare with %s compiles a different program than Prepare(NoOptimize) (err %v)", name, err)
			}
		}
		if opt == raw {
			violation(rt, "C20", payload, "NoOptimize has no effect: 'k = 1 + 2' compiles to the same program with and without it")
		}
		// NoOptimize really is unoptimized: the constant addition is still there
		e := evalfilter.New("return 1 + 2;")
		_ = e.Prepare([]byte{evalfilter.NoOptimize})
		_, main, _ := e.VerifProgram()
		if !bcverify.HasOpcode(main, "OpAdd") {
			violation(rt, "C20", payload, "with NoOptimize 'return 1 + 2;' no longer contains the addition")
		}
		col.Case(script, true, func() interface{} { return map[string]interface{}{"script": clip(script, 400)} })
	})
}

// ---- 5. command-line driver ----

func cliPath(t failer) string {
	p := os.Getenv("VERIF_CLI")
	if p == "" {
		p = filepath.Join(verifRoot(), "build", "evalfilter")
	}
	if _, err := os.Stat(p); err != nil {
		t.Fatalf("INFRA: the command-line driver has not been built (%s)", p)
	}
	return p
}

var resultLine = regexp.MustCompile(`(?s)Script gave result type:([A-Z]+) value:(.*) - which is '(true|false)'\.\n`)

type cliOut struct {
	out      string
	status   int
	timedOut bool
	elapsed  time.Duration
}

func runCLI(bin string, limit time.Duration, args ...string) cliOut {
	ctx, cancel := context.WithTimeout(context.Background(), limit)
	defer cancel()
	cmd := exec.CommandContext(ctx, bin, args...)
	var buf bytes.Buffer
	cmd.Stdout = &buf
	cmd.Stderr = &buf
	start := time.Now()
	err := cmd.Run()
	o := cliOut{out: buf.String(), elapsed: time.Since(start)}
	if ctx.Err() != nil {
		o.timedOut = true
	}
	if ee, ok := err.(*exec.ExitError); ok {
		o.status = ee.ExitCode()
	} else if err != nil {
		o.status = -1
	}
	return o
}

func cliCrashed(o cliOut) string {
	switch {
	case o.timedOut:
		return "did not terminate"
	case o.status != 0:
		return fmt.Sprintf("exit status %d", o.status)
	case strings.Contains(o.out, "Panic at the disco"), strings.Contains(o.out, "goroutine 1 ["), strings.Contains(o.out, "fatal error:"):
		return "a Go panic reached the driver"
	}
	return ""
}

func TestC20CLI(t *testing.T) {
	defer silenceAs("cli")()
	col := evid.New("C20", "cli", "")
	bin := cliPath(t)
	dir, err := os.MkdirTemp(os.Getenv("VERIF_OUT"), "cli")
	if err != nil {
		t.Fatalf("INFRA: %v", err)
	}
	defer os.RemoveAll(dir)
	rapidCheck(t, col, func(rt *rapid.T) {
		pr := gen.Program(rt, gen.ProgOpts{Depth: 2, Block: 3, Funcs: 1, Ternary: true, Switch: true, EarlyRet: true, ErrStmts: true, NoSqrtFold: true})
		// programs that the reference interpreter refuses for their size (doubling
		// strings inside recursion, ...) would only measure the 20 s limit of the
		// driver call: a time budget is never a verdict
		if screen, _ := caseFromProg("C20", "cli", pr, false, "map"); screen.Exp.Unspec && strings.HasPrefix(screen.Exp.Why, "resource:") {
			col.Excluded("resource: " + clip(screen.Exp.Why, 40))
			return
		}
		// the driver knows no host functions: drop the trace()/id() statements
		prog := stripHostCalls(pr.P)
		script := lang.ProgramText(prog)
		// document: the fields, as JSON
		doc := lang.Hash()
		for _, f := range pr.In.Fields {
			doc.H = append(doc.H, lang.Pair{K: lang.Str(f.Name), V: f.V})
		}
		// variables cannot be injected through the driver: assign them in the script
		pre := ""
		for _, v := range pr.In.Vars {
			if !gen.LiteralOK(v.V) {
				return
			}
			pre += v.Name + " = " + lang.ExprText(lang.ValueExpr(v.V)) + ";\n"
		}
		script = pre + script
		if gen.Uniform(rt, "resultshape", 4) == 0 {
			// results whose printed form is hostile to whoever prints it:
			// format verbs, quotes, line breaks, the words of the report itself
			hostile := []string{"%s", "100%", "%d items", "%!v(x)", "%%", "%", "a\nb", "' - which is 'true'.", "type:INTEGER value:1", "\t", "%[1]s", "%v%v%v", "é%狐", "\\", "\"", ""}
			var mk func(d int) lang.Value
			mk = func(d int) lang.Value {
				switch gen.Uniform(rt, "hk", 6) {
				case 0:
					if d > 0 {
						a := lang.Array()
						for i := rapid.IntRange(0, 3).Draw(rt, "hn"); i > 0; i-- {
							a.A = append(a.A, mk(d-1))
						}
						return a
					}
				case 1:
					if d > 0 {
						h := lang.Hash()
						for i, n := 0, rapid.IntRange(0, 2).Draw(rt, "hm"); i < n; i++ {
							k := lang.Str(hostile[gen.Uniform(rt, "hkey", len(hostile))])
							switch gen.Uniform(rt, "hkeykind", 4) {
							case 0:
								k = lang.Int(rapid.SampledFrom([]int64{0, 1, -1, 404, 70000}).Draw(rt, "hkeyint"))
							case 1:
								k = lang.Float(rapid.SampledFrom([]float64{0.5, 2.5, -1.25, 1e21}).Draw(rt, "hkeyfloat"))
							}
							if _, dup := h.Lookup(k); !dup {
								h.H = append(h.H, lang.Pair{K: k, V: mk(d - 1)})
							}
						}
						return h
					}
				case 2:
					return gen.Scalar(rt, "hscalar")
				}
				return lang.Str(hostile[gen.Uniform(rt, "hs", len(hostile))])
			}
			v := mk(2)
			script = "return " + lang.ExprText(lang.ValueExpr(v)) + ";"
			if rapid.Bool().Draw(rt, "viafield") {
				doc.H = append(doc.H, lang.Pair{K: lang.Str("Hostile"), V: lang.Str(hostile[gen.Uniform(rt, "hf", len(hostile))])})
				script = "return Hostile;"
			}
			col.Class("cli-hostile-result")
		}
		if gen.Uniform(rt, "faultscript", 8) == 0 {
			// scripts that end in a run-time fault of every kind (type errors,
			// division and modulo by zero, unknown functions, panic(), runaway
			// recursion, Go run-time panics that Execute recovers)
			script = faultScripts[gen.Uniform(rt, "fault", len(faultScripts))]
			if rapid.Bool().Draw(rt, "faultlate") {
				script = pre + "function late(n) { foreach v in [1, 2] { if ( v == n ) { " + script + " } } return 0; }\nreturn late(2);"
			}
			col.Class("cli-fault-script")
		}
		if gen.Uniform(rt, "oddstart", 10) == 0 {
			// the driver passes the file's text on as it is: whatever Execute
			// makes of a byte-order mark, a no-break space, a NUL or a form feed
			// at the very start, the driver reports the same
			odd := []string{"\ufeff", "\u00a0", "\x00", "\f", "\ufeff\ufeff", "\u200b", "\xef\xbb", "#!/usr/bin/evalfilter\n"}
			script = odd[gen.Uniform(rt, "oddchar", len(odd))] + script
			col.Class("cli-odd-first-character")
		}
		withJSON := len(doc.H) > 0 || rapid.Bool().Draw(rt, "withjson")
		noOpt := rapid.Bool().Draw(rt, "noopt")
		withTimeout := rapid.Bool().Draw(rt, "timeout")
		sf := filepath.Join(dir, "script.in")
		jf := filepath.Join(dir, "doc.json")
		_ = os.WriteFile(sf, []byte(script), 0o644)
		jb, _ := json.Marshal(eng.NaturalGo(doc))
		if gen.Uniform(rt, "oddjson", 6) == 0 {
			// files that are not (only) one JSON document: what json.Unmarshal
			// refuses, the driver refuses - whatever the file begins with
			tail := rapid.SampledFrom([]string{"}", " x", "\n{\"Late\": 1}", ",", "\n\n", " ", "[]", "null", "\x00", "//c"}).Draw(rt, "jsontail")
			jb = append(jb, []byte(tail)...)
			if rapid.Bool().Draw(rt, "jsontruncate") && len(jb) > 3 {
				jb = jb[:rapid.IntRange(0, len(jb)-1).Draw(rt, "jsoncut")]
			}
			col.Class("cli-json-not-one-document")
		}
		_ = os.WriteFile(jf, jb, 0o644)
		args := []string{"run"}
		if withJSON {
			args = append(args, "-json", jf)
		}
		if noOpt {
			args = append(args, "-no-optimizer")
		}
		if withTimeout {
			args = append(args, "-timeout", "30s")
		}
		// the driver takes any number of script files: each is reported by
		// itself, in order, and what an earlier one did (variables, functions,
		// failures) is nothing to the next
		first := ""
		if gen.Uniform(rt, "twofiles", 4) == 0 {
			firsts := []string{"return 1;", script, "g0 = 99; a = 98; b = 97; function f0(a) { return 77; } function f1() { return 78; } return \"first\";",
				"return 1 +;", "return 1 / 0;", "function f(n) { return f(n + 1); } return f(0);", "DEBUG = true; OPTIMIZE = false; return 2;", "panic(\"first\");"}
			first = firsts[gen.Uniform(rt, "firstfile", len(firsts))]
			if withTimeout && gen.Uniform(rt, "firstspins", 6) == 0 {
				// the first script uses up its allowance: that is nothing to the second
				first = "while ( true ) { }"
				for i, a := range args {
					if a == "30s" {
						args[i] = "1500ms"
					}
				}
				col.Class("cli-first-file-times-out")
				if rapid.Bool().Draw(rt, "secondspins") {
					// ... and the second has an allowance of its own to use up
					script = "zs = 0;\nwhile ( true ) { zs = zs + 1; }"
					_ = os.WriteFile(sf, []byte(script), 0o644)
					col.Class("cli-both-files-time-out")
				}
			}
			ff := filepath.Join(dir, "first.in")
			_ = os.WriteFile(ff, []byte(first), 0o644)
			args = append(args, ff)
			col.Class("cli-two-script-files")
		}
		args = append(args, sf)
		payload := map[string]interface{}{"prop": "C20", "kind": "cli", "script": script, "json": string(jb), "args": strings.Join(args[:len(args)-1], " "), "first_script": first}
		o := runCLI(bin, 20*time.Second, args...)
		if why := cliCrashed(o); why != "" {
			violation(rt, "C20", payload, "evalfilter %s: %s\n%s", strings.Join(args, " "), why, clip(o.out, 800))
		}
		// in-process reference: Execute on the decoded document
		obj := map[string]interface{}{}
		jsonBad := false
		if withJSON {
			if jerr := json.Unmarshal(jb, &obj); jerr != nil {
				jsonBad = true
			}
		}
		ref := eng.NewRunner(script)
		perr, _ := ref.Prepare(noOpt)
		var want string
		if jsonBad {
			want = "Error parsing JSON"
		} else if strings.HasPrefix(script, "zs = 0;\nwhile ( true )") {
			want = "Failed to run script:" // it ends in its time allowance, by construction
		} else if perr != nil {
			want = "Error compiling:" + perr.Error() + "\n"
		} else {
			res := ref.Execute(obj)
			if res.Err != nil {
				// "or the error that Execute gives": the driver's line carries
				// Execute's own words (as long as Execute says the same thing twice)
				want = "Failed to run script:"
				if again := ref.Execute(obj); again.Err != nil && again.Err.Error() == res.Err.Error() && !isTimeout(res.Err) {
					want = "Failed to run script: " + res.Err.Error() + "\n"
					col.Class("cli-error-text-compared")
				}
			} else {
				want = fmt.Sprintf("Script gave result type:%s value:%s - which is '%t'.\n", res.Val.Type(), res.Val.Inspect(), res.Val.Truth())
			}
		}
		report := o.out
		if first != "" {
			// the report of the first file comes first; then the one under test
			fr := eng.NewRunner(first)
			fwant := "Error compiling:"
			if jsonBad {
				fwant = "Error parsing JSON" // the document is read anew for every script
			} else if first == "while ( true ) { }" {
				fwant = "Failed to run script:"
			} else if perr1, _ := fr.Prepare(noOpt); perr1 == nil {
				if r1 := fr.Execute(obj); r1.Err != nil {
					fwant = "Failed to run script:"
				} else {
					fwant = fmt.Sprintf("Script gave result type:%s value:%s - which is '%t'.\n", r1.Val.Type(), r1.Val.Inspect(), r1.Val.Truth())
				}
			}
			i := strings.Index(report, fwant)
			if i < 0 {
				violation(rt, "C20", payload, "evalfilter %s printed\n%s\nbut Execute gives %q for the first file", strings.Join(args[:len(args)-2], " "), clip(o.out, 800), clip(fwant, 400))
			}
			report = report[i+len(fwant):]
		}
		if !strings.Contains(report, want) {
			violation(rt, "C20", payload, "evalfilter %s printed\n%s\nbut Execute gives %q", strings.Join(args[:len(args)-1], " "), clip(o.out, 800), clip(want, 400))
		}
		col.Class("cli-run")
		col.Case(fmt.Sprint(script, string(jb), args[:len(args)-1]), withJSON || noOpt || withTimeout, func() interface{} { return payload })
	})
}

// stripHostCalls removes statements that call the harness host functions.
func stripHostCalls(p *lang.Program) *lang.Program {
	var strip func(ss []lang.Stmt) []lang.Stmt
	isHost := func(s lang.Stmt) bool {
		if es, ok := s.(lang.ExprStmt); ok {
			if c, ok := es.X.(lang.Call); ok && (c.Fn == "trace" || c.Fn == "id") {
				return true
			}
		}
		return false
	}
	strip = func(ss []lang.Stmt) []lang.Stmt {
		out := []lang.Stmt{}
		for _, s := range ss {
			if isHost(s) {
				out = append(out, lang.Assign{N: "t_", X: lang.Lit{V: lang.Int(1)}})
				continue
			}
			switch x := s.(type) {
			case lang.If:
				out = append(out, *stripIf(&x, strip))
			case lang.While:
				x.Body = strip(x.Body)
				out = append(out, x)
			case lang.Foreach:
				x.Body = strip(x.Body)
				out = append(out, x)
			case lang.Switch:
				cs := make([]lang.Case, len(x.Cases))
				for i, c := range x.Cases {
					c.Body = strip(c.Body)
					cs[i] = c
				}
				x.Cases = cs
				out = append(out, x)
			case lang.FuncDef:
				x.Body = strip(x.Body)
				out = append(out, x)
			default:
				out = append(out, s)
			}
		}
		return out
	}
	return &lang.Program{Stmts: strip(p.Stmts)}
}

func stripIf(x *lang.If, strip func([]lang.Stmt) []lang.Stmt) *lang.If {
	n := lang.If{C: x.C, Then: strip(x.Then)}
	if x.Else != nil {
		n.Else = strip(x.Else)
	}
	if x.ElseIf != nil {
		n.ElseIf = stripIf(x.ElseIf, strip)
	}
	return &n
}

func TestC20CLIRobust(t *testing.T) {
	defer silenceAs("clirobust")()
	col := evid.New("C20", "clirobust", "")
	bin := cliPath(t)
	dir, err := os.MkdirTemp(os.Getenv("VERIF_OUT"), "clir")
	if err != nil {
		t.Fatalf("INFRA: %v", err)
	}
	defer os.RemoveAll(dir)
	// an endless script stops at the time-out
	sf := filepath.Join(dir, "loop.in")
	for i, body := range []string{"while (1) { }", "function f() { while (true) { n = 1; } } f();", "foreach x in 1..3 { while (1 == 1) { } }"} {
		_ = os.WriteFile(sf, []byte(body), 0o644)
		for _, extra := range [][]string{{}, {"-no-optimizer"}} {
			args := append(append([]string{"run", "-timeout", "100ms"}, extra...), sf)
			o := runCLI(bin, 10*time.Second, args...)
			payload := map[string]interface{}{"prop": "C20", "kind": "cli-timeout", "script": body, "args": strings.Join(args, " ")}
			if why := cliCrashed(o); why != "" {
				violation(t, "C20", payload, "%s: %s\n%s", strings.Join(args, " "), why, clip(o.out, 600))
			}
			if o.elapsed > 3*time.Second {
				violation(t, "C20", payload, "-timeout 100ms took %v to stop an endless script", o.elapsed)
			}
			if !strings.Contains(o.out, "Failed to run script:") {
				violation(t, "C20", payload, "an endless script under -timeout printed %q", clip(o.out, 300))
			}
			col.Case(fmt.Sprint(i, extra), true, func() interface{} { return payload })
		}
	}
	hostile := []string{"", "\x00", "\"", "return", "if (", "{", "}}}}", "function f(", "return 1", "a = ;", "switch (a) {", "1 / 0;", "return 1 / 0;", "x = [1,2][5]; return x.y;",
		"\xff\xfe\x00abc", "foreach x in 5 { }", "return f();", "function f() { return f(); } return 1;", "panic(\"boom\");", "return Name;", "return Nested.Deep.Deeper;", "print(Name, \"\\n\"); return len(Name);"}
	rapidCheck(t, col, func(rt *rapid.T) {
		var script string
		switch gen.Uniform(rt, "skind", 3) {
		case 0:
			script = string(rapid.SliceOfN(rapid.Byte(), 0, 60).Draw(rt, "bytes"))
		case 1:
			script = rapid.SampledFrom(hostile).Draw(rt, "hostile")
		default:
			toks := drawTokens(rt, rapid.IntRange(1, 12).Draw(rt, "ntok"))
			script, _ = render(rt, toks, false)
		}
		var doc string
		switch gen.Uniform(rt, "jkind", 4) {
		case 0:
			doc = string(rapid.SliceOfN(rapid.Byte(), 0, 30).Draw(rt, "jbytes"))
		case 1:
			doc = rapid.SampledFrom([]string{"", "null", "[]", "[1,2]", "5", "\"s\"", "{", "{\"Name\": }", "{\"Name\": null}", "{\"Name\": [null, [1], {\"a\": null}]}",
				"{\"Name\": {\"Deep\": {\"Deeper\": [1,2,{}]}}, \"Nested\": {\"Deep\": {\"Deeper\": 1e400}}}", "{\"Name\": 1e400}", "{\"\": 1, \" \": 2}", "{\"Name\": 12345678901234567890}"}).Draw(rt, "jdoc")
		default:
			v := gen.HashValue(rt, "jv", gen.ValueOpts{Depth: 2, FieldSafe: true})
			b, _ := json.Marshal(eng.NaturalGo(v))
			doc = string(b)
		}
		sfile := filepath.Join(dir, "s.in")
		jfile := filepath.Join(dir, "d.json")
		_ = os.WriteFile(sfile, []byte(script), 0o644)
		_ = os.WriteFile(jfile, []byte(doc), 0o644)
		sub := rapid.SampledFrom([]string{"lex", "parse", "bytecode", "run", "run-json"}).Draw(rt, "sub")
		var args []string
		switch sub {
		case "run-json":
			args = []string{"run", "-timeout", "2s", "-json", jfile}
		case "run":
			args = []string{"run", "-timeout", "2s"}
		case "bytecode":
			args = []string{"bytecode"}
		default:
			args = []string{sub}
		}
		if (sub == "run" || sub == "run-json" || sub == "bytecode") && rapid.Bool().Draw(rt, "noopt") {
			args = append(args, "-no-optimizer")
		}
		args = append(args, sfile)
		o := runCLI(bin, 10*time.Second, args...)
		payload := map[string]interface{}{"prop": "C20", "kind": "cli-robust", "script": script, "json": doc, "args": strings.Join(args[:len(args)-1], " ")}
		if why := cliCrashed(o); why != "" {
			violation(rt, "C20", payload, "evalfilter %s: %s\n%s", strings.Join(args[:len(args)-1], " "), why, clip(o.out, 800))
		}
		col.Class("sub:" + sub)
		col.Case(fmt.Sprint(script, doc, args[:len(args)-1]), len(script) >= 2, func() interface{} {
			return map[string]string{"args": strings.Join(args[:len(args)-1], " "), "script": fmt.Sprintf("%q", script), "json": fmt.Sprintf("%q", doc)}
		})
	})
}

// TestC20RunExecuteObjects: Run and Execute agree on objects with fields of
// every kind, including kinds the engine cannot represent.
func TestC20RunExecuteObjects(t *testing.T) {
	defer silenceAs("runexecobjects")()
	col := evid.New("C20", "runexecobjects", "")
	rapidCheck(t, col, func(rt *rapid.T) {
		o, _ := drawObject(rt, true)
		f := rapid.SampledFrom(fieldNames).Draw(rt, "field")
		script := rapid.SampledFrom([]string{"return %s;", "if (%s) { return %s; } return false;", "return [%s];", "x = %s; return x;"}).Draw(rt, "form")
		script = strings.ReplaceAll(script, "%s", f)
		payload := &ObjSeqCase{Prop: "C20", Kind: "run-vs-execute-object", Script: script, Runs: []ObjRun{{Obj: o}}}
		a, err1 := prepared(script, nil, false)
		b, err2 := prepared(script, nil, false)
		if err1 != nil || err2 != nil {
			rt.Fatalf("harness: %v %v", err1, err2)
		}
		obj, berr := o.Build()
		if berr != nil {
			rt.Fatalf("%v", berr)
		}
		res := a.Execute(obj)
		var verdict bool
		var rerr error
		var pan interface{}
		func() {
			defer func() { pan = recover() }()
			verdict, rerr = b.E.Run(obj)
		}()
		switch {
		case pan != nil:
			violation(rt, "C20", payload, "Run panicked: %v", pan)
		case res.Panic != nil:
			violation(rt, "C20", payload, "Execute panicked: %v", res.Panic)
		case res.NilObject:
			violation(rt, "C20", payload, "Execute returned neither a value nor an error")
		case (res.Err == nil) != (rerr == nil):
			violation(rt, "C20", payload, "Execute err=%v but Run err=%v", res.Err, rerr)
		case res.Err == nil && verdict != res.Val.Truth():
			violation(rt, "C20", payload, "Execute returned %s (truth %v) but Run returned %v", res.Val.Describe(), res.Val.Truth(), verdict)
		}
		col.Case(fmt.Sprint(script, o), true, func() interface{} {
			return map[string]interface{}{"script": script, "object_mode": o.Mode, "fields": len(o.Fields)}
		})
	})
}

func init() {
	replayers["C20/run-vs-execute-object"] = func(raw []byte) error {
		var c ObjSeqCase
		if err := json.Unmarshal(raw, &c); err != nil {
			return err
		}
		c.Runs[0].Obj.Fix()
		obj, err := c.Runs[0].Obj.Build()
		if err != nil {
			return err
		}
		a, _ := prepared(c.Script, nil, false)
		b, _ := prepared(c.Script, nil, false)
		res := a.Execute(obj)
		var pan interface{}
		var rerr error
		func() {
			defer func() { pan = recover() }()
			_, rerr = b.E.Run(obj)
		}()
		if pan != nil || res.Panic != nil || res.NilObject {
			return fmt.Errorf("Run panic=%v Execute panic=%v nil object=%v", pan, res.Panic, res.NilObject)
		}
		if (res.Err == nil) != (rerr == nil) {
			return fmt.Errorf("Execute err=%v but Run err=%v", res.Err, rerr)
		}
		return nil
	}
}

// ---- 6. orders of SetVariable / AddFunction / Prepare / Run / GetVariable ----

// ApiStep is one API call of a generated call order.
type ApiStep struct {
	Op   string     `json:"op"` // addfn | setvar | prepare | run | getvar
	Name string     `json:"name,omitempty"`
	V    lang.Value `json:"v"`
}

// ApiCase is a script with a generated order of API calls.
type ApiCase struct {
	Prop   string    `json:"prop"`
	Kind   string    `json:"kind"`
	Script string    `json:"script"`
	NoOpt  bool      `json:"noopt"`
	Steps  []ApiStep `json:"steps"`
	Msg    string    `json:"message,omitempty"`
}

const apiScript = `calls = calls + 1; a = hf(calls); b = other(); seenv = v; return [a, b, v, w];`

// the same without a final return: the run ends by falling off the end
const apiScriptNoReturn = `calls = calls + 1; a = hf(calls); b = other(); seenv = v;`

// runApiCase runs the steps under a watchdog: an API call that never comes
// back (a lock left locked on an error path, say) is a violation, not a reason
// to wait.
func runApiCase(c *ApiCase) error {
	done := make(chan error, 1)
	go func() {
		defer func() {
			if p := recover(); p != nil {
				done <- fmt.Errorf("panic: %v", p)
			}
		}()
		done <- runApiSteps(c)
	}()
	select {
	case err := <-done:
		return err
	case <-time.After(120 * time.Second):
		return fmt.Errorf("the API calls of this history had not returned after 120 s: a call is blocked")
	}
}

func runApiSteps(c *ApiCase) error {
	r := eng.NewRunner(c.Script)
	// model of the host-side bindings
	fnVal := map[string]lang.Value{}
	vars := map[string]lang.Value{"calls": lang.Int(0)}
	r.E.SetVariable("calls", eng.ToObject(lang.Int(0)))
	prepared := false
	add := func(name string, v lang.Value) {
		val := v
		r.E.AddFunction(name, func(args []object.Object) object.Object { return eng.ToObject(val) })
		fnVal[name] = val
	}
	get := func(name string) lang.Value {
		if v, ok := vars[name]; ok {
			return v
		}
		return lang.Null()
	}
	for i, s := range c.Steps {
		switch s.Op {
		case "addfn":
			add(s.Name, s.V)
		case "setvar":
			r.E.SetVariable(s.Name, eng.ToObject(s.V))
			vars[s.Name] = s.V
		case "prepare":
			if err, pan := r.Prepare(c.NoOpt); err != nil || pan != nil {
				return fmt.Errorf("step %d: Prepare failed: %v %v", i, err, pan)
			}
			prepared = true
		case "getvar":
			got, gerr := eng.FromObject(r.E.GetVariable(s.Name))
			if gerr != nil || !lang.DeepEqual(got, get(s.Name)) {
				return fmt.Errorf("step %d: GetVariable(%s) = %s, expected %s", i, s.Name, got.Describe(), get(s.Name).Describe())
			}
		case "run":
			if !prepared {
				// nothing has been compiled: whatever Execute does, Run "fails
				// exactly when it does"
				res := r.Execute(nil)
				var rerr error
				var pan interface{}
				func() {
					defer func() { pan = recover() }()
					_, rerr = r.E.Run(nil)
				}()
				if res.Panic != nil || pan != nil {
					return fmt.Errorf("step %d: a run before Prepare panicked into the caller: Execute %v, Run %v", i, res.Panic, pan)
				}
				if (res.Err == nil) != (rerr == nil) {
					return fmt.Errorf("step %d: before Prepare, Execute err=%v but Run err=%v", i, res.Err, rerr)
				}
				if res.Err == nil {
					return nil // both front ends prepare by themselves: the bookkeeping below does not apply
				}
				continue
			}
			res := r.Execute(nil)
			if res.Panic != nil {
				return fmt.Errorf("step %d: panic: %v", i, res.Panic)
			}
			_, okA := fnVal["hf"]
			_, okB := fnVal["other"]
			// the script: calls = calls + 1 happens before the first call
			if c, ok := vars["calls"]; ok && c.K == lang.KInt {
				vars["calls"] = lang.Int(c.I + 1)
			} else {
				// calls was overwritten with a non-number: the script fails at once
				if res.Err == nil {
					return fmt.Errorf("step %d: expected a run-time error (calls is %s)", i, get("calls").Describe())
				}
				continue
			}
			if !okA || !okB {
				if res.Err == nil {
					return fmt.Errorf("step %d: a call of a function that was never added returned %s", i, res.Val.Describe())
				}
				if okA {
					vars["a"] = fnVal["hf"]
				}
				continue
			}
			if res.Err != nil {
				return fmt.Errorf("step %d: unexpected error: %v", i, res.Err)
			}
			want := lang.Array(fnVal["hf"], fnVal["other"], get("v"), get("w"))
			if c.Script == apiScriptNoReturn {
				// nothing is returned; the variables are checked by later getvar steps
			} else if !lang.DeepEqual(res.Val, want) {
				return fmt.Errorf("step %d: the script returned %s; with the functions and variables given last it must return %s", i, res.Val.Describe(), want.Describe())
			}
			vars["a"], vars["b"], vars["seenv"] = fnVal["hf"], fnVal["other"], get("v")
		}
	}
	return nil
}

func init() {
	replayers["C20/api-order"] = func(raw []byte) error {
		var c ApiCase
		if err := json.Unmarshal(raw, &c); err != nil {
			return err
		}
		for i := range c.Steps {
			c.Steps[i].V.Fix()
		}
		return runApiCase(&c)
	}
}

func TestC20ApiOrders(t *testing.T) {
	defer silenceAs("apiorders")()
	col := evid.New("C20", "apiorders", "")
	rapidCheck(t, col, func(rt *rapid.T) {
		c := &ApiCase{Prop: "C20", Kind: "api-order", Script: apiScript, NoOpt: rapid.Bool().Draw(rt, "noopt")}
		if gen.Uniform(rt, "noreturn", 3) == 0 {
			c.Script = apiScriptNoReturn
		}
		n := rapid.IntRange(3, 16).Draw(rt, "nsteps")
		preparedAt := rapid.IntRange(0, n-1).Draw(rt, "prepareat")
		again := -1
		if rapid.Bool().Draw(rt, "prepareagain") {
			again = rapid.IntRange(preparedAt, n-1).Draw(rt, "againat")
			col.Class("prepared-more-than-once")
		}
		reAdded := false
		for i := 0; i < n; i++ {
			if i == preparedAt || i == again {
				c.Steps = append(c.Steps, ApiStep{Op: "prepare"})
			}
			switch gen.Uniform(rt, "op", 8) {
			case 0, 1:
				name := rapid.SampledFrom([]string{"hf", "hf", "other"}).Draw(rt, "fname")
				c.Steps = append(c.Steps, ApiStep{Op: "addfn", Name: name, V: gen.Scalar(rt, "fval", lang.KInt, lang.KString, lang.KBool, lang.KFloat)})
				if i > preparedAt {
					reAdded = true
				}
			case 2:
				c.Steps = append(c.Steps, ApiStep{Op: "setvar", Name: rapid.SampledFrom([]string{"v", "w", "v", "calls"}).Draw(rt, "vname"), V: gen.Scalar(rt, "vval", lang.KInt, lang.KString, lang.KBool, lang.KNull)})
			case 3:
				c.Steps = append(c.Steps, ApiStep{Op: "getvar", Name: rapid.SampledFrom([]string{"v", "w", "a", "b", "seenv", "calls", "nope"}).Draw(rt, "gname")})
			default:
				c.Steps = append(c.Steps, ApiStep{Op: "run"})
			}
		}
		if err := runApiCase(c); err != nil {
			c.Msg = err.Error()
			violation(rt, "C20", c, "%v", err)
		}
		if reAdded {
			col.Class("function-replaced-after-prepare")
		}
		cc := c
		col.Case(fmt.Sprint(c.Steps, c.NoOpt), true, func() interface{} {
			var steps []string
			for _, s := range cc.Steps {
				switch s.Op {
				case "addfn", "setvar":
					steps = append(steps, fmt.Sprintf("%s(%s, %s)", s.Op, s.Name, s.V.Describe()))
				case "getvar":
					steps = append(steps, "getvar("+s.Name+")")
				default:
					steps = append(steps, s.Op)
				}
			}
			return map[string]interface{}{"script": cc.Script, "calls": steps}
		})
	})
}
