package props

import (
	"fmt"
	"math"
	"sort"
	"strings"
	"testing"
	"unicode/utf8"

	"pgregory.net/rapid"

	"verif/harness/eng"
	"verif/harness/evid"
	"verif/harness/gen"
	"verif/harness/lang"
)

// C16 — arrays, hashes, strings and ranges behave as ordered, total containers.

func drawContainer(rt *rapid.T) lang.Value {
	switch gen.Uniform(rt, "ckind", 4) {
	case 0:
		n := rapid.IntRange(0, 8).Draw(rt, "alen")
		out := lang.Array()
		for i := 0; i < n; i++ {
			out.A = append(out.A, gen.Value(rt, "el", gen.ValueOpts{Depth: 1, NoKeyTies: true}))
		}
		return out
	case 1:
		rs := rapid.SliceOfN(rapid.SampledFrom([]rune("abcAB 09é狐犬ß😀\n\ufffd\r")), 0, 7).Draw(rt, "runes")
		if gen.Uniform(rt, "latin1", 6) == 0 {
			// host text that is not valid UTF-8 (Latin-1, stray bytes): every
			// invalid byte is one character (it can only come from the host)
			bs := rapid.SliceOfN(rapid.SampledFrom([]string{"a", "b", "\xe9", "\xff", "\xc3", "é", "狐", "\x80"}), 1, 6).Draw(rt, "bytes")
			return lang.Str(strings.Join(bs, ""))
		}
		return lang.Str(string(rs))
	case 2:
		n := rapid.IntRange(0, 5).Draw(rt, "hlen")
		out := lang.Hash()
		seen := map[string]bool{}
		for i := 0; i < n; i++ {
			k := gen.HashKey(rt, "hk")
			if seen[k.Inspect()] {
				continue // ties are the subject of TestC16Ties
			}
			seen[k.Inspect()] = true
			out.H = append(out.H, lang.Pair{K: k, V: gen.Value(rt, "hv", gen.ValueOpts{Depth: 1, NoKeyTies: true})})
		}
		return out
	}
	// a range, spelled as lo..hi
	return lang.Null()
}

func TestC16(t *testing.T) {
	defer silenceAs("containers")()
	col := evid.New("C16", "containers", "generated containers (arrays 0-8 mixed/nested elements, strings with 1-4-byte runes, hashes with int/float/string keys, ranges incl. a..a, negative and reversed bounds) as literals, assigned variables, SetVariable values or host fields; accesses: every index from -3 to len+3 and non-integer indexes, '.' on hashes, 'in' for present and absent elements of every type, len, keys, foreach with and without index (observed through trace()); oracle: reference interpreter (ordered, total containers); hashes whose keys print alike are checked by a validity predicate (each entry once, keys non-decreasing, lookups by type) in part 'ties'; non-trivial = container length >= 2 and the access is at a boundary (-1, 0, len-1, len, len+1), iterates, or involves multi-byte text; distinct by script + inputs")
	replayKnown(t, col, "C16")
	rapidCheck(t, col, func(rt *rapid.T) {
		c := &Case{Prop: "C16", Kind: "container", Vars: map[string]lang.Value{}, Obj: &eng.ObjSpec{Mode: rapid.SampledFrom([]string{"map", "struct", "ptr"}).Draw(rt, "mode")}}
		c.NoOpt = rapid.Bool().Draw(rt, "noopt")
		prelude := ""
		decoy := ""
		v := drawContainer(rt)
		var ce lang.Expr
		var clen int
		isRange := v.K == lang.KNull
		m := lang.NewMachine()
		eng.ModelHost(m)
		if isRange {
			lo := rapid.Int64Range(-4, 6).Draw(rt, "lo")
			span := rapid.Int64Range(-2, 7).Draw(rt, "span")
			if gen.Uniform(rt, "farrange", 4) == 0 {
				// ranges far from zero: at the ends of the integers and around the
				// powers of two where narrower integers and floats give up
				ends := []int64{math.MaxInt64, math.MaxInt64 - 1, math.MaxInt64 - 5, math.MinInt64 + 1, math.MinInt64 + 8, 1 << 31, -(1 << 31), 1 << 32, 1 << 53, -(1 << 53), 65535, 1 << 62}
				e := ends[gen.Uniform(rt, "rangeend", len(ends))]
				if e > 0 {
					if span < 0 {
						span = 0
					}
					lo = e - span // the range ends at e
				} else {
					lo = e
					if span > 6 {
						span = 6
					}
					if span < 0 {
						span = 0
					}
				}
				col.Class("range-far-from-zero")
			}
			hi := lo + span
			if hi == math.MinInt64 {
				hi = lo // the smallest integer has no literal
			}
			ce = lang.Binary{Op: "..", L: lang.Lit{V: lang.Int(lo)}, R: lang.Lit{V: lang.Int(hi)}}
			if hi >= lo {
				clen = int(hi-lo) + 1
			}
			if rapid.Bool().Draw(rt, "rangevar") {
				prelude = "R = " + lang.ExprText(ce) + ";\n"
				ce = lang.Name{N: "R"}
			}
			if gen.Uniform(rt, "rangedecoy", 3) == 0 && lo > math.MinInt64+4 && hi >= lo {
				// another range first, with one bound in common: every range is its own
				dlo, dhi := lo-2, hi
				if rapid.Bool().Draw(rt, "decoyupper") && hi < math.MaxInt64-2 {
					dlo, dhi = lo, hi+2
				}
				decoy = "Decoy = " + lang.ExprText(lang.Binary{Op: "..", L: lang.Lit{V: lang.Int(dlo)}, R: lang.Lit{V: lang.Int(dhi)}}) + ";\n"
				col.Class("range-after-a-range-sharing-a-bound")
			}
		} else {
			prov := rapid.IntRange(0, 3).Draw(rt, "prov")
			var from string
			ce, from = operandExpr(c, &prelude, "K", v, prov)
			switch from {
			case "field":
				m.Fields["FK"] = v
			case "setvariable":
				m.Globals["K"] = v
			}
			switch v.K {
			case lang.KArray:
				clen = len(v.A)
			case lang.KHash:
				clen = len(v.H)
			case lang.KString:
				clen = len([]rune(v.S))
			}
			col.Class("provenance:" + from)
		}
		if c.Obj.Mode != "map" && !c.Obj.StructOK() {
			c.Obj.Mode = "map"
		}
		boundary := false
		var body []lang.Stmt
		access := rapid.SampledFrom([]string{"index", "index", "index", "badindex", "in", "in", "len", "foreach", "foreach2", "keys", "dot", "string", "agree"}).Draw(rt, "access")
		if v.K == lang.KString && !utf8.ValidString(v.S) {
			// what the characters of such a text are is not laid down; that
			// indexing, iteration and len speak of the same characters is
			access = "agree"
		}
		switch access {
		case "index":
			i := rapid.Int64Range(-3, int64(clen)+3).Draw(rt, "idx")
			boundary = i == -1 || i == 0 || i == int64(clen)-1 || i == int64(clen) || i == int64(clen)+1
			var ie lang.Expr = lang.Lit{V: lang.Int(i)}
			if v.K == lang.KHash && len(v.H) > 0 && rapid.Bool().Draw(rt, "usekey") {
				ie = lang.ValueExpr(rapid.SampledFrom(v.H).Draw(rt, "key").K)
				boundary = true
			} else if v.K == lang.KHash {
				ie = lang.ValueExpr(gen.HashKey(rt, "probe"))
			}
			body = []lang.Stmt{lang.Return{X: lang.Index{X: ce, I: ie}}}
		case "badindex":
			ie := lang.ValueExpr(gen.Scalar(rt, "badidx", lang.KFloat, lang.KString, lang.KBool, lang.KNull))
			body = []lang.Stmt{lang.Return{X: lang.Index{X: ce, I: ie}}}
		case "dot":
			body = []lang.Stmt{lang.Return{X: lang.Dot{X: ce, N: rapid.SampledFrom([]string{"a", "b", "Name", "k1", "zz"}).Draw(rt, "dotname")}}}
		case "in":
			var el lang.Value
			switch {
			case v.K == lang.KArray && gen.Uniform(rt, "oddfloats", 6) == 0:
				// membership is by type and printed form: not-a-number is found
				// where it is, minus zero is not zero; such numbers come from the host
				odd := []float64{math.NaN(), math.Copysign(0, -1), 0, math.Inf(1), math.Inf(-1), 5e-324}
				arr := lang.Array(lang.Int(0), lang.Str("NaN"), lang.Str("-0"))
				for _, f := range odd {
					if rapid.Bool().Draw(rt, "oddmember") {
						arr.A = append(arr.A, lang.Float(f))
					}
				}
				c.Vars["OddArr"] = arr
				m.Globals["OddArr"] = arr
				needle := lang.Float(odd[gen.Uniform(rt, "oddneedle", len(odd))])
				c.Vars["OddNeedle"] = needle
				m.Globals["OddNeedle"] = needle
				body = []lang.Stmt{lang.Return{X: lang.Binary{Op: "in", L: lang.Name{N: "OddNeedle"}, R: lang.Name{N: "OddArr"}}}}
				boundary = true
				col.Class("in-with-NaN-zeros-infinities-from-the-host")
			case v.K == lang.KArray && len(v.A) > 0 && rapid.Bool().Draw(rt, "present"):
				el = rapid.SampledFrom(v.A).Draw(rt, "el")
				boundary = true
			case v.K == lang.KString && rapid.Bool().Draw(rt, "substr"):
				rs := []rune(v.S)
				a := rapid.IntRange(0, len(rs)).Draw(rt, "sa")
				b := rapid.IntRange(a, len(rs)).Draw(rt, "sb")
				el = lang.Str(string(rs[a:b]))
				boundary = true
			default:
				el = gen.Value(rt, "absent", gen.ValueOpts{Depth: 1, NoKeyTies: true})
			}
			if body == nil {
				if !gen.LiteralOK(el) {
					el = lang.Int(1)
				}
				body = []lang.Stmt{lang.Return{X: lang.Binary{Op: "in", L: lang.ValueExpr(el), R: ce}}}
			}
		case "len":
			body = []lang.Stmt{lang.Return{X: lang.Call{Fn: "len", Args: []lang.Expr{ce}}}}
			boundary = true
		case "keys":
			body = []lang.Stmt{lang.Return{X: lang.Call{Fn: "keys", Args: []lang.Expr{ce}}}}
			boundary = true
		case "string":
			body = []lang.Stmt{lang.Return{X: lang.Call{Fn: "string", Args: []lang.Expr{ce}}}}
		case "agree":
			// indexing, iteration and len agree on what the entries are
			boundary = true
		case "foreach":
			body = []lang.Stmt{lang.Foreach{Var: "v", Iter: ce, Body: []lang.Stmt{lang.ExprStmt{X: lang.Call{Fn: "trace", Args: []lang.Expr{lang.Name{N: "v"}}}}}},
				lang.Return{X: lang.Lit{V: lang.Str("done")}}}
			boundary = true
		case "foreach2":
			body = []lang.Stmt{lang.Foreach{Idx: "i", Var: "v", Iter: ce, Body: []lang.Stmt{lang.ExprStmt{X: lang.Call{Fn: "trace", Args: []lang.Expr{lang.Name{N: "i"}, lang.Name{N: "v"}}}}}},
				lang.Return{X: lang.Lit{V: lang.Str("done")}}}
			boundary = true
		}
		prog := &lang.Program{Stmts: body}
		if !isRange && v.K != lang.KString && rapid.Bool().Draw(rt, "decoy") {
			// a second literal earlier in the script that prints like the
			// container but whose elements have other types
			if d := printAlike(v); gen.LiteralOK(d) {
				prelude = "D = " + lang.ExprText(lang.ValueExpr(d)) + ";\n" + prelude
				col.Class("with-print-alike-decoy")
			}
		}
		if nm, named := ce.(lang.Name); named && gen.Uniform(rt, "used", 3) == 0 {
			// the container has been used before: handed to built-ins, searched,
			// walked completely or partly by the script or by the host. None of
			// that changes it.
			x := nm.N
			uses := []string{"u0 = reverse(" + x + ");", "u0 = sort(" + x + ", true);", "u0 = join(" + x + ", \",\");", "u0 = [len(" + x + "), string(" + x + "), keys(" + x + ")];",
				"u0 = [" + x + "[0], " + x + "[1]];", "foreach uq in " + x + " { u0 = uq; }", "foreach ui, uq in " + x + " { foreach uj, ur in " + x + " { u0 = ur; } }",
				"function upeek(c) { foreach uq in c { return uq; } return null; }\nu0 = upeek(" + x + ");", "function upeek2(c) { un = 0; foreach ui, uq in c { un = un + 1; if ( un >= 2 ) { return uq; } } return null; }\nu0 = upeek2(" + x + ");",
				"u0 = walk(" + x + ", -1);", "u0 = walk(" + x + ", 1);", "u0 = walk(" + x + ", 2);", "u0 = [lower(" + x + "), upper(" + x + "), trim(" + x + "), type(" + x + ")];", "u0 = " + x + "; u1 = [u0, u0];"}
			if v.K == lang.KArray {
				uses = append(uses, "u0 = [1 in "+x+", \"a\" in "+x+", [] in "+x+"];")
			}
			nuse := rapid.IntRange(1, 2).Draw(rt, "nuse")
			used := ""
			for i := 0; i < nuse; i++ {
				used += uses[gen.Uniform(rt, "use", len(uses))] + "\n"
			}
			prelude += used
			col.Class("container-used-before")
		}
		c.Script = prelude + lang.ProgramText(prog)
		// the prelude assignments are part of the script: tell the model
		if strings.Contains(prelude, "K = ") {
			m.Globals["K"] = v
		}
		if strings.Contains(prelude, "R = ") {
			if rv, err := m.Eval(lang.Binary{Op: "..", L: ceRangeLo(prelude), R: ceRangeHi(prelude)}); err == nil {
				m.Globals["R"] = rv
			} else {
				// reversed range: assigning it is already the error
				c.Exp = Expect{Err: true, Why: err.Error()}
				if e := runCase(c); e != nil {
					violation(rt, "C16", c, "%v", e)
				}
				return
			}
		}
		c.Exp = expectFromModel(m, prog)
		c.Exp.CheckTrace = true
		if access == "agree" {
			x := lang.ExprText(ce)
			if isRange {
				x = "(" + x + ")"
			}
			switch {
			case v.K == lang.KHash:
				c.Script = prelude + "n = 0;\nforeach k, e in " + x + " { if ( string(e) != string(" + x + "[k]) ) { return [\"differs\", k, e, " + x + "[k]]; } n = n + 1; }\nreturn n == len(" + x + ") && n == len(keys(" + x + "));"
			default:
				c.Script = prelude + "n = 0;\nforeach i, e in " + x + " { if ( i != n || string(e) != string(" + x + "[i]) || type(e) != type(" + x + "[i]) ) { return [\"differs\", i, e, " + x + "[i]]; } n = n + 1; }\nreturn n == len(" + x + ") && type(" + x + "[n]) == \"null\";"
			}
			c.Exp = Expect{Val: lang.Bool(true)}
			if isRange && clen == 0 {
				c.Exp = Expect{Err: true, Why: "reversed range"}
			}
		}
		c.Script = decoy + c.Script
		if e := runCase(c); e != nil {
			violation(rt, "C16", c, "%v", e)
		}
		multibyte := v.K == lang.KString && len(v.S) != len([]rune(v.S))
		col.Class("access:" + access)
		col.Class("container:" + map[bool]string{true: "RANGE", false: v.Type()}[isRange])
		if c.Exp.Unspec {
			col.Excluded("unspecified: " + clip(c.Exp.Why, 50))
		}
		cc := c
		col.Case(fmt.Sprint(c.Script, c.Vars, c.Obj, c.NoOpt), !c.Exp.Unspec && ((clen >= 2 && boundary) || multibyte), func() interface{} { return sampleOf(cc) })
	})
}

// printAlike maps integers to floats, integral floats to integers and
// numeric strings to numbers, recursively: the result prints as v does.
func printAlike(v lang.Value) lang.Value {
	switch v.K {
	case lang.KInt:
		if v.I > -(1<<40) && v.I < 1<<40 {
			return lang.Float(float64(v.I))
		}
	case lang.KFloat:
		if v.F == float64(int64(v.F)) && v.F > -1e12 && v.F < 1e12 {
			return lang.Int(int64(v.F))
		}
	case lang.KArray:
		out := lang.Array()
		for _, e := range v.A {
			out.A = append(out.A, printAlike(e))
		}
		return out
	case lang.KHash:
		out := lang.Hash()
		for _, p := range v.H {
			out.H = append(out.H, lang.Pair{K: p.K, V: printAlike(p.V)})
		}
		return out
	}
	return v
}

// helpers to re-read the range bounds from "R = lo .. hi;"
func ceRangeLo(prelude string) lang.Expr {
	var lo, hi int64
	s := strings.NewReplacer("(", "", ")", "").Replace(prelude)
	fmt.Sscanf(s, "R = %d .. %d;", &lo, &hi)
	return lang.Lit{V: lang.Int(lo)}
}
func ceRangeHi(prelude string) lang.Expr {
	var lo, hi int64
	s := strings.NewReplacer("(", "", ")", "").Replace(prelude)
	fmt.Sscanf(s, "R = %d .. %d;", &lo, &hi)
	return lang.Lit{V: lang.Int(hi)}
}

// TestC16Ties: hashes with keys of different types whose printed forms coincide.
func TestC16Ties(t *testing.T) {
	defer silenceAs("ties")()
	col := evid.New("C16", "ties", "")
	rapidCheck(t, col, func(rt *rapid.T) {
		// keys drawn from groups that print alike
		groups := [][]lang.Value{
			{lang.Int(1), lang.Float(1), lang.Str("1")},
			{lang.Int(2), lang.Str("2")},
			{lang.Float(2.5), lang.Str("2.5")},
			{lang.Int(-1), lang.Str("-1"), lang.Float(-1)},
			{lang.Str("a")}, {lang.Str("b")}, {lang.Int(10)},
		}
		h := lang.Hash()
		for gi, g := range groups {
			for ki, k := range g {
				if rapid.Bool().Draw(rt, fmt.Sprintf("k%d_%d", gi, ki)) {
					h.H = append(h.H, lang.Pair{K: k, V: lang.Str(fmt.Sprintf("v%d_%d", gi, ki))})
				}
			}
		}
		// written order is shuffled
		perm := rapid.Permutation(h.H).Draw(rt, "order")
		h.H = perm
		lit := lang.ExprText(lang.ValueExpr(h))
		script := "H = " + lit + ";\nforeach k, v in H { trace(k, v); }\nforeach w in H { trace(w); }\n" +
			"trace(keys(H));\nprobe = [];\n"
		// look every key up
		var look []string
		for _, p := range h.H {
			look = append(look, "H["+lang.ExprText(lang.ValueExpr(p.K))+"]")
		}
		script += "return [len(H), [" + strings.Join(look, ", ") + "]];"
		c := &Case{Prop: "C16", Kind: "ties", Script: script, NoOpt: rapid.Bool().Draw(rt, "noopt")}
		if err := checkTies(c, h); err != nil {
			violation(rt, "C16", c, "%v", err)
		}
		cc := c
		col.Case(script, h.HasKeyTies(), func() interface{} { return map[string]interface{}{"script": cc.Script} })
	})
}

func checkTies(c *Case, h lang.Value) error {
	res := eng.Quick(c.Script, map[string]interface{}{}, nil, c.NoOpt)
	if res.Panic != nil || res.PrepareErr != nil || res.Err != nil {
		return fmt.Errorf("unexpected failure: panic=%v prepare=%v run=%v", res.Panic, res.PrepareErr, res.Err)
	}
	n := len(h.H)
	// result: [len, [values in lookup order]]
	want := lang.Array(lang.Int(int64(n)), lang.Array())
	for _, p := range h.H {
		want.A[1].A = append(want.A[1].A, p.V)
	}
	if !lang.DeepEqual(res.Val, want) {
		return fmt.Errorf("len/lookups: expected %s, got %s", want.Describe(), res.Val.Describe())
	}
	if len(res.Trace) != 2*n+1 {
		return fmt.Errorf("expected %d visits + %d visits + 1, got %d host calls: %v", n, n, len(res.Trace), res.Trace)
	}
	// first n: trace(KTYPE:k,STRING:v) each entry exactly once, keys non-decreasing
	seen := map[string]int{}
	prev := ""
	for i := 0; i < n; i++ {
		seen[res.Trace[i]]++
		// extract printed key
		inner := strings.TrimSuffix(strings.TrimPrefix(res.Trace[i], "trace("), ")")
		kpart := strings.SplitN(inner, ",", 2)[0]
		kprint := strings.SplitN(kpart, ":", 2)[1]
		if i > 0 && kprint < prev {
			return fmt.Errorf("iteration is not in sorted key order: %v", res.Trace[:n])
		}
		prev = kprint
	}
	for _, p := range h.H {
		e := "trace(" + p.K.Type() + ":" + p.K.Inspect() + "," + p.V.Type() + ":" + p.V.Inspect() + ")"
		if seen[e] != 1 {
			return fmt.Errorf("entry %s visited %d times: %v", e, seen[e], res.Trace[:n])
		}
	}
	// keys(H) lists every key exactly once, in non-decreasing printed order
	// (the relative order of keys that print alike is not this property's business)
	var pairs []string
	for _, p := range h.H {
		pairs = append(pairs, p.K.Inspect()+"\x00"+p.K.Type())
	}
	sort.Strings(pairs)
	kt := res.Trace[2*n]
	body := strings.TrimSuffix(strings.TrimPrefix(kt, "trace(ARRAY:["), ")")
	halves := strings.SplitN(body, "]~[", 2)
	if len(halves) != 2 {
		return fmt.Errorf("keys(H) is not an array: %s", kt)
	}
	var gotPairs []string
	if n > 0 {
		prints := strings.Split(halves[0], ", ")
		types := strings.Split(strings.TrimSuffix(halves[1], "]"), ",")
		if len(prints) != n || len(types) != n {
			return fmt.Errorf("keys(H) has %d entries for %d keys: %s", len(prints), n, kt)
		}
		for i := range prints {
			if i > 0 && prints[i] < prints[i-1] {
				return fmt.Errorf("keys(H) is not in sorted order: %s", kt)
			}
			gotPairs = append(gotPairs, prints[i]+"\x00"+types[i])
		}
	}
	sort.Strings(gotPairs)
	if strings.Join(gotPairs, "|") != strings.Join(pairs, "|") {
		return fmt.Errorf("keys(H) does not list every key exactly once: %s", kt)
	}
	// single-variable loop visits every value once
	var vals, wantVals []string
	for i := n; i < 2*n; i++ {
		vals = append(vals, res.Trace[i])
	}
	for _, p := range h.H {
		wantVals = append(wantVals, "trace("+p.V.Type()+":"+p.V.Inspect()+")")
	}
	sort.Strings(vals)
	sort.Strings(wantVals)
	if strings.Join(vals, "|") != strings.Join(wantVals, "|") {
		return fmt.Errorf("value iteration: expected (any order among ties) %v, got %v", wantVals, vals)
	}
	return nil
}
