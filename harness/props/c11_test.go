package props

import (
	"encoding/json"
	"fmt"
	"os"
	"os/exec"
	"path/filepath"
	"reflect"
	"runtime"
	"strings"
	"sync"
	"sync/atomic"
	"testing"
	"time"

	evalfilter "github.com/skx/evalfilter/v2"
	"github.com/skx/evalfilter/v2/object"
	"pgregory.net/rapid"

	"verif/harness/evid"
	"verif/harness/gen"
)

// C11 — evaluators can be used from many goroutines.

// Workload describes a concurrent workload reproducibly.
type Workload struct {
	Prop    string   `json:"prop"`
	Kind    string   `json:"kind"`
	Shared  string   `json:"shared_script,omitempty"` // script of the shared evaluator ("" = none)
	Sharers int      `json:"sharers"`                 // goroutines calling Run on the shared evaluator
	Calls   int      `json:"calls"`                   // Run calls per goroutine
	Own     []string `json:"own_scripts,omitempty"`   // one private evaluator per goroutine
	OwnRuns int      `json:"own_runs"`
	Procs   int      `json:"gomaxprocs"`
	Yield   bool     `json:"yield"`
	Msg     string   `json:"message,omitempty"`
}

type person struct {
	Name  string
	Age   int
	Tags  []string
	Email string
	Meta  map[string]interface{}
	Pat   string
	Seen  int64 // an instant, as Unix seconds
	Idx   int   // which object this is
}

// workloadLimit (no longer a limit for a whole workload, see the wait in
// runWorkload): a workload takes seconds; one that has not finished after
// this long is blocked, not slow.
const workloadLimit = 240 * time.Second

// patCounter makes run-time patterns unique within the process: thousands of
// distinct patterns pass through the process-wide cache of compiled regexps.
var patCounter int64

// metaPool: nested maps that many objects refer to at once. Host data that is
// only read may be shared between goroutines and between evaluators.
var metaPool = func() []map[string]interface{} {
	var build func(depth, salt int) map[string]interface{}
	build = func(depth, salt int) map[string]interface{} {
		m := map[string]interface{}{"n": depth + salt, "s": fmt.Sprint("v", salt), "l": []interface{}{1, "two", 3.5}}
		if depth > 0 {
			m["deep"] = build(depth-1, salt)
			m["also"] = build(depth-1, salt+1)
		}
		return m
	}
	return []map[string]interface{}{build(4, 1), build(3, 2), build(5, 3)}
}()

func personFor(i int) person {
	names := []string{"Steve", "bob", "Alice", "re: hello", "Zoë", "x"}
	return person{Name: names[i%len(names)], Age: 10 + (i*7)%60, Tags: []string{"a", fmt.Sprint(i % 5)}, Email: fmt.Sprintf("u%d@example.com", i%9), Meta: metaPool[i%len(metaPool)], Pat: fmt.Sprintf("^u%d@", i%9),
		Seen: 1700000000 + int64(i)*100003, Idx: i}
}

// withFreshPattern gives the object a pattern no run has used before (it
// still matches the object's e-mail address).
func withFreshPattern(o interface{}) interface{} {
	n := atomic.AddInt64(&patCounter, 1)
	return withPattern(o, fmt.Sprintf("^u[0-9]@|zz%dzz", n))
}

// withPattern gives the object the pattern named (it still matches the
// object's e-mail address).
func withPattern(o interface{}, pat string) interface{} {
	switch x := o.(type) {
	case person:
		x.Pat = pat
		return x
	case *person:
		x.Pat = pat
		return x
	case map[string]interface{}:
		x["Pat"] = pat
		return x
	}
	return o
}

// objectFor: the same data as a struct, a pointer or a map.
func objectFor(i int) interface{} {
	p := personFor(i)
	switch (i / 3) % 3 {
	case 1:
		return &p
	case 2:
		return map[string]interface{}{"Name": p.Name, "Age": p.Age, "Tags": p.Tags, "Email": p.Email, "Meta": p.Meta, "Pat": p.Pat, "Seen": p.Seen, "Idx": p.Idx}
	}
	return p
}

// sharedScripts update the persistent counter "count" on every run and
// return a verdict that depends only on the object.
var sharedScripts = []string{
	`count = count + 1; return Age > 30;`,
	`count++; if ( Name ~= /^s/i ) { return true; } return false;`,
	`count += 1; return len(Tags) == 2 && Email ~= /@example\.com$/;`,
	`function adult(a) { return a >= 18; } count = count + 1; return adult(Age) && lower(Name) != "bob";`,
	`count++; switch ( Name ) { case /^re:/i { return true; } case "Alice", "bob" { return Age > 20; } default { return false; } }`,
	`count = count + 1; n = 0; foreach t in Tags { n = n + len(t); } return n > 1 && between(Age, 10, 40);`,
	`count++; return count;`,
	`count = count + 1; return replace(Name, /[aeiou]/, "_") != Name;`,
	`count++; ok = note(Idx, Name, Age); return ok && Age > 30;`,
	`function keep(a, b, c) { return note(a, b, c); } count = count + 1; foreach t in Tags { r = keep(Idx, Name, Age); } return len(Name) > 3;`,
	`count++; return hour(Seen) > 11 || weekday(Seen) == "Monday" || day(Seen) + month(Seen) == 20;`,
	// runs that fail for some objects, inside loop and function scopes
	`count++; foreach t in Tags { if ( t == "3" ) { return 1 % (len(t) - 1); } } return Age > 30;`,
	`function chk(t) { local z; z = len(t); if ( t == "2" ) { return t + z; } return z; } count = count + 1; n = 0; foreach i, t in Tags { n = n + chk(t); } return n > 1;`,
	`count += 1; foreach t in Tags { foreach c in t { if ( c == "4" ) { panic("four"); } } } return Name ~= /e/;`,
	// nested maps that several objects share
	`count++; d = Meta["deep"]; return d["n"] + len(Meta) > 7;`,
	`count = count + 1; n = 0; foreach k, v in Meta { n = n + len(string(v)); } return n % 2 == 0 && Meta["also"]["deep"]["s"] == "v2";`,
}

const feeScript = `function fee(a) { return a + 2 * 3 + 60 * 60 - 10 / 2; } function twice(a) { return fee(a) * (1 + 1); } return [fee(Age), twice(Age), 24 * 60];`

var ownScripts = []string{
	`return Name ~= /^s/i;`,
	`return Name ~= /^s/i && Email !~ /nowhere/;`,
	`switch ( Name ) { case /bob/i { return 1; } case /alice/i { return 2; } } return 0;`,
	`x = replace(Email, /@.*$/, ""); return len(x) > 1;`,
	`return match(Name, /e$/) || Age > 30;`,
	`n = 0; foreach t in Tags { if ( t ~= /[0-9]/ ) { n++; } } return n;`,
	`h = {"a": Age, "n": Name}; return keys(h);`,
	`return sort(Tags, true);`,
	`return Meta["deep"]["deep"]["n"] + len(Meta["also"]);`,
	`n = 0; foreach k, v in Meta { n = n + len(string(v)); } return n;`,
	`return string(Meta);`,
	// objects the host hands to many evaluators with SetVariable (one allow-list,
	// one lookup table, one string for all)
	`return Name in BigList || lower(Name) in BigList;`,
	`return [Email in BigList, "w17" in BigList, "nope" in BigList, BigList[Age]];`,
	`n = 0; foreach i, v in BigList { if ( string(v) ~= /7$/ ) { n = n + i; } } return n;`,
	`return [sort(BigList)[0], reverse(BigList, true)[0], len(BigList), len(string(BigList))];`,
	`return [BigHash[Name], BigHash["k3"], BigHash[Age], len(BigHash), keys(BigHash)[0]];`,
	`n = 0; foreach k, v in BigHash { n = n + len(string(k)) + len(string(v)); if ( n > 40 ) { return n; } } return n;`,
	`return [len(keys(BigHash)), keys(BigHash)[3], "k7" in keys(BigHash), len(string(BigHash))];`,
	`s = string(BigHash); return [len(s), s ~= /k59/, type(BigHash[Name])];`,
	`n = 0; foreach c in BigWord { n++; } return [n, BigWord[2], "w1" in BigWord, upper(BigWord), BigNumber + Age, BigFloat * 2];`,
	// a function whose body the optimizer rewrites (several goroutines
	// prepare this very text at the same moment)
	feeScript,
	// the parts of an instant (another one for every object)
	`return [hour(Seen), minute(Seen), seconds(Seen), day(Seen), month(Seen), year(Seen), weekday(Seen)];`,
	`return hour(Seen) * 60 + minute(Seen) > 700 || weekday(Seen) == "Monday";`,
	// patterns that only exist at run time
	`return match(Email, Pat);`,
	`return [match(Email, Pat), replace(Email, Pat, "<>")];`,
}

// oddRecord: the person's data in a struct type made for the occasion, with
// one more field of a kind the engine cannot represent ([n]uint8 for a fresh n,
// or a fresh struct type).
func oddRecord(i, n int) interface{} {
	p := personFor(i)
	oddType := reflect.ArrayOf(1+n%5000, reflect.TypeOf(uint8(0)))
	if n%3 == 0 {
		oddType = reflect.StructOf([]reflect.StructField{{Name: fmt.Sprintf("F%d", n), Type: reflect.TypeOf(uint16(0))}})
	}
	st := reflect.StructOf([]reflect.StructField{
		{Name: "Name", Type: reflect.TypeOf("")}, {Name: "Age", Type: reflect.TypeOf(0)}, {Name: "Tags", Type: reflect.TypeOf([]string{})},
		{Name: "Email", Type: reflect.TypeOf("")}, {Name: "Meta", Type: reflect.TypeOf(map[string]interface{}{})}, {Name: "Pat", Type: reflect.TypeOf("")},
		{Name: "Odd", Type: oddType}, {Name: "Seen", Type: reflect.TypeOf(int64(0))}})
	v := reflect.New(st).Elem()
	v.Field(0).SetString(p.Name)
	v.Field(1).SetInt(int64(p.Age))
	v.Field(2).Set(reflect.ValueOf(p.Tags))
	v.Field(3).SetString(p.Email)
	v.Field(4).Set(reflect.ValueOf(p.Meta))
	v.Field(5).SetString(p.Pat)
	v.Field(7).SetInt(p.Seen)
	return v.Interface()
}

// sharedHostVars builds, per workload, the objects that the host gives to
// every private evaluator with SetVariable: nothing has looked at them yet
// when the goroutines start.
func sharedHostVars() map[string]object.Object {
	list := &object.Array{}
	for i := 0; i < 96; i++ {
		list.Elements = append(list.Elements, &object.String{Value: fmt.Sprint("w", i)})
	}
	list.Elements = append(list.Elements, &object.String{Value: "Steve"}, &object.String{Value: "bob"}, &object.Integer{Value: 7}, &object.String{Value: "u3@example.com"})
	hash := &object.Hash{Pairs: map[object.HashKey]object.HashPair{}}
	put := func(k object.Object, v object.Object) {
		hash.Pairs[k.(object.Hashable).HashKey()] = object.HashPair{Key: k, Value: v}
	}
	for i := 0; i < 60; i++ {
		put(&object.String{Value: fmt.Sprint("k", i)}, &object.Integer{Value: int64(i)})
		put(&object.Integer{Value: int64(i)}, &object.String{Value: fmt.Sprint("age", i)})
	}
	put(&object.String{Value: "Alice"}, list)
	put(&object.Float{Value: 2.5}, &object.Float{Value: 2.5})
	return map[string]object.Object{"BigList": list, "BigHash": hash, "BigWord": &object.String{Value: "w1狐w2犬w3"},
		"BigNumber": &object.Integer{Value: 70000}, "BigFloat": &object.Float{Value: 1.25}}
}

// the scripts of ownScripts that work on the host-given objects
var hostScriptsFrom, hostScriptsTo = func() (int, int) {
	from, to := -1, -1
	for i, sc := range ownScripts {
		if strings.Contains(sc, "Big") {
			if from < 0 {
				from = i
			}
			to = i + 1
		}
	}
	return from, to
}()

func journalWorkload(w *Workload) {
	out := os.Getenv("VERIF_OUT")
	if out == "" {
		return
	}
	b, _ := json.Marshal(w)
	_ = os.WriteFile(filepath.Join(out, fmt.Sprintf("C11.workloads.%s.journal", shard())), b, 0o644)
}

// runWorkload executes the workload; results are compared with a
// sequential reference. Data races are reported by the race detector.
func runWorkload(w *Workload) error {
	journalWorkload(w)
	if w.Procs > 0 {
		defer runtime.GOMAXPROCS(runtime.GOMAXPROCS(w.Procs))
	}
	var wg sync.WaitGroup
	errs := make(chan error, w.Sharers+len(w.Own)+1)
	var progress int64 // calls that have come back
	start := make(chan struct{})

	// sequential reference verdicts for the shared script
	var shared *evalfilter.Eval
	verdict := map[int]bool{}
	fails := map[int]bool{}
	countSensitive := false
	var filed sync.Map
	noteFn := func(args []object.Object) object.Object {
		if len(args) >= 1 {
			filed.Store(args[0].Inspect(), args)
		}
		return &object.Boolean{Value: true}
	}
	if w.Shared != "" {
		ref := evalfilter.New(w.Shared)
		ref.SetVariable("count", &object.Integer{Value: 0})
		ref.AddFunction("note", noteFn)
		if err := ref.Prepare(); err != nil {
			return fmt.Errorf("harness: %v", err)
		}
		countSensitive = w.Shared == `count++; return count;`
		for i := 0; i < 60; i++ {
			v, err := ref.Run(objectFor(i))
			fails[i] = err != nil
			verdict[i] = v
		}
		shared = evalfilter.New(w.Shared)
		shared.SetVariable("count", &object.Integer{Value: 0})
		// a host function that files what it is given (the list itself) under the
		// caller's ticket: the caller looks at it again once its own Run is back
		shared.AddFunction("note", noteFn)
		checkFiled := func(i int) error {
			v, ok := filed.Load(fmt.Sprint(i))
			if !ok {
				return nil
			}
			args := v.([]object.Object)
			p := personFor(i)
			if len(args) != 3 || args[0].Inspect() != fmt.Sprint(i) || args[1].Inspect() != p.Name || args[2].Inspect() != fmt.Sprint(p.Age) {
				parts := []string{}
				for _, a := range args {
					parts = append(parts, a.Inspect())
				}
				return fmt.Errorf("shared evaluator: the host function filed the arguments (%d, %s, %d) for object %d; looked at again after Run returned they read (%s)", i, p.Name, p.Age, i, strings.Join(parts, ", "))
			}
			return nil
		}
		if err := shared.Prepare(); err != nil {
			return fmt.Errorf("harness: %v", err)
		}
		for g := 0; g < w.Sharers; g++ {
			wg.Add(1)
			go func(g int) {
				defer wg.Done()
				<-start
				for k := 0; k < w.Calls; k++ {
					i := (g*31 + k*7) % 60
					got, err := shared.Run(objectFor(i))
					atomic.AddInt64(&progress, 1)
					if (err != nil) != fails[i] {
						errs <- fmt.Errorf("shared evaluator: object %d: Run returned error %v concurrently, but failed=%v sequentially", i, err, fails[i])
						return
					}
					if ferr := checkFiled(i); ferr != nil {
						errs <- ferr
						return
					}
					if err != nil {
						continue
					}
					if !countSensitive && got != verdict[i] {
						errs <- fmt.Errorf("shared evaluator: object %d got verdict %v concurrently, %v sequentially", i, got, verdict[i])
						return
					}
					if w.Yield {
						runtime.Gosched()
					}
				}
			}(g)
		}
	}
	// values every private evaluator is given: the same objects for all
	hostVars := sharedHostVars()
	wid := atomic.AddInt64(&patCounter, 1)
	// goroutines with their own evaluators
	for g, script := range w.Own {
		wg.Add(1)
		go func(g int, script string) {
			defer wg.Done()
			<-start
			for round := 0; round < 2; round++ {
				e := evalfilter.New(script)
				seq := evalfilter.New(script)
				for name, o := range hostVars {
					e.SetVariable(name, o)
					seq.SetVariable(name, o)
				}
				if err := e.Prepare(); err != nil {
					errs <- fmt.Errorf("own evaluator %d: %v", g, err)
					return
				}
				_ = seq.Prepare()
				for k := 0; k < w.OwnRuns; k++ {
					// a pattern nobody has used before: one of its own, or - every
					// other run - the one all goroutines of this workload meet for
					// the first time at the same moment
					p := withFreshPattern(objectFor(g + k))
					if k%5 == 4 {
						// a record type nobody has seen before, with a field the
						// engine cannot convert
						p = oddRecord(g+k, int(atomic.AddInt64(&patCounter, 1)))
					} else if k%2 == 0 {
						p = withPattern(objectFor(g+k), fmt.Sprintf("^u[0-9]@|ww%d_%d_%dzz", wid, round, k))
					}
					a, err := e.Execute(p)
					atomic.AddInt64(&progress, 1)
					if err != nil {
						if _, berr := seq.Execute(p); berr != nil && k%5 == 4 {
							continue // a record with an unconvertible field may fail the run: both do
						}
						errs <- fmt.Errorf("own evaluator %d: %v", g, err)
						return
					}
					b, _ := seq.Execute(p)
					if b != nil && a.Inspect() != b.Inspect() {
						errs <- fmt.Errorf("own evaluator %d: results differ between two private evaluators: %s vs %s", g, a.Inspect(), b.Inspect())
						return
					}
				}
			}
		}(g, script)
	}
	close(start)
	finished := make(chan struct{})
	go func() { wg.Wait(); close(finished) }()
	// calls that never come back: a lock that is never released, a wait for
	// something that cannot happen (the goroutines are left behind). "Never" is
	// judged by progress, not by the clock alone: on a busy machine, under the
	// race detector, a large workload takes minutes while every single call
	// still comes back; blocked means that no call has come back for a long
	// time (false alarm 32 of the thorough tier).
	last := atomic.LoadInt64(&progress)
	idle := 0
waiting:
	for {
		select {
		case <-finished:
			break waiting
		case <-time.After(20 * time.Second):
			if now := atomic.LoadInt64(&progress); now != last {
				last, idle = now, 0
				continue
			}
			idle++
			if idle >= 6 {
				return fmt.Errorf("no call of Run/Execute/Prepare has come back for two minutes (%d calls came back before that): calls are blocked", last)
			}
		}
	}
	close(errs)
	for err := range errs {
		return err
	}
	if shared != nil {
		c := shared.GetVariable("count")
		want := int64(w.Sharers * w.Calls)
		if ci, ok := c.(*object.Integer); !ok || ci.Value != want {
			return fmt.Errorf("the persistent counter is %s after %d runs: an update was lost", c.Inspect(), want)
		}
	}
	return nil
}

func init() {
	replayers["C11"] = func(raw []byte) error {
		var w Workload
		if err := json.Unmarshal(raw, &w); err != nil {
			return err
		}
		for i := 0; i < 20; i++ {
			if err := runWorkload(&w); err != nil {
				return err
			}
		}
		return nil
	}
}

func TestC11(t *testing.T) {
	defer silenceAs("workloads")()
	col := evid.New("C11", "workloads", "workloads run under the Go race detector: (1) one shared prepared evaluator, 2-16 goroutines x 20-200 Run calls on different objects, scripts using fields, a persistent counter (count = count + 1, count++, count += 1, returning the counter), regexps, built-ins and user functions; (2) 2-16 goroutines each creating, preparing and running their own evaluators with shared and distinct regexp patterns (~=, !~, switch regexp cases, replace, match); (3) both at once; GOMAXPROCS 2/4/16, optional Gosched between calls; objects are structs, pointers and maps sharing three nested maps, and some shared scripts fail for some objects inside loop/function scopes; oracle: zero race reports and no fatal 'concurrent map' error (the workload is journalled before it starts), every call returns the verdict (or fails exactly as) a sequential run for that object, the persistent counter equals the number of runs; non-trivial = >=2 goroutines overlap on shared state (same evaluator, or regexp use in different evaluators); distinct by workload")
	replayKnown(t, col, "C11")
	defer func() {
		if out := os.Getenv("VERIF_OUT"); out != "" {
			_ = os.Remove(filepath.Join(out, fmt.Sprintf("C11.workloads.%s.journal", shard())))
		}
	}()
	rapidCheck(t, col, func(rt *rapid.T) {
		w := &Workload{Prop: "C11", Kind: "workload", Procs: rapid.SampledFrom([]int{2, 4, 16}).Draw(rt, "procs"), Yield: rapid.Bool().Draw(rt, "yield")}
		mode := rapid.SampledFrom([]string{"shared", "own", "both", "patterns", "hostvalues"}).Draw(rt, "mode")
		if mode == "hostvalues" {
			// every goroutine works on the objects the host gave to all of them
			n := rapid.IntRange(4, 16).Draw(rt, "hostusers")
			for i := 0; i < n; i++ {
				w.Own = append(w.Own, ownScripts[hostScriptsFrom+gen.Uniform(rt, "hostscript", hostScriptsTo-hostScriptsFrom)])
			}
			w.OwnRuns = rapid.IntRange(3, 20).Draw(rt, "hostruns")
		}
		if mode == "patterns" {
			// every goroutine feeds the process-wide regexp cache with patterns
			// that never occurred before: well over a thousand per workload
			for i := 0; i < 16; i++ {
				w.Own = append(w.Own, ownScripts[len(ownScripts)-1-i%2])
			}
			w.OwnRuns = 50
		}
		if mode == "shared" || mode == "both" {
			w.Shared = rapid.SampledFrom(sharedScripts).Draw(rt, "shared")
			w.Sharers = rapid.IntRange(2, 16).Draw(rt, "sharers")
			w.Calls = rapid.IntRange(20, scale(200, 500)).Draw(rt, "calls")
		}
		if mode == "own" || mode == "both" {
			n := rapid.IntRange(2, 16).Draw(rt, "owners")
			for i := 0; i < n; i++ {
				w.Own = append(w.Own, ownScripts[gen.Uniform(rt, "own", len(ownScripts))])
			}
			w.OwnRuns = rapid.IntRange(5, 50).Draw(rt, "ownruns")
		}
		if err := runWorkload(w); err != nil {
			w.Msg = err.Error()
			violation(rt, "C11", w, "%v", err)
		}
		col.Class("mode:" + mode)
		ww := w
		col.Case(fmt.Sprint(*w), w.Sharers >= 2 || len(w.Own) >= 2, func() interface{} { return ww })
	})
}

// ---- cold start: the very first evaluators of a process are created concurrently ----

// TestC11ColdWorker is run in a fresh process: nothing has touched the
// library yet when the goroutines start.
func TestC11ColdWorker(t *testing.T) {
	if os.Getenv("VERIF_C11_COLD") == "" {
		t.Skip("worker only")
	}
	n := 32
	var wg sync.WaitGroup
	start := make(chan struct{})
	errs := make(chan error, n)
	hostVars := sharedHostVars()
	for g := 0; g < n; g++ {
		wg.Add(1)
		go func(g int) {
			defer wg.Done()
			<-start
			script := ownScripts[g%len(ownScripts)]
			if g%4 == 0 {
				// every fourth goroutine prepares one and the same text, with
				// functions the optimizer rewrites: the answers are known
				script = feeScript
			}
			e := evalfilter.New(script)
			for name, o := range hostVars {
				e.SetVariable(name, o)
			}
			if err := e.Prepare(); err != nil {
				errs <- fmt.Errorf("goroutine %d: Prepare: %v", g, err)
				return
			}
			for k := 0; k < 5; k++ {
				out, err := e.Execute(objectFor(g + k))
				if err != nil {
					errs <- fmt.Errorf("goroutine %d: %v", g, err)
					return
				}
				if script == feeScript {
					age := personFor(g + k).Age
					if want := fmt.Sprintf("[%d, %d, 1440]", age+3601, 2*(age+3601)); out.Inspect() != want {
						errs <- fmt.Errorf("goroutine %d: %s gave %s for Age %d, expected %s", g, "the script every fourth goroutine prepares", out.Inspect(), age, want)
						return
					}
				}
			}
		}(g)
	}
	close(start)
	wg.Wait()
	close(errs)
	for err := range errs {
		t.Fatalf("cold start: %v", err)
	}
}

func runColdStart(children int) error {
	for i := 0; i < children; i++ {
		cmd := exec.Command(os.Args[0], "-test.run", "^TestC11ColdWorker$", "-test.timeout", "120s")
		cmd.Env = append(os.Environ(), "VERIF_C11_COLD=1", "GORACE=halt_on_error=1")
		out, err := cmd.CombinedOutput()
		if err != nil {
			text := string(out)
			for _, marker := range []string{"WARNING: DATA RACE", "fatal error:", "cold start:"} {
				if idx := strings.Index(text, marker); idx >= 0 {
					return fmt.Errorf("process %d whose first action is 32 goroutines creating, preparing and running private evaluators: %s", i, clip(text[idx:], 900))
				}
			}
			return fmt.Errorf("INFRA: cold-start child failed without a recognisable report: %v %s", err, clip(text, 300))
		}
	}
	return nil
}

func TestC11ColdStart(t *testing.T) {
	defer silenceAs("coldstart")()
	col := evid.New("C11", "coldstart", "")
	defer col.Flush()
	children := scale(8, 80)
	w := &Workload{Prop: "C11", Kind: "coldstart", Own: ownScripts, OwnRuns: 5}
	if err := runColdStart(children); err != nil {
		if strings.HasPrefix(err.Error(), "INFRA") {
			t.Fatalf("%v", err)
		}
		w.Msg = err.Error()
		violation(t, "C11", w, "%v", err)
	}
	for i := 0; i < children; i++ {
		ii := i
		col.Case(fmt.Sprint("cold", i), true, func() interface{} {
			return map[string]interface{}{"fresh_process": ii, "goroutines": 32, "each": "New + Prepare + 5 x Execute on a private evaluator"}
		})
	}
}

func init() {
	replayers["C11/coldstart"] = func(raw []byte) error { return runColdStart(30) }
}
