package props

import (
	"bytes"
	"context"
	"encoding/json"
	"fmt"
	"github.com/skx/evalfilter/v2/object"
	"regexp"
	"sort"
	"strings"
	"testing"
	"time"

	"pgregory.net/rapid"

	"verif/harness/eng"
	"verif/harness/evid"
	"verif/harness/gen"
	"verif/harness/lang"
)

// C03 — the optimizer never changes what a script does.

// DiffCase is a script run on a sequence of objects by two evaluators.
type DiffCase struct {
	Prop   string                `json:"prop"`
	Kind   string                `json:"kind"`
	Script string                `json:"script"`
	Objs   []*eng.ObjSpec        `json:"objs,omitempty"`
	Vars   map[string]lang.Value `json:"vars,omitempty"`
	Msg    string                `json:"message,omitempty"`
}

// prepared gives the evaluator a generous safety deadline (it starts at
// Prepare and covers every run of the case): a timeout is then an engine that
// hangs, not a busy machine. Checks that treat a timeout as inconclusive use
// preparedShort.
func prepared(script string, vars map[string]lang.Value, noOpt bool) (*eng.Runner, error) {
	return preparedLimit(script, vars, noOpt, 30*time.Second)
}

func preparedShort(script string, vars map[string]lang.Value, noOpt bool) (*eng.Runner, error) {
	return preparedLimit(script, vars, noOpt, 2*time.Second)
}

func preparedLimit(script string, vars map[string]lang.Value, noOpt bool, limit time.Duration) (*eng.Runner, error) {
	r := eng.NewRunner(script)
	ctx, cancel := context.WithTimeout(context.Background(), limit)
	_ = cancel // the context lives as long as the evaluator
	r.E.SetContext(ctx)
	names := sortedKeys(vars)
	for _, k := range names {
		r.Give(k, eng.ToObject(vars[k]))
	}
	err, pan := r.Prepare(noOpt)
	if pan != nil {
		return nil, fmt.Errorf("Prepare panicked: %v", pan)
	}
	return r, err
}

func programDigest(r *eng.Runner) string {
	consts, main, funcs := r.E.VerifProgram()
	var b bytes.Buffer
	for _, c := range consts {
		fmt.Fprintf(&b, "%s:%s;", c.Type(), c.Inspect())
	}
	fmt.Fprintf(&b, "|%x|", main)
	var names []string
	for n := range funcs {
		names = append(names, n)
	}
	sort.Strings(names)
	for _, n := range names {
		fmt.Fprintf(&b, "%s(%s)=%x;", n, strings.Join(funcs[n].Arguments, ","), funcs[n].Bytecode)
	}
	return b.String()
}

// runDiff executes the case; changed reports whether the optimizer altered the program.
func runDiff(c *DiffCase) (changed bool, outcome string, err error) {
	opt, e1 := preparedShort(c.Script, c.Vars, false)
	raw, e2 := preparedShort(c.Script, c.Vars, true)
	if (e1 == nil) != (e2 == nil) {
		return false, "", fmt.Errorf("Prepare disagrees: optimized=%v unoptimized=%v", e1, e2)
	}
	if e1 != nil {
		return false, "rejected", nil
	}
	changed = programDigest(opt) != programDigest(raw)
	objs := c.Objs
	if len(objs) == 0 {
		objs = []*eng.ObjSpec{{Mode: "map"}}
	}
	outcome = "value"
	// one more run after the host has registered a function of its own under
	// the name of one of the script's functions (which scripts: a digest of
	// the text decides): whatever that means for the script, it means the
	// same for both programs
	late := -1
	var lateName string
	if m := funcNameRe.FindAllStringSubmatch(c.Script, -1); len(m) > 0 && evid.Digest("c03late"+c.Script)%3 == 0 {
		late = len(objs)
		lateName = m[int(evid.Digest("c03latename"+c.Script)%uint64(len(m)))][1]
		objs = append(append([]*eng.ObjSpec{}, objs...), objs[0])
	}
	for i, os := range objs {
		if i == late {
			for _, r := range []*eng.Runner{opt, raw} {
				r.E.AddFunction(lateName, func(args []object.Object) object.Object { return &object.String{Value: "host-" + lateName} })
			}
			if evid.Current != nil {
				evid.Current.Class("host-function-registered-late-under-a-script-name")
			}
		}
		a := opt.Execute(os.Build())
		b := raw.Execute(os.Build())
		if isTimeout(a.Err) || isTimeout(b.Err) {
			// resource blow-up (e.g. a string that doubles on every call): a
			// time budget hit is inconclusive, never a violation
			return changed, "inconclusive-timeout", nil
		}
		if a.Panic != nil || b.Panic != nil {
			return changed, "", fmt.Errorf("run %d: panic escaped: optimized=%v unoptimized=%v", i, a.Panic, b.Panic)
		}
		if (a.Err == nil) != (b.Err == nil) {
			return changed, "", fmt.Errorf("run %d: optimized err=%v (value %s), unoptimized err=%v (value %s)", i, a.Err, a.Val.Describe(), b.Err, b.Val.Describe())
		}
		if a.Err == nil {
			if !lang.DeepEqual(a.Val, b.Val) || a.Val.Inspect() != b.Val.Inspect() {
				return changed, "", fmt.Errorf("run %d: optimized returns %s, unoptimized %s", i, a.Val.Describe(), b.Val.Describe())
			}
		} else {
			outcome = "error"
		}
		if strings.Join(a.Trace, "|") != strings.Join(b.Trace, "|") {
			return changed, "", fmt.Errorf("run %d: host calls differ: optimized %s, unoptimized %s", i, clip(fmt.Sprint(a.Trace), 1500), clip(fmt.Sprint(b.Trace), 1500))
		}
		if a.Globals != nil && b.Globals != nil {
			delete(a.Globals, "OPTIMIZE")
			delete(b.Globals, "OPTIMIZE")
			if ga, gb := describeGlobals(a.Globals), describeGlobals(b.Globals); ga != gb {
				return changed, "", fmt.Errorf("run %d: variables differ: optimized {%s}, unoptimized {%s}", i, ga, gb)
			}
		}
	}
	return changed, outcome, nil
}

var funcNameRe = regexp.MustCompile(`function\s+([A-Za-z_][A-Za-z0-9_]*)\s*\(`)

func isTimeout(err error) bool {
	return err != nil && strings.Contains(err.Error(), "timeout during execution")
}

func init() {
	replayers["C03"] = func(raw []byte) error {
		var c DiffCase
		if err := json.Unmarshal(raw, &c); err != nil {
			return err
		}
		for _, o := range c.Objs {
			o.Fix()
		}
		for k, v := range c.Vars {
			v.Fix()
			c.Vars[k] = v
		}
		_, _, err := runDiff(&c)
		return err
	}
}

func objSpecOf(fields []gen.Binding, mode string) *eng.ObjSpec {
	o := &eng.ObjSpec{Mode: mode}
	for _, b := range fields {
		o.Fields = append(o.Fields, eng.Field{Name: b.Name, V: b.V})
	}
	if o.Mode != "map" && !o.StructOK() {
		o.Mode = "map"
	}
	return o
}

func TestC03(t *testing.T) {
	defer silence()()
	col := evid.New("C03", "programs", "random programs biased to what the optimizer touches (inline integer literals on both sides of 65534 in + - * / == != trees, constant conditions in if/while/ternary/switch, expression statements before loop heads, returns before/after jumps, user functions), each prepared with and without NoOptimize and run on a sequence of 3 objects; oracle: same value (type, printed form, structure) or both fail, same host calls, same variables after every run; non-trivial = the optimizer changed the compiled program (hook); distinct by program text")
	replayKnown(t, col, "C03")
	rapidCheck(t, col, func(rt *rapid.T) {
		pr := gen.Program(rt, gen.ProgOpts{Depth: scale(3, 4), Block: 3, Funcs: 2, Clash: false, OptBias: true, IncDec: true,
			Ternary: true, Switch: true, EarlyRet: true, ErrStmts: true, BigInts: true, PoolShift: true, NoSqrtFold: true})
		mode := rapid.SampledFrom([]string{"map", "struct", "ptr"}).Draw(rt, "objmode")
		c := &DiffCase{Prop: "C03", Kind: "diff", Script: lang.ProgramText(pr.P), Vars: map[string]lang.Value{}}
		for _, b := range pr.In.Vars {
			c.Vars[b.Name] = b.V
		}
		c.Objs = append(c.Objs, objSpecOf(pr.In.Fields, mode))
		for i := 0; i < 2; i++ {
			c.Objs = append(c.Objs, objSpecOf(gen.VaryFields(rt, pr.In.Fields), mode))
		}
		changed, outcome, err := runDiff(c)
		if err != nil {
			c.Msg = err.Error()
			violation(rt, "C03", c, "%v", err)
		}
		col.Class("outcome:" + outcome)
		if changed {
			col.Class("optimizer-changed-program")
		}
		cc := c
		col.Case(c.Script, changed, func() interface{} {
			return map[string]interface{}{"script": cc.Script, "objects": len(cc.Objs), "outcome": outcome}
		})
	})
}
