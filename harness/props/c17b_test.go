package props

import (
	"fmt"
	"testing"
	"time"

	"verif/harness/eng"
	"verif/harness/evid"
	"verif/harness/lang"
)

// C17, second part: every built-in x every tuple of argument kinds.
//
// The random part reaches "wrong argument types" only by luck (a particular
// built-in, arity and kind per position). Here the signatures are enumerated:
// for each built-in, every tuple of the eight kinds for arities 0..3, arity 4
// over three kinds, several value variants per tuple, the operands arriving as
// literals, variables and fields. The oracle is the reference implementation
// of the built-in: the documented value for the documented signature, null
// (false for match) for every other one, never an error or a panic.

var signatureFns = []string{"between", "min", "max", "sort", "reverse", "split", "join", "len", "lower", "upper", "trim",
	"string", "int", "float", "type", "match", "replace", "keys", "sprintf", "getenv", "panic",
	"hour", "minute", "seconds", "day", "month", "year", "weekday"}

// values a signature is tried with, per kind (variant v picks element v mod n)
var signatureValues = map[lang.Kind][]lang.Value{
	lang.KInt:    {lang.Int(3), lang.Int(-17), lang.Int(0), lang.Int(1585443600), lang.Int(70000)},
	lang.KFloat:  {lang.Float(2.5), lang.Float(-0.5), lang.Float(3), lang.Float(1e15)},
	lang.KString: {lang.Str("b,a,C"), lang.Str(","), lang.Str(""), lang.Str("%d|%s|%v"), lang.Str(" Été 狐 "), lang.Str("42"), lang.Str("HOME")},
	lang.KBool:   {lang.Bool(true), lang.Bool(false)},
	lang.KNull:   {lang.Null()},
	lang.KArray: {lang.Array(lang.Str("b"), lang.Str("A"), lang.Str("c")), lang.Array(), lang.Array(lang.Int(10), lang.Int(9), lang.Str("x"), lang.Float(1.5)),
		lang.Array(lang.Array(lang.Int(1)), lang.Null())},
	lang.KHash:   {lang.Hash(lang.Pair{K: lang.Str("k"), V: lang.Int(1)}, lang.Pair{K: lang.Int(2), V: lang.Str("v")}), lang.Hash()},
	lang.KRegexp: {lang.Regexp("a"), lang.Regexp("(?i)^b"), lang.Regexp(",")},
}

func kindTuples(arity int, kinds []lang.Kind) [][]lang.Kind {
	out := [][]lang.Kind{{}}
	for i := 0; i < arity; i++ {
		var next [][]lang.Kind
		for _, t := range out {
			for _, k := range kinds {
				next = append(next, append(append([]lang.Kind(nil), t...), k))
			}
		}
		out = next
	}
	return out
}

func TestC17Signatures(t *testing.T) {
	defer silenceAs("signatures")()
	col := evid.New("C17", "signatures", "exhaustive: every built-in x every tuple of the eight argument kinds for arities 0-3 (arity 4 over integer/string/array), 3 (thorough: 7) value variants per tuple, operands as literals, variables, SetVariable values and fields, optimizer on and off; oracle: reference implementation of the built-in - the documented value for the documented signature, null (false for match) for any other arity or kind, never an error; non-trivial = arity >= 1; distinct by script + inputs")
	defer col.Flush()
	replayKnown(t, col, "C17")
	si, sn := shardIndex()
	variants := scale(3, 7)
	n := 0
	sigs := map[string]bool{}
	for _, fn := range signatureFns {
		for arity := 0; arity <= 4; arity++ {
			kinds := lang.AllKinds
			if arity == 4 {
				kinds = []lang.Kind{lang.KInt, lang.KString, lang.KArray}
			}
			for _, tuple := range kindTuples(arity, kinds) {
				for v := 0; v < variants; v++ {
					n++
					if n%sn != si {
						continue
					}
					mix := evid.Digest(fmt.Sprint("sig", fn, tuple, v))
					c := &Case{Prop: "C17", Kind: "signature", Vars: map[string]lang.Value{}, Obj: &eng.ObjSpec{Mode: "map"}, NoOpt: mix&1 == 1, TZ: "UTC"}
					if mix&2 == 2 {
						c.Obj.Mode = "struct"
					}
					m := lang.NewMachine()
					m.Loc = time.UTC
					eng.ModelHost(m)
					prelude := ""
					args := make([]lang.Expr, arity)
					for i, k := range tuple {
						vals := signatureValues[k]
						val := vals[int((mix>>(8+4*uint(i)))%uint64(len(vals)))]
						if v < len(vals) && arity == 1 {
							val = vals[v] // single-argument functions see every listed value
						}
						name := fmt.Sprintf("a%d", i)
						e, from := operandExpr(c, &prelude, name, val, int((mix>>(3+2*uint(i)))&3))
						switch from {
						case "field":
							m.Fields["F"+name] = val
						case "setvariable", "assigned":
							m.Globals[name] = val
						}
						args[i] = e
					}
					if c.Obj.Mode == "struct" && !c.Obj.StructOK() {
						c.Obj.Mode = "map"
					}
					prog := &lang.Program{Stmts: []lang.Stmt{lang.Return{X: lang.Call{Fn: fn, Args: args}}}}
					c.Script = prelude + lang.ProgramText(prog)
					c.Exp = expectFromModel(m, prog)
					if err := runCase(c); err != nil {
						violation(t, "C17", c, "%v", err)
					}
					sigs[fmt.Sprint(fn, tuple)] = true
					col.Class("signature-fn:" + fn)
					switch {
					case c.Exp.Unspec:
						col.Excluded("unspecified: " + clip(c.Exp.Why, 50))
					case c.Exp.Err:
						col.Class("signature-outcome:error")
					case c.Exp.Val.K == lang.KNull:
						col.Class("signature-outcome:null")
					default:
						col.Class("signature-outcome:value")
					}
					cc := c
					col.Case(fmt.Sprint(c.Script, c.Vars, c.Obj, c.NoOpt), arity >= 1 && !c.Exp.Unspec, func() interface{} { return sampleOf(cc) })
				}
			}
		}
	}
	_ = sigs
	col.Set("signatures", fmt.Sprintf("%d built-ins x 666 kind tuples (all 585 of arity 0-3, 81 of arity 4), exhaustive", len(signatureFns)))
}
