package props

import (
	"fmt"
	"math"
	"strings"
	"testing"

	"github.com/skx/evalfilter/v2/lexer"
	"github.com/skx/evalfilter/v2/parser"
	"pgregory.net/rapid"

	"verif/harness/eng"
	"verif/harness/evid"
	"verif/harness/gen"
	"verif/harness/lang"
)

// C12 — expressions parse with the documented precedence and grouping.

// documented levels, higher binds tighter
var opLevel = map[string]int{
	"%": 5, "**": 4, "*": 3, "/": 3, "+": 2, "-": 2,
	"<": 1, "<=": 1, ">": 1, ">=": 1, "~=": 1, "!~": 1, "in": 1,
	"==": 0, "!=": 0, "&&": -1, "||": -1, "..": -2,
}

const (
	lvlPostfix = 7 // index, call, '.'
	lvlPrefix  = 6
	lvlTernary = -3
)

var c12BinOps = []string{"%", "**", "*", "/", "+", "-", "<", "<=", ">", ">=", "~=", "!~", "in", "==", "!=", "&&", "||", ".."}
var c12PreOps = []string{"-", "!", "√"}

func exprLevel(e lang.Expr) int {
	switch x := e.(type) {
	case lang.Binary:
		return opLevel[x.Op]
	case lang.Unary:
		return lvlPrefix
	case lang.Ternary:
		return lvlTernary
	}
	return 8 // atoms, index, call, dot, parenthesised
}

// minimalText prints e with only the parentheses the documented rules require.
func minimalText(e lang.Expr) string {
	var b strings.Builder
	var pr func(e lang.Expr)
	wrap := func(e lang.Expr, need bool) {
		if need {
			b.WriteByte('(')
			pr(e)
			b.WriteByte(')')
		} else {
			pr(e)
		}
	}
	pr = func(e lang.Expr) {
		switch x := e.(type) {
		case lang.Lit:
			b.WriteString(lang.LitText(x.V))
		case lang.Name:
			b.WriteString(x.N)
		case lang.Paren:
			b.WriteByte('(')
			pr(x.X)
			b.WriteByte(')')
		case lang.Binary:
			l := opLevel[x.Op]
			// "} /" would start a regexp: a left operand that ends in a hash literal is parenthesised
			endsInBrace := x.Op == "/" && strings.HasSuffix(strings.TrimSpace(minimalText(x.L)), "}")
			wrap(x.L, exprLevel(x.L) < l || endsInBrace)
			b.WriteString(" " + x.Op + " ")
			wrap(x.R, exprLevel(x.R) <= l)
		case lang.Unary:
			b.WriteString(x.Op)
			if _, nested := x.X.(lang.Unary); nested {
				b.WriteByte(' ') // keep "- -a" from lexing as "--"
			}
			wrap(x.X, exprLevel(x.X) < lvlPrefix)
		case lang.Index:
			wrap(x.X, exprLevel(x.X) < lvlPostfix)
			b.WriteByte('[')
			pr(x.I)
			b.WriteByte(']')
		case lang.Dot:
			wrap(x.X, exprLevel(x.X) < lvlPostfix)
			b.WriteString("." + x.N)
		case lang.Call:
			b.WriteString(x.Fn + "(")
			for i, a := range x.Args {
				if i > 0 {
					b.WriteString(", ")
				}
				pr(a)
			}
			b.WriteByte(')')
		case lang.Ternary:
			wrap(x.C, exprLevel(x.C) <= lvlTernary)
			b.WriteString(" ? ")
			wrap(x.A, exprLevel(x.A) <= lvlTernary)
			b.WriteString(" : ")
			wrap(x.B, exprLevel(x.B) <= lvlTernary)
		case lang.ArrayLit, lang.HashLit:
			// container literals are atoms; their members are printed in full
			b.WriteString(lang.ExprText(x))
		default:
			panic(fmt.Sprintf("minimalText: %T", e))
		}
	}
	pr(e)
	return b.String()
}

// shapeText renders the tree the way the repository prints a parsed tree.
func shapeText(e lang.Expr) string {
	switch x := e.(type) {
	case lang.Lit:
		if x.V.K == lang.KString {
			return `"` + x.V.S + `"`
		}
		return x.V.Inspect()
	case lang.Name:
		return x.N
	case lang.Paren:
		return shapeText(x.X)
	case lang.Binary:
		return "(" + shapeText(x.L) + " " + x.Op + " " + shapeText(x.R) + ")"
	case lang.Unary:
		return "(" + x.Op + shapeText(x.X) + ")"
	case lang.Index:
		return "(" + shapeText(x.X) + "[" + shapeText(x.I) + "])"
	case lang.Dot:
		return "(" + shapeText(x.X) + " . \"" + x.N + "\")"
	case lang.Call:
		as := make([]string, len(x.Args))
		for i, a := range x.Args {
			as[i] = shapeText(a)
		}
		return x.Fn + "(" + strings.Join(as, ", ") + ")"
	case lang.Ternary:
		return "(" + shapeText(x.C) + " ? " + shapeText(x.A) + " : " + shapeText(x.B) + ")"
	}
	panic(fmt.Sprintf("shapeText: %T", e))
}

func parseShape(text string) (string, error) {
	p := parser.New(lexer.New(text + ";"))
	prog, err := p.Parse()
	if err != nil {
		return "", err
	}
	if prog == nil || len(prog.Statements) != 1 {
		n := -1
		if prog != nil {
			n = len(prog.Statements)
		}
		return "", fmt.Errorf("parsed into %d statements", n)
	}
	return prog.Statements[0].String(), nil
}

// ShapeCase is an expression text with the tree it must parse into.
type ShapeCase struct {
	Prop  string `json:"prop"`
	Kind  string `json:"kind"`
	Text  string `json:"text"`
	Shape string `json:"shape"`
	Msg   string `json:"message,omitempty"`
}

func runShape(c *ShapeCase) error {
	got, err := parseShape(c.Text)
	if err != nil {
		return fmt.Errorf("valid expression %q rejected: %v", c.Text, err)
	}
	if got != c.Shape {
		return fmt.Errorf("%q parsed as %s, the documented grouping is %s", c.Text, got, c.Shape)
	}
	return nil
}

func init() {
	replayers["C12/shape"] = func(raw []byte) error {
		var c ShapeCase
		if err := jsonUnmarshal(raw, &c); err != nil {
			return err
		}
		return runShape(&c)
	}
	replayers["C12/nested"] = func(raw []byte) error {
		var c ShapeCase
		if err := jsonUnmarshal(raw, &c); err != nil {
			return err
		}
		return runNested(&c)
	}
}

var c12Leaves = []string{"a", "b", "c", "d", "e"}

func TestC12Pairs(t *testing.T) {
	defer silenceAs("pairs")()
	col := evid.New("C12", "pairs", "exhaustive: all ordered pairs of the 18 infix operators in 'a op1 b op2 c', every prefix operator against every infix operator on both sides, prefix/infix against index, call and '.'; plus random expression trees to depth 5 printed with minimal parentheses (per the documented table), full parentheses and random redundant parentheses; oracles: the parsed tree's printed shape equals the intended tree; the three printings evaluate alike and like the reference interpreter's value of the tree; nested ternaries (in an arm, through parentheses, call arguments, array elements, indexes) are rejected by Prepare; non-trivial = >=2 operators of different levels or equal level with non-commutative grouping; distinct by tree")
	defer col.Flush()
	replayKnown(t, col, "C12")
	a, b, c := lang.Name{N: "a"}, lang.Name{N: "b"}, lang.Name{N: "c"}
	check := func(kind string, tree lang.Expr, text string) {
		sc := &ShapeCase{Prop: "C12", Kind: "shape", Text: text, Shape: shapeText(tree)}
		if err := runShape(sc); err != nil {
			sc.Msg = err.Error()
			violation(t, "C12", sc, "%v", err)
		}
		col.Class(kind)
		col.Case(text, true, func() interface{} { return map[string]string{"text": sc.Text, "must_parse_as": sc.Shape} })
	}
	for _, o1 := range c12BinOps {
		for _, o2 := range c12BinOps {
			var tree lang.Expr
			if opLevel[o1] >= opLevel[o2] {
				tree = lang.Binary{Op: o2, L: lang.Binary{Op: o1, L: a, R: b}, R: c}
			} else {
				tree = lang.Binary{Op: o1, L: a, R: lang.Binary{Op: o2, L: b, R: c}}
			}
			check("infix-pair", tree, "a "+o1+" b "+o2+" c")
			// parentheses override
			check("infix-pair-regrouped", lang.Binary{Op: o1, L: a, R: lang.Binary{Op: o2, L: b, R: c}}, "a "+o1+" (b "+o2+" c)")
			check("infix-pair-regrouped", lang.Binary{Op: o2, L: lang.Binary{Op: o1, L: a, R: b}, R: c}, "(a "+o1+" b) "+o2+" c")
		}
	}
	// the grouping is also what is computed: chains of arithmetic operators over
	// floats (and integers at the end of their range), where (x op y) op z and
	// x op (y op z) differ in the last digit
	fvars := map[string]lang.Value{"p": lang.Float(0.1), "q": lang.Float(0.2), "r": lang.Float(0.3), "big": lang.Float(1e16), "one": lang.Int(1), "top": lang.Int(math.MaxInt64), "half": lang.Float(0.5)}
	for _, o1 := range []string{"+", "-", "*", "/"} {
		for _, o2 := range []string{"+", "-", "*", "/"} {
			for _, names := range [][3]string{{"p", "q", "r"}, {"r", "q", "p"}, {"big", "one", "one"}, {"top", "one", "half"}, {"p", "r", "big"}} {
				x, y, z := lang.Name{N: names[0]}, lang.Name{N: names[1]}, lang.Name{N: names[2]}
				var tree lang.Expr
				if opLevel[o1] >= opLevel[o2] {
					tree = lang.Binary{Op: o2, L: lang.Binary{Op: o1, L: x, R: y}, R: z}
				} else {
					tree = lang.Binary{Op: o1, L: x, R: lang.Binary{Op: o2, L: y, R: z}}
				}
				m := lang.NewMachine()
				for k, v := range fvars {
					m.Globals[k] = v
				}
				exp := expectFromModel(m, &lang.Program{Stmts: []lang.Stmt{lang.Return{X: tree}}})
				for _, noOpt := range []bool{false, true} {
					mc := &Case{Prop: "C12", Kind: "meaning", Script: "return " + names[0] + " " + o1 + " " + names[1] + " " + o2 + " " + names[2] + ";", Vars: fvars, Exp: exp, HostVals: map[string]lang.Value{}, NoOpt: noOpt}
					if err := runMeaning(mc); err != nil {
						violation(t, "C12", mc, "%v", err)
					}
				}
				col.Class("float-chain-computed")
			}
		}
	}
	// ... also when the tail of the chain is written as literals (what could be
	// worked out while the script is prepared is still worked out left to right)
	fvars["tiny"] = lang.Float(0.001)
	fvars["big53"] = lang.Float(9007199254740992)
	for _, x := range []string{"big", "big53", "p", "tiny", "top", "half"} {
		for _, cs := range [][2]int64{{1, 1}, {1, 3}, {2, 5}, {1, 2}} {
			for _, o1 := range []string{"+", "-", "*", "/"} {
				for _, o2 := range []string{"+", "-", "*", "/"} {
					if opLevel[o1] < opLevel[o2] {
						continue // x o1 (c1 o2 c2): nothing to regroup
					}
					tree := lang.Binary{Op: o2, L: lang.Binary{Op: o1, L: lang.Name{N: x}, R: lang.Lit{V: lang.Int(cs[0])}}, R: lang.Lit{V: lang.Int(cs[1])}}
					m := lang.NewMachine()
					for k, v := range fvars {
						m.Globals[k] = v
					}
					exp := expectFromModel(m, &lang.Program{Stmts: []lang.Stmt{lang.Return{X: tree}}})
					for _, noOpt := range []bool{false, true} {
						mc := &Case{Prop: "C12", Kind: "meaning", Script: fmt.Sprintf("return %s %s %d %s %d;", x, o1, cs[0], o2, cs[1]), Vars: fvars, Exp: exp, HostVals: map[string]lang.Value{}, NoOpt: noOpt}
						if err := runMeaning(mc); err != nil {
							violation(t, "C12", mc, "%v", err)
						}
					}
					col.Class("float-chain-with-literal-tail-computed")
				}
			}
		}
	}
	for _, p := range c12PreOps {
		for _, o := range c12BinOps {
			check("prefix-infix", lang.Binary{Op: o, L: lang.Unary{Op: p, X: a}, R: b}, p+"a "+o+" b")
			check("prefix-infix", lang.Binary{Op: o, L: a, R: lang.Unary{Op: p, X: b}}, "a "+o+" "+p+"b")
			check("prefix-infix-regrouped", lang.Unary{Op: p, X: lang.Binary{Op: o, L: a, R: b}}, p+"(a "+o+" b)")
		}
		check("prefix-postfix", lang.Unary{Op: p, X: lang.Index{X: a, I: lang.Lit{V: lang.Int(0)}}}, p+"a[0]")
		check("prefix-postfix", lang.Index{X: lang.Unary{Op: p, X: a}, I: lang.Lit{V: lang.Int(0)}}, "("+p+"a)[0]")
		check("prefix-postfix", lang.Unary{Op: p, X: lang.Call{Fn: "f", Args: []lang.Expr{a}}}, p+"f(a)")
		check("prefix-postfix", lang.Unary{Op: p, X: lang.Dot{X: a, N: "k"}}, p+"a.k")
		for _, q := range c12PreOps {
			check("prefix-prefix", lang.Unary{Op: p, X: lang.Unary{Op: q, X: a}}, p+" "+q+"a")
		}
	}
	for _, o := range c12BinOps {
		i0 := lang.Lit{V: lang.Int(0)}
		check("infix-postfix", lang.Binary{Op: o, L: a, R: lang.Index{X: b, I: i0}}, "a "+o+" b[0]")
		check("infix-postfix", lang.Binary{Op: o, L: lang.Index{X: a, I: i0}, R: b}, "a[0] "+o+" b")
		check("infix-postfix", lang.Index{X: lang.Binary{Op: o, L: a, R: b}, I: i0}, "(a "+o+" b)[0]")
		check("infix-postfix", lang.Binary{Op: o, L: a, R: lang.Call{Fn: "f", Args: []lang.Expr{b}}}, "a "+o+" f(b)")
		check("infix-postfix", lang.Binary{Op: o, L: lang.Call{Fn: "f", Args: []lang.Expr{a}}, R: b}, "f(a) "+o+" b")
		check("infix-postfix", lang.Binary{Op: o, L: a, R: lang.Dot{X: b, N: "k"}}, "a "+o+" b.k")
		check("infix-postfix", lang.Index{X: a, I: lang.Binary{Op: o, L: b, R: c}}, "a[b "+o+" c]")
		check("infix-postfix", lang.Call{Fn: "f", Args: []lang.Expr{lang.Binary{Op: o, L: a, R: b}, c}}, "f(a "+o+" b, c)")
		// ternary is the loosest level
		check("ternary-infix", lang.Ternary{C: lang.Binary{Op: o, L: a, R: b}, A: c, B: lang.Name{N: "d"}}, "a "+o+" b ? c : d")
		check("ternary-infix", lang.Ternary{C: a, A: lang.Binary{Op: o, L: b, R: c}, B: lang.Name{N: "d"}}, "a ? b "+o+" c : d")
		check("ternary-infix", lang.Ternary{C: a, A: b, B: lang.Binary{Op: o, L: c, R: lang.Name{N: "d"}}}, "a ? b : c "+o+" d")
		check("ternary-infix-regrouped", lang.Binary{Op: o, L: lang.Ternary{C: a, A: b, B: c}, R: lang.Name{N: "d"}}, "(a ? b : c) "+o+" d")
	}
	for _, p := range c12PreOps {
		check("ternary-prefix", lang.Ternary{C: lang.Unary{Op: p, X: a}, A: lang.Unary{Op: p, X: b}, B: lang.Unary{Op: p, X: c}}, p+"a ? "+p+"b : "+p+"c")
		check("ternary-prefix", lang.Ternary{C: a, A: lang.Binary{Op: "+", L: lang.Unary{Op: p, X: b}, R: lang.Lit{V: lang.Int(2)}}, B: c}, "a ? "+p+"b + 2 : c")
	}
	check("ternary-postfix", lang.Ternary{C: a, A: lang.Index{X: b, I: lang.Lit{V: lang.Int(0)}}, B: lang.Call{Fn: "f", Args: []lang.Expr{c}}}, "a ? b[0] : f(c)")
	check("ternary-postfix", lang.Ternary{C: a, A: lang.Binary{Op: "*", L: lang.Paren{X: lang.Binary{Op: "+", L: b, R: c}}, R: lang.Lit{V: lang.Int(2)}}, B: c}, "a ? (b + c) * 2 : c")
	col.Set("pairs_exhaustive", true)
}

// random trees
func c12Tree(rt *rapid.T, depth int, ternaryOK bool) lang.Expr {
	if depth <= 0 || gen.Uniform(rt, "leaf", 4) == 0 {
		switch gen.Uniform(rt, "oddleaf", 12) {
		case 0:
			// floats: grouping shows in the last digit (0.1 + 0.2 + 0.3)
			return lang.Name{N: rapid.SampledFrom([]string{"p", "q", "r", "big", "top"}).Draw(rt, "fid")}
		case 1:
			// container literals as operands: what follows the closing bracket
			// or brace belongs to the literal
			if rapid.Bool().Draw(rt, "hashleaf") {
				return lang.HashLit{Keys: []lang.Expr{lang.Lit{V: lang.Str("k")}, lang.Lit{V: lang.Str("name")}, lang.Lit{V: lang.Int(1)}}, Vals: []lang.Expr{lang.Lit{V: lang.Int(5)}, lang.Lit{V: lang.Int(7)}, lang.Lit{V: lang.Int(9)}}}
			}
			return lang.ArrayLit{Elems: []lang.Expr{lang.Lit{V: lang.Int(4)}, lang.Lit{V: lang.Int(6)}}}
		}
		if gen.Uniform(rt, "intleaf", 3) == 0 {
			return lang.Lit{V: lang.Int(rapid.Int64Range(0, 9).Draw(rt, "n"))}
		}
		return lang.Name{N: rapid.SampledFrom(c12Leaves).Draw(rt, "id")}
	}
	switch gen.Uniform(rt, "node", 12) {
	case 0, 1, 2, 3, 4, 5:
		return lang.Binary{Op: rapid.SampledFrom(c12BinOps).Draw(rt, "op"), L: c12Tree(rt, depth-1, ternaryOK), R: c12Tree(rt, depth-1, ternaryOK)}
	case 6, 7:
		return lang.Unary{Op: rapid.SampledFrom(c12PreOps).Draw(rt, "pre"), X: c12Tree(rt, depth-1, ternaryOK)}
	case 8:
		return lang.Index{X: c12Tree(rt, depth-1, ternaryOK), I: c12Tree(rt, depth-1, ternaryOK)}
	case 9:
		n := rapid.IntRange(0, 2).Draw(rt, "nargs")
		args := make([]lang.Expr, n)
		for i := range args {
			args[i] = c12Tree(rt, depth-1, ternaryOK)
		}
		return lang.Call{Fn: rapid.SampledFrom([]string{"f", "len", "g"}).Draw(rt, "fn"), Args: args}
	case 10:
		return lang.Dot{X: c12Tree(rt, depth-1, ternaryOK), N: rapid.SampledFrom([]string{"k", "name"}).Draw(rt, "dot")}
	}
	if ternaryOK {
		// no ternary inside a ternary (arms, and - left open by the README - the condition)
		return lang.Ternary{C: c12Tree(rt, depth-1, false), A: c12Tree(rt, depth-1, false), B: c12Tree(rt, depth-1, false)}
	}
	return lang.Binary{Op: "+", L: c12Tree(rt, depth-1, false), R: c12Tree(rt, depth-1, false)}
}

// addParens wraps random subtrees in redundant parentheses.
func addParens(rt *rapid.T, e lang.Expr) lang.Expr {
	wrap := func(x lang.Expr) lang.Expr {
		if gen.Uniform(rt, "paren", 4) == 0 {
			return lang.Paren{X: x}
		}
		return x
	}
	switch x := e.(type) {
	case lang.Binary:
		return wrap(lang.Binary{Op: x.Op, L: addParens(rt, x.L), R: addParens(rt, x.R)})
	case lang.Unary:
		return wrap(lang.Unary{Op: x.Op, X: addParens(rt, x.X)})
	case lang.Index:
		return wrap(lang.Index{X: addParens(rt, x.X), I: addParens(rt, x.I)})
	case lang.Dot:
		return wrap(lang.Dot{X: addParens(rt, x.X), N: x.N})
	case lang.Call:
		args := make([]lang.Expr, len(x.Args))
		for i, a := range x.Args {
			args[i] = addParens(rt, a)
		}
		return wrap(lang.Call{Fn: x.Fn, Args: args})
	case lang.Ternary:
		return wrap(lang.Ternary{C: addParens(rt, x.C), A: addParens(rt, x.A), B: addParens(rt, x.B)})
	}
	return wrap(e)
}

func countOps(e lang.Expr, levels map[int]bool) int {
	switch x := e.(type) {
	case lang.Binary:
		levels[opLevel[x.Op]] = true
		return 1 + countOps(x.L, levels) + countOps(x.R, levels)
	case lang.Unary:
		levels[lvlPrefix] = true
		return 1 + countOps(x.X, levels)
	case lang.Index:
		levels[lvlPostfix] = true
		return 1 + countOps(x.X, levels) + countOps(x.I, levels)
	case lang.Dot:
		levels[lvlPostfix] = true
		return 1 + countOps(x.X, levels)
	case lang.Call:
		n := 0
		for _, a := range x.Args {
			n += countOps(a, levels)
		}
		return n
	case lang.Ternary:
		levels[lvlTernary] = true
		return 1 + countOps(x.C, levels) + countOps(x.A, levels) + countOps(x.B, levels)
	case lang.Paren:
		return countOps(x.X, levels)
	}
	return 0
}

func TestC12Trees(t *testing.T) {
	defer silenceAs("trees")()
	col := evid.New("C12", "trees", "")
	vars := map[string]lang.Value{"a": lang.Int(2), "b": lang.Int(3), "c": lang.Int(5), "d": lang.Int(7), "e": lang.Int(11),
		"p": lang.Float(0.1), "q": lang.Float(0.2), "r": lang.Float(0.3), "big": lang.Float(1e16), "top": lang.Int(math.MaxInt64)}
	rapidCheck(t, col, func(rt *rapid.T) {
		tree := c12Tree(rt, rapid.IntRange(2, scale(5, 6)).Draw(rt, "depth"), true)
		if gen.Uniform(rt, "consttree", 4) == 0 {
			// literals only: the grouping is decided while the script is prepared
			// (constant folding), intermediate results below zero and beyond 16 bits
			tree = gen.ConstTree(rt, rapid.IntRange(2, 4).Draw(rt, "constdepth"))
			col.Class("literal-only-tree")
		}
		minimal := minimalText(tree)
		full := lang.ExprText(tree)
		redundant := minimalText(addParens(rt, tree))
		want := minimal
		if !hasContainerLiteral(tree) {
			want = shapeText(tree)
		}
		for _, txt := range []string{minimal, redundant, full} {
			if hasContainerLiteral(tree) {
				break // the printed shape of container literals is not modelled; their meaning is (below)
			}
			sc := &ShapeCase{Prop: "C12", Kind: "shape", Text: txt, Shape: want}
			if err := runShape(sc); err != nil {
				sc.Msg = err.Error()
				violation(rt, "C12", sc, "%v", err)
			}
		}
		// meaning: the printings agree with each other and with the model
		m := lang.NewMachine()
		eng.ModelHost(m)
		m.Host["f"] = func(m *lang.Machine, args []lang.Value) (lang.Value, error) {
			return lang.Int(int64(len(args)) + 1), nil
		}
		m.Host["g"] = func(m *lang.Machine, args []lang.Value) (lang.Value, error) {
			return lang.Array(lang.Int(4), lang.Int(6), lang.Int(8)), nil
		}
		for k, v := range vars {
			m.Globals[k] = v
		}
		exp := expectFromModel(m, &lang.Program{Stmts: []lang.Stmt{lang.Return{X: tree}}})
		sqrtFold := openFinding("C03-sqrt-fold") && gen.HasSqrtFold(tree)
		if sqrtFold {
			col.Excluded("known:sqrt-fold (run without optimizer only)")
		}
		// where the expression stands, and what the parser has been through
		// before it gets there, does not change how it groups
		surroundings := []string{"return %s;", "return %s;", "zz = %s; return zz;", "function zf() { return %s; }\nreturn zf();", "if ( true ) { return %s; }\nreturn \"no\";",
			"function zt(q) { return q ? 1 : 2; }\nzu = zt(a) ? b : c;\nreturn %s;", "function zt(q) { if ( q ) { return [q][0] / 2; } return (q) ? -q : q / 1; }\nreturn %s;",
			"zq = [a, b][1] / 2 - -c;\nzr = a ? (b) : [c];\nreturn %s;", "foreach zi in [1] { return %s; }", "switch ( 1 ) { case 1 { return %s; } }\nreturn \"no\";"}
		// ... nor does what delimits it: brackets, braces, commas, the colon of a pair
		surroundings = append(surroundings, "zz = [%s]; return zz[0];", "zz = {\"k\": %s}; return zz[\"k\"];", "return [1, %s, 2][1];", "zz = {\"j\": 0, \"k\": %s, \"l\": 2}; return zz.k;")
		if !exp.Unspec && (exp.Err || exp.Val.K == lang.KInt || exp.Val.K == lang.KString) {
			// as the key of a pair (a value that can be a key comes back as the key)
			surroundings = append(surroundings, "foreach zk, zv in {%s: 1} { return zk; }\nreturn \"no\";", "foreach zk, zv in {%s: 1} { return zk; }\nreturn \"no\";")
		}
		surround := surroundings[gen.Uniform(rt, "surroundings", len(surroundings))]
		for _, txt := range []string{minimal, redundant, full} {
			c := &Case{Prop: "C12", Kind: "meaning", Script: fmt.Sprintf(surround, txt), Vars: vars, Exp: exp,
				HostVals: map[string]lang.Value{}, NoOpt: rapid.Bool().Draw(rt, "noopt") || sqrtFold, Hazard: lang.HasRange(tree), HashOrder: lang.HasMultiHash(tree)}
			if err := runMeaning(c); err != nil {
				violation(rt, "C12", c, "%v", err)
			}
		}
		levels := map[int]bool{}
		nops := countOps(tree, levels)
		col.Case(want, nops >= 2 && len(levels) >= 2, func() interface{} {
			return map[string]string{"minimal": minimal, "redundant": redundant, "full": full, "tree": want}
		})
	})
}

// runMeaning runs a C12 meaning case: host functions f (argument count + 1)
// and g (a fixed array) are provided.
func runMeaning(c *Case) error {
	if c.Exp.Unspec && (c.Hazard || strings.HasPrefix(c.Exp.Why, "resource:")) {
		return nil
	}
	if c.Exp.Err && c.Hazard && c.HashOrder {
		return nil
	}
	r := eng.NewRunner(c.Script)
	for _, k := range sortedKeys(c.Vars) {
		r.E.SetVariable(k, eng.ToObject(c.Vars[k]))
	}
	r.E.AddFunction("f", func(args []objectT) objectT { return eng.ToObject(lang.Int(int64(len(args)) + 1)) })
	r.E.AddFunction("g", func(args []objectT) objectT {
		return eng.ToObject(lang.Array(lang.Int(4), lang.Int(6), lang.Int(8)))
	})
	perr, pan := r.Prepare(c.NoOpt)
	if pan != nil {
		return fmt.Errorf("Prepare panicked: %v", pan)
	}
	if perr != nil {
		return checkResult(eng.Result{PrepareErr: perr}, c.Exp)
	}
	return checkResult(r.Execute(map[string]interface{}{}), c.Exp)
}

func init() {
	replayers["C12/meaning"] = func(raw []byte) error {
		var c Case
		if err := jsonUnmarshal(raw, &c); err != nil {
			return err
		}
		c.fix()
		return runMeaning(&c)
	}
}

// nested ternaries must be rejected
func runNested(c *ShapeCase) error {
	r := eng.NewRunner(c.Text)
	err, pan := r.Prepare(false)
	if pan != nil {
		return fmt.Errorf("Prepare panicked on %q: %v", c.Text, pan)
	}
	if err == nil {
		return fmt.Errorf("a nested ternary was accepted: %q", c.Text)
	}
	return nil
}

func TestC12Nested(t *testing.T) {
	defer silenceAs("nested")()
	col := evid.New("C12", "nested", "")
	rapidCheck(t, col, func(rt *rapid.T) {
		inner := lang.Ternary{C: c12Tree(rt, 1, false), A: c12Tree(rt, 1, false), B: c12Tree(rt, 1, false)}
		// bury the inner ternary inside an arm of the outer one
		var bury func(e lang.Expr, d int) lang.Expr
		bury = func(e lang.Expr, d int) lang.Expr {
			if d <= 0 {
				return e
			}
			switch gen.Uniform(rt, "bury", 6) {
			case 0:
				return lang.Paren{X: bury(e, d-1)}
			case 1:
				return lang.Call{Fn: "f", Args: []lang.Expr{lang.Name{N: "a"}, bury(e, d-1)}}
			case 2:
				return lang.ArrayLit{Elems: []lang.Expr{bury(e, d-1), lang.Lit{V: lang.Int(1)}}}
			case 3:
				return lang.Index{X: lang.Name{N: "a"}, I: bury(e, d-1)}
			case 4:
				return lang.Binary{Op: "+", L: lang.Lit{V: lang.Int(1)}, R: lang.Paren{X: bury(e, d-1)}}
			}
			return lang.Unary{Op: "-", X: lang.Paren{X: bury(e, d-1)}}
		}
		depth := rapid.IntRange(0, 3).Draw(rt, "burydepth")
		arm := bury(inner, depth)
		if depth == 0 && gen.Uniform(rt, "bare", 2) == 0 {
			arm = lang.Paren{X: inner}
		}
		var outer lang.Expr
		if rapid.Bool().Draw(rt, "whicharm") {
			outer = lang.Ternary{C: lang.Name{N: "c"}, A: arm, B: lang.Name{N: "d"}}
		} else {
			outer = lang.Ternary{C: lang.Name{N: "c"}, A: lang.Name{N: "d"}, B: arm}
		}
		text := "x = " + lang.ExprText(outer) + ";"
		if depth == 0 && rapid.Bool().Draw(rt, "raw") {
			text = "x = c ? d : a ? b : e;"
		}
		sc := &ShapeCase{Prop: "C12", Kind: "nested", Text: text}
		if err := runNested(sc); err != nil {
			sc.Msg = err.Error()
			violation(rt, "C12", sc, "%v", err)
		}
		col.Case(text, true, func() interface{} { return map[string]string{"must_be_rejected": text} })
	})
}

func hasContainerLiteral(e lang.Expr) bool {
	switch x := e.(type) {
	case lang.ArrayLit, lang.HashLit:
		return true
	case lang.Paren:
		return hasContainerLiteral(x.X)
	case lang.Binary:
		return hasContainerLiteral(x.L) || hasContainerLiteral(x.R)
	case lang.Unary:
		return hasContainerLiteral(x.X)
	case lang.Index:
		return hasContainerLiteral(x.X) || hasContainerLiteral(x.I)
	case lang.Dot:
		return hasContainerLiteral(x.X)
	case lang.Ternary:
		return hasContainerLiteral(x.C) || hasContainerLiteral(x.A) || hasContainerLiteral(x.B)
	case lang.Call:
		for _, a := range x.Args {
			if hasContainerLiteral(a) {
				return true
			}
		}
	}
	return false
}
