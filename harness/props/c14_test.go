package props

import (
	"fmt"
	"math"
	"math/big"
	"strconv"
	"strings"
	"testing"
	"time"
	"unicode/utf8"

	"github.com/skx/evalfilter/v2/lexer"
	"github.com/skx/evalfilter/v2/token"
	"pgregory.net/rapid"

	"verif/harness/eng"
	"verif/harness/evid"
	"verif/harness/gen"
	"verif/harness/lang"
)

// C14 — literals mean what they spell; layout and comments mean nothing.

type tok struct {
	T string `json:"type"`
	L string `json:"literal"`
}

func lexAll(src string, limit int) ([]tok, bool) {
	l := lexer.New(src)
	var out []tok
	for i := 0; i < limit; i++ {
		tk := l.NextToken()
		out = append(out, tok{string(tk.Type), tk.Literal})
		if tk.Type == token.EOF || tk.Type == token.ILLEGAL {
			return out, true
		}
	}
	return out, false
}

// LexCase: source text and the token stream it must produce.
type LexCase struct {
	Prop string `json:"prop"`
	Kind string `json:"kind"`
	Src  string `json:"src"`
	Hex  bool   `json:"hex,omitempty"` // Src holds hex-encoded bytes (not valid UTF-8)
	Want []tok  `json:"want"`
	Msg  string `json:"message,omitempty"`
}

func runLex(c *LexCase) error {
	got, done := lexAll(c.Src, len(c.Want)+5)
	if !done {
		return fmt.Errorf("token stream of %q does not end after %d tokens", c.Src, len(c.Want)+5)
	}
	if len(got) != len(c.Want) {
		return fmt.Errorf("%q: expected %d tokens %v, got %d tokens %v", c.Src, len(c.Want), c.Want, len(got), got)
	}
	for i := range got {
		if got[i] != c.Want[i] {
			return fmt.Errorf("%q: token %d: expected %v, got %v", c.Src, i, c.Want[i], got[i])
		}
	}
	return nil
}

func init() {
	replayers["C14/lex"] = func(raw []byte) error {
		var c LexCase
		if err := jsonUnmarshal(raw, &c); err != nil {
			return err
		}
		return runLex(&c)
	}
	replayers["C14/term"] = func(raw []byte) error {
		var c LexCase
		if err := jsonUnmarshal(raw, &c); err != nil {
			return err
		}
		if c.Hex {
			var b []byte
			fmt.Sscanf(c.Src, "%x", &b)
			return runTermination(string(b))
		}
		return runTermination(c.Src)
	}
}

var textRunes = []rune("abcnrtxyzNRT019 _-+*.,;:(){}[]<>=!?&|~%#@^$`é狐犬ß😀  �\n\r\t\"'\\/")

// drawRune: a pool rune, any valid code point, or a code point whose low
// bits are those of a character the lexer treats specially.
func drawRune(rt *rapid.T, label string) rune {
	switch gen.Uniform(rt, label+"_cls", 8) {
	case 0:
		specials := []rune{'n', 'r', 't', '"', '\\', '\'', '/', '\n', ' ', '0', 'i', 'm', '.', '*', '(', '?'}
		low := specials[gen.Uniform(rt, label+"_low", len(specials))]
		var r rune
		if rapid.Bool().Draw(rt, label+"_wide") {
			r = rune(rapid.IntRange(1, 0x10ff).Draw(rt, label+"_hi"))<<8 | low
		} else {
			r = rune(rapid.IntRange(1, 0x10).Draw(rt, label+"_hi"))<<16 | low
		}
		if utf8.ValidRune(r) {
			return r
		}
		return 'é'
	case 1:
		r := rune(rapid.IntRange(0x80, 0x10ffff).Draw(rt, label+"_any"))
		if utf8.ValidRune(r) {
			return r
		}
		return '狐'
	}
	return textRunes[gen.Uniform(rt, label, len(textRunes))]
}

func drawText(rt *rapid.T, label string, max int) string {
	n := rapid.IntRange(0, max).Draw(rt, label+"_len")
	rs := make([]rune, 0, n)
	for i := 0; i < n; i++ {
		rs = append(rs, drawRune(rt, label))
	}
	return string(rs)
}

// spellString spells s as a string literal with random, valid escapes.
func spellString(rt *rapid.T, s string) (string, int) {
	q := rapid.SampledFrom([]rune{'"', '\''}).Draw(rt, "quote")
	var b strings.Builder
	escapes := 0
	b.WriteRune(q)
	cont := func() {
		if gen.Uniform(rt, "cont", 12) == 0 {
			b.WriteString("\\\n")
			escapes++
		}
	}
	for _, r := range s {
		cont()
		switch {
		case r == q || r == '\\':
			b.WriteRune('\\')
			b.WriteRune(r)
			escapes++
		case r == '\n' && rapid.Bool().Draw(rt, "esc_n"):
			b.WriteString(`\n`)
			escapes++
		case r == '\r' && rapid.Bool().Draw(rt, "esc_r"):
			b.WriteString(`\r`)
			escapes++
		case r == '\t' && rapid.Bool().Draw(rt, "esc_t"):
			b.WriteString(`\t`)
			escapes++
		case r == '"' && rapid.Bool().Draw(rt, "esc_q"):
			b.WriteString(`\"`)
			escapes++
		case r != 'n' && r != 'r' && r != 't' && r != '\n' && gen.Uniform(rt, "gratuitous", 6) == 0:
			// any other escaped character is taken literally
			b.WriteRune('\\')
			b.WriteRune(r)
			escapes++
		default:
			b.WriteRune(r)
		}
	}
	cont()
	b.WriteRune(q)
	return b.String(), escapes
}

func TestC14Strings(t *testing.T) {
	defer silenceAs("strings")()
	col := evid.New("C14", "strings", "round trips and metamorphic relations of the lexer: (1) random Unicode text -> random valid spelling (either quote style; \\n \\r \\t \\\" \\\\ or the raw character; gratuitous \\c; backslash-newline continuations) -> STRING token literal and Execute('return <lit>;') equal the text; (2) regexp patterns -> spelling with / and \\ escaped, other characters optionally escaped, flags from i/m with repeats -> REGEXP token '(?flags)'+pattern, the value printed by Execute, and for valid patterns agreement of ~= with the host's regexp library; illegal flags rejected; (3) integer spellings with leading zeros and d+.d+ decimals denote their strconv value, '1..3' is a range, '1.x' is INT PERIOD IDENT; (4) '/' is division after ) ] identifier integer float and starts a regexp otherwise (reference rule); (5) re-rendering a token sequence with random spaces, tabs, CR, LF and // comments gives the same (type, literal) stream and, for valid programs, the same result; (6) tokenisation of arbitrary bytes (NUL, invalid UTF-8) ends within runes+1 tokens; non-trivial = the literal contains an escape, non-ASCII rune, quote or slash / the layout differs from canonical in >=2 places; distinct by source text")
	replayKnown(t, col, "C14")
	rapidCheck(t, col, func(rt *rapid.T) {
		s := drawText(rt, "text", 12)
		if gen.Uniform(rt, "crlf", 5) == 0 {
			// line ends of every kind, also right behind a backslash
			seqs := []string{"\r\n", "\\\r\n", "\r", "\n\r", "\\\n", "\\\r", "\r\n\r\n"}
			rs := []rune(s)
			at := rapid.IntRange(0, len(rs)).Draw(rt, "crlfat")
			s = string(rs[:at]) + seqs[gen.Uniform(rt, "crlfseq", len(seqs))] + string(rs[at:])
		}
		lit, escapes := spellString(rt, s)
		src := "x = " + lit + ";"
		lc := &LexCase{Prop: "C14", Kind: "lex", Src: src, Want: []tok{{"IDENT", "x"}, {"=", "="}, {"STRING", s}, {";", ";"}, {"EOF", ""}}}
		if err := runLex(lc); err != nil {
			lc.Msg = err.Error()
			violation(rt, "C14", lc, "%v", err)
		}
		c := &Case{Prop: "C14", Kind: "string-value", Script: "return " + lit + ";", Exp: Expect{Val: lang.Str(s)}, NoOpt: rapid.Bool().Draw(rt, "noopt")}
		if err := runCase(c); err != nil {
			violation(rt, "C14", c, "%v", err)
		}
		nt := escapes > 0 || len(s) != utf8.RuneCountInString(s) || strings.ContainsAny(s, `"'/\`)
		col.Case(src, nt, func() interface{} { return map[string]string{"source": src, "denotes": s} })
	})
}

func TestC14Regexps(t *testing.T) {
	defer silenceAs("regexps")()
	col := evid.New("C14", "regexps", "")
	rapidCheck(t, col, func(rt *rapid.T) {
		var p string
		if rapid.Bool().Draw(rt, "validpat") {
			p = rapid.SampledFrom([]string{"a", "^a+$", "b|c", "[0-9]+", `\d+`, `a\.b`, "x/y", "(ab)+", "狐", `\s*é`, "a b", `^\w+@\w+$`, "(?:a)b", "(?i)q", "(?i", "(?", "(?im", "(?:a", "(?P<n>a)", "(?:é)", "(?:狐|x)b", "(?i)é",
				"a{2}", "a{1,2}b", "b{0}a", "a{2,}", "é{2}", "a{,2}", "{", "a{", "}{", "a{x}", "12{1}", "a=b", "=a", "a-b", "a,b", "a:b", "a;b", "#a", "a&b", "a%d", "a~", "<a>", "a'b", "a\"b", "a!"}).Draw(rt, "pat")
		} else {
			p = drawText(rt, "pattext", 8)
			p = strings.ReplaceAll(p, "\x00", "")
		}
		if p == "" {
			p = "a"
		}
		flags := rapid.SampledFrom([]string{"", "i", "m", "im", "mi", "ii", "imi", "mm"}).Draw(rt, "flags")
		var b strings.Builder
		b.WriteByte('/')
		escapes := 0
		for _, r := range p {
			switch {
			case r == '/' || r == '\\':
				b.WriteRune('\\')
				b.WriteRune(r)
				escapes++
			case gen.Uniform(rt, "esc", 8) == 0:
				b.WriteRune('\\')
				b.WriteRune(r)
				escapes++
			default:
				b.WriteRune(r)
			}
		}
		b.WriteByte('/')
		b.WriteString(flags)
		lit := b.String()
		uniq := ""
		for _, f := range flags {
			if !strings.ContainsRune(uniq, f) {
				uniq += string(f)
			}
		}
		full := p
		if uniq != "" {
			full = "(?" + uniq + ")" + p
		}
		src := "x = " + lit + ";"
		lc := &LexCase{Prop: "C14", Kind: "lex", Src: src, Want: []tok{{"IDENT", "x"}, {"=", "="}, {"REGEXP", full}, {";", ";"}, {"EOF", ""}}}
		if err := runLex(lc); err != nil {
			lc.Msg = err.Error()
			violation(rt, "C14", lc, "%v", err)
		}
		// the value the script sees
		c := &Case{Prop: "C14", Kind: "regexp-value", Script: "return " + lit + ";", Exp: Expect{Val: lang.Regexp(full)}}
		if err := runCase(c); err != nil {
			violation(rt, "C14", c, "%v", err)
		}
		// matching agrees with the host's regexp library (model)
		subj := rapid.SampledFrom([]string{"a", "aaa", "b", "A", "x/y", "12", "a.b", "ab ab", "狐犬", "é", "user@host", "", "Q", "aa", "a{2}", "ab", "aab", "éé", "a{", "{", "a=b", "a-b", "a,b", "#a", "a%d", "11", "a{1,2}b"}).Draw(rt, "subject")
		m := lang.NewMachine()
		prog := &lang.Program{Stmts: []lang.Stmt{lang.Return{X: lang.Binary{Op: "~=", L: lang.Lit{V: lang.Str(subj)}, R: lang.Lit{V: lang.Regexp(full)}}}}}
		mc := &Case{Prop: "C14", Kind: "regexp-match", Script: "return " + lang.QuoteString(subj) + " ~= " + lit + ";", Exp: expectFromModel(m, prog)}
		if err := runCase(mc); err != nil {
			violation(rt, "C14", mc, "%v", err)
		}
		// an illegal flag is rejected
		bad := "x = /" + "a" + "/" + flags + rapid.SampledFrom([]string{"x", "g", "I", "é"}).Draw(rt, "badflag") + ";"
		rc := &RejectCase{Prop: "C13", Kind: "fragment", Script: bad, Why: "illegal regexp flag"}
		if err := runReject(rc); err != nil {
			rc.Prop = "C14"
			violation(rt, "C14", rc, "%v", err)
		}
		col.Case(src, escapes > 0 || strings.ContainsAny(p, `/\`) || len(p) != utf8.RuneCountInString(p), func() interface{} {
			return map[string]string{"source": src, "denotes": full}
		})
	})
}

func TestC14Numbers(t *testing.T) {
	defer silenceAs("numbers")()
	col := evid.New("C14", "numbers", "")
	rapidCheck(t, col, func(rt *rapid.T) {
		zeros := strings.Repeat("0", rapid.IntRange(0, 3).Draw(rt, "zeros"))
		digits := rapid.StringMatching(`[0-9]{1,18}`).Draw(rt, "digits")
		if rapid.Bool().Draw(rt, "boundary") {
			digits = rapid.SampledFrom([]string{"0", "7", "65534", "65535", "65536", "9223372036854775807", "4294967296", "10", "007"}).Draw(rt, "bdigits")
		}
		spelling := zeros + digits
		if gen.Uniform(rt, "beyond", 8) == 0 {
			// literals that no integer / no finite float can hold: they denote no
			// value the machine has, so they are refused - or (for integers) become
			// the nearest float; never another number
			big := rapid.SampledFrom([]string{"9223372036854775808", "9223372036854775809", "9223372036854775817", "18446744073709551615", "18446744073709551616", "18446744073709551617",
				"99999999999999999999", "1" + strings.Repeat("0", 30), "1" + strings.Repeat("0", 308) + ".5", "2" + strings.Repeat("0", 308) + ".0", "1" + strings.Repeat("9", 400) + ".25",
				"17976931348623157" + strings.Repeat("0", 292) + ".0", "17976931348623159" + strings.Repeat("0", 292) + ".0"}).Draw(rt, "bigliteral")
			sp := zeros + big
			script := rapid.SampledFrom([]string{"return %s;", "return [%s > 0, %s];", "x = %s; return x;", "return - %s;", "if ( %s > 0 ) { return %s; } return \"not positive\";"}).Draw(rt, "bigform")
			script = strings.ReplaceAll(script, "%s", sp)
			c := &Case{Prop: "C14", Kind: "beyond-range", Script: script, NoOpt: rapid.Bool().Draw(rt, "noopt"), History: "none"}
			res := eng.Quick(script, nil, nil, c.NoOpt)
			col.Class("literal-beyond-range")
			if res.Panic != nil {
				violation(rt, "C14", c, "panic: %v", res.Panic)
			}
			if res.PrepareErr == nil && res.Err == nil {
				// accepted: then it must be the number that was written
				ok := false
				if f, _, err := new(bigFloat).SetPrec(2000).Parse(big, 10); err == nil {
					nearest, _ := f.Float64()
					var got []lang.Value
					if res.Val.K == lang.KArray {
						got = res.Val.A
					} else {
						got = []lang.Value{res.Val}
					}
					for _, g := range got {
						if g.K == lang.KFloat && !math.IsInf(g.F, 0) && (g.F == nearest || g.F == -nearest) {
							ok = true
						}
					}
				}
				if !ok {
					violation(rt, "C14", c, "the literal %s is beyond what the machine can hold, yet the script was accepted and gave %s", clip(sp, 60), res.Val.Describe())
				}
			}
			col.Case(script, true, func() interface{} { return map[string]string{"script": clip(script, 200)} })
			return
		}
		switch gen.Uniform(rt, "form", 5) {
		case 4:
			// several literals in one script, close to each other: each denotes
			// its own value
			bases := []int64{1 << 53, 1<<53 + 1, 1 << 62, math.MaxInt64 - 2, 65534, 65536, 1000000000000000, 16777216, 3, 4611686018427387905}
			base := bases[gen.Uniform(rt, "nbase", len(bases))]
			if rapid.Bool().Draw(rt, "nrand") {
				base = rapid.Int64Range(3, math.MaxInt64-2).Draw(rt, "nrbase")
			}
			n := rapid.IntRange(2, 4).Draw(rt, "nlits")
			var parts []string
			want := lang.Array()
			for i := 0; i < n; i++ {
				v := base + rapid.Int64Range(-2, 2).Draw(rt, "nd")
				z := strings.Repeat("0", rapid.IntRange(0, 2).Draw(rt, "nz"))
				if v < 1<<53 && gen.Uniform(rt, "asfloat", 3) == 0 {
					frac := rapid.SampledFrom([]string{"0", "5", "25", "000", "0000001"}).Draw(rt, "nfrac")
					sp := z + strconv.FormatInt(v, 10) + "." + frac
					f, err := strconv.ParseFloat(sp, 64)
					if err != nil {
						return
					}
					parts = append(parts, sp)
					want.A = append(want.A, lang.Float(f))
				} else {
					parts = append(parts, z+strconv.FormatInt(v, 10))
					want.A = append(want.A, lang.Int(v))
				}
			}
			spelling = strings.Join(parts, ", ")
			c := &Case{Prop: "C14", Kind: "number-values", Script: "return [" + spelling + "];", Exp: Expect{Val: want}, NoOpt: rapid.Bool().Draw(rt, "noopt")}
			if err := runCase(c); err != nil {
				violation(rt, "C14", c, "%v", err)
			}
			col.Class("several-neighbouring-literals")
		case 0, 1:
			v, err := strconv.ParseInt(spelling, 10, 64)
			if err != nil {
				return
			}
			lc := &LexCase{Prop: "C14", Kind: "lex", Src: "x = " + spelling + ";", Want: []tok{{"IDENT", "x"}, {"=", "="}, {"INT", spelling}, {";", ";"}, {"EOF", ""}}}
			if err := runLex(lc); err != nil {
				lc.Msg = err.Error()
				violation(rt, "C14", lc, "%v", err)
			}
			c := &Case{Prop: "C14", Kind: "int-value", Script: "return " + spelling + ";", Exp: Expect{Val: lang.Int(v)}, NoOpt: rapid.Bool().Draw(rt, "noopt")}
			if err := runCase(c); err != nil {
				violation(rt, "C14", c, "%v", err)
			}
		case 2:
			frac := rapid.StringMatching(`[0-9]{1,12}`).Draw(rt, "frac")
			sp := spelling + "." + frac
			f, err := strconv.ParseFloat(sp, 64)
			if err != nil {
				return
			}
			lc := &LexCase{Prop: "C14", Kind: "lex", Src: "x = " + sp + ";", Want: []tok{{"IDENT", "x"}, {"=", "="}, {"FLOAT", sp}, {";", ";"}, {"EOF", ""}}}
			if err := runLex(lc); err != nil {
				lc.Msg = err.Error()
				violation(rt, "C14", lc, "%v", err)
			}
			c := &Case{Prop: "C14", Kind: "float-value", Script: "return " + sp + ";", Exp: Expect{Val: lang.Float(f)}, NoOpt: rapid.Bool().Draw(rt, "noopt")}
			if err := runCase(c); err != nil {
				violation(rt, "C14", c, "%v", err)
			}
			spelling = sp
		default:
			other := rapid.StringMatching(`[0-9]{1,3}`).Draw(rt, "hi")
			lc := &LexCase{Prop: "C14", Kind: "lex", Src: spelling + ".." + other + " " + spelling + ".x", Want: []tok{{"INT", spelling}, {"..", ".."}, {"INT", other},
				{"INT", spelling}, {".", "."}, {"IDENT", "x"}, {"EOF", ""}}}
			if err := runLex(lc); err != nil {
				lc.Msg = err.Error()
				violation(rt, "C14", lc, "%v", err)
			}
		}
		col.Case(spelling, len(spelling) >= 2, func() interface{} { return map[string]string{"spelling": spelling} })
	})
}

// ---- slash rule and layout ----

type srcTok struct {
	text string // canonical spelling
	t    tok    // token it must produce
}

func stringTok(s string) srcTok { return srcTok{lang.QuoteString(s), tok{"STRING", s}} }
func regexpTok(full string) srcTok {
	return srcTok{lang.QuoteRegexp(full), tok{"REGEXP", full}}
}

var fixedToks = []srcTok{
	{"(", tok{"(", "("}}, {")", tok{")", ")"}}, {"[", tok{"[", "["}}, {"]", tok{"]", "]"}}, {"{", tok{"{", "{"}}, {"}", tok{"}", "}"}},
	{",", tok{",", ","}}, {";", tok{";", ";"}}, {"?", tok{"?", "?"}}, {":", tok{":", ":"}},
	{"=", tok{"=", "="}}, {"==", tok{"==", "=="}}, {"!=", tok{"!=", "!="}}, {"<", tok{"<", "<"}}, {"<=", tok{"<=", "<="}}, {">", tok{">", ">"}}, {">=", tok{">=", ">="}},
	{"+", tok{"+", "+"}}, {"-", tok{"-", "-"}}, {"*", tok{"*", "*"}}, {"%", tok{"%", "%"}}, {"**", tok{"**", "**"}}, {"++", tok{"++", "++"}}, {"--", tok{"--", "--"}},
	{"+=", tok{"+=", "+="}}, {"-=", tok{"-=", "-="}}, {"*=", tok{"*=", "*="}}, {"&&", tok{"&&", "&&"}}, {"||", tok{"||", "||"}}, {"!", tok{"!", "!"}},
	{"~=", tok{"~=", "~="}}, {"!~", tok{"!~", "!~"}}, {"..", tok{"..", ".."}}, {".", tok{".", "."}}, {"√", tok{"√", "√"}},
	{"if", tok{"IF", "if"}}, {"else", tok{"ELSE", "else"}}, {"while", tok{"WHILE", "while"}}, {"for", tok{"FOR", "for"}}, {"foreach", tok{"FOREACH", "foreach"}},
	{"in", tok{"IN", "in"}}, {"return", tok{"RETURN", "return"}}, {"function", tok{"FUNCTION", "function"}}, {"local", tok{"LOCAL", "local"}},
	{"switch", tok{"switch", "switch"}}, {"case", tok{"case", "case"}}, {"default", tok{"DEFAULT", "default"}}, {"true", tok{"TRUE", "true"}}, {"false", tok{"FALSE", "false"}},
	{"abc", tok{"IDENT", "abc"}}, {"x1", tok{"IDENT", "x1"}}, {"$Field", tok{"IDENT", "$Field"}}, {"_u", tok{"IDENT", "_u"}}, {"狐", tok{"IDENT", "狐"}},
	{"0", tok{"INT", "0"}}, {"42", tok{"INT", "42"}}, {"65535", tok{"INT", "65535"}}, {"1.5", tok{"FLOAT", "1.5"}}, {"0.25", tok{"FLOAT", "0.25"}},
}

var divisionAfter = map[string]bool{")": true, "]": true, "IDENT": true, "INT": true, "FLOAT": true}

// drawTokens draws a token soup; slashes are resolved by the reference rule.
func drawTokens(rt *rapid.T, n int) []srcTok {
	var out []srcTok
	prev := ""
	for i := 0; i < n; i++ {
		var st srcTok
		switch gen.Uniform(rt, "tk", 12) {
		case 0:
			st = stringTok(drawText(rt, "s", 5))
		case 1:
			// a slash: division or the start of a regexp, by what precedes it
			if divisionAfter[prev] {
				if rapid.Bool().Draw(rt, "diveq") {
					st = srcTok{"/=", tok{"/=", "/="}}
				} else {
					st = srcTok{"/", tok{"/", "/"}}
				}
			} else {
				st = regexpTok(rapid.SampledFrom([]string{"a", "(?i)b c", "x/y", `\d+`, "(?m)^q"}).Draw(rt, "re"))
			}
		case 2:
			// names and numbers of any length: every character counts
			switch gen.Uniform(rt, "longk", 3) {
			case 0:
				n := rapid.SampledFrom([]int{1, 2, 31, 32, 33, 63, 64, 65, 66, 127, 128, 129, 255, 256, 257, 1000, 5000}).Draw(rt, "identlen")
				name := strings.Repeat("long_name_", n/10+1)[:n-1] + rapid.SampledFrom([]string{"a", "b", "Z", "_", "7"}).Draw(rt, "identtail")
				if name[0] == '7' {
					name = "q" + name[1:]
				}
				st = srcTok{name, tok{"IDENT", name}}
			case 1:
				n := rapid.SampledFrom([]int{1, 5, 40, 64, 65, 200}).Draw(rt, "uidentlen")
				name := strings.Repeat("狐é", n) + rapid.SampledFrom([]string{"犬", "x", "1"}).Draw(rt, "uidenttail")
				st = srcTok{name, tok{"IDENT", name}}
			default:
				n := rapid.SampledFrom([]int{18, 19, 20, 64, 65, 300}).Draw(rt, "zeros")
				num := strings.Repeat("0", n) + rapid.SampledFrom([]string{"7", "12", "0"}).Draw(rt, "numtail")
				st = srcTok{num, tok{"INT", num}}
			}
		default:
			st = fixedToks[gen.Uniform(rt, "fixed", len(fixedToks))]
		}
		if st.t.T != "REGEXP" {
			// the lexer does not update its notion of "previous token" on a regexp
			prev = st.t.T
		}
		out = append(out, st)
	}
	return out
}

var tightPunct = map[string]bool{"(": true, ")": true, "[": true, "]": true, "{": true, "}": true, ",": true, ";": true, "?": true, ":": true}

// commentText draws what follows "//" up to (not including) the line feed
// that ends the comment: anything but a line feed and NUL - code, quotes,
// slashes, backslashes, carriage returns (the CR of a CR LF file, and bare
// ones), tabs, non-ASCII text.
func commentText(rt *rapid.T) string {
	if rapid.Bool().Draw(rt, "stockcomment") {
		return rapid.SampledFrom([]string{" comment", " x = 1; \"quote", " /* not a comment */", " 狐 //nested", "", "/", "//", " was: Count\r return 0;", " done\r", " a\rb", "\r", " \\", " it's", " \"", " x = /re", "\t}\t{", " ) ] }", " return false; }"}).Draw(rt, "comment")
	}
	parts := rapid.SliceOfN(rapid.SampledFrom([]string{" ", "a", "1", "\r", "\t", "\"", "'", "/", "\\", "*", ";", "{", "}", "(", ")", "=", "return", "狐", "é", "\v", "\f", "//", "√"}), 0, 10).Draw(rt, "commentparts")
	return strings.Join(parts, "")
}

// render prints the tokens with generated layout between them.
func render(rt *rapid.T, toks []srcTok, vary bool) (string, int) {
	var b strings.Builder
	changes := 0
	for i, st := range toks {
		if i > 0 {
			sep := " "
			if vary {
				switch gen.Uniform(rt, "sep", 8) {
				case 0:
					sep = "\n"
					changes++
				case 1:
					sep = " \t \r\n "
					changes++
				case 2:
					sep = " //" + commentText(rt) + "\n"
					changes++
				case 3:
					if (tightPunct[toks[i-1].t.T] || tightPunct[st.t.T]) && st.t.T != "REGEXP" && toks[i-1].t.T != "/" {
						sep = ""
						changes++
					}
				}
			}
			b.WriteString(sep)
		}
		b.WriteString(st.text)
	}
	return b.String(), changes
}

func wantToks(toks []srcTok) []tok {
	out := make([]tok, 0, len(toks)+1)
	for _, st := range toks {
		out = append(out, st.t)
	}
	return append(out, tok{"EOF", ""})
}

func TestC14Layout(t *testing.T) {
	defer silenceAs("layout")()
	col := evid.New("C14", "layout", "")
	rapidCheck(t, col, func(rt *rapid.T) {
		toks := drawTokens(rt, rapid.IntRange(1, 14).Draw(rt, "ntok"))
		want := wantToks(toks)
		canon, _ := render(rt, toks, false)
		varied, changes := render(rt, toks, true)
		for _, src := range []string{canon, varied} {
			lc := &LexCase{Prop: "C14", Kind: "lex", Src: src, Want: want}
			if err := runLex(lc); err != nil {
				lc.Msg = err.Error()
				violation(rt, "C14", lc, "%v", err)
			}
		}
		col.Case(varied, changes >= 2, func() interface{} { return map[string]string{"canonical": canon, "varied": varied} })
	})
}

// programs: re-rendered layouts behave the same
func TestC14ProgramLayout(t *testing.T) {
	defer silenceAs("proglayout")()
	col := evid.New("C14", "proglayout", "")
	rapidCheck(t, col, func(rt *rapid.T) {
		pr := gen.Program(rt, gen.ProgOpts{Depth: 3, Block: 3, Funcs: 1, Ternary: true, Switch: true, EarlyRet: true, IncDec: true, NoSqrtFold: true})
		text := lang.ProgramText(pr.P)
		l := lexer.New(text)
		var toks []srcTok
		for i := 0; i < 5000; i++ {
			tk := l.NextToken()
			if tk.Type == token.EOF || tk.Type == token.ILLEGAL {
				break
			}
			toks = append(toks, srcTok{tokenText(tk), tok{string(tk.Type), tk.Literal}})
		}
		varied, changes := render(rt, toks, true)
		c, _ := caseFromProg("C14", "program-layout", pr, false, "map")
		c.Script = varied
		if err := runCase(c); err != nil {
			violation(rt, "C14", c, "%v", err)
		}
		col.Case(varied, changes >= 2 && !c.Exp.Unspec, func() interface{} { return map[string]string{"script": clip(varied, 700)} })
	})
}

// ---- termination ----

func runTermination(src string) error {
	done := make(chan error, 1)
	go func() {
		defer func() {
			if p := recover(); p != nil {
				done <- fmt.Errorf("the lexer panicked on %q: %v", clip(src, 200), p)
			}
		}()
		limit := utf8.RuneCountInString(src) + 2
		l := lexer.New(src)
		for i := 0; i < limit; i++ {
			tk := l.NextToken()
			if tk.Type == token.EOF || tk.Type == token.ILLEGAL {
				done <- nil
				return
			}
		}
		done <- fmt.Errorf("the token stream of %q has not ended after %d tokens (runes+2)", clip(src, 200), limit)
	}()
	select {
	case err := <-done:
		return err
	case <-time.After(20 * time.Second):
		return fmt.Errorf("tokenisation of %q did not finish within 20 s", clip(src, 200))
	}
}

func TestC14Termination(t *testing.T) {
	defer silenceAs("termination")()
	col := evid.New("C14", "termination", "")
	hostile := []string{"\x00", "\"", "'", "/", "//", "\\", "\"\\", "/\\", "&", "|", "~", "√", "\xff\xfe", "1.", "1..", "a\x00b", "/a/\x00", "\"a\\\n", "// c", "0x", "..."}
	rapidCheck(t, col, func(rt *rapid.T) {
		var src string
		switch gen.Uniform(rt, "kind", 3) {
		case 0:
			src = string(rapid.SliceOfN(rapid.Byte(), 0, 40).Draw(rt, "bytes"))
		case 1:
			parts := rapid.SliceOfN(rapid.SampledFrom(hostile), 1, 8).Draw(rt, "hostile")
			src = strings.Join(parts, rapid.SampledFrom([]string{"", " ", "\n"}).Draw(rt, "join"))
		default:
			src = drawText(rt, "text", 30) + rapid.SampledFrom(hostile).Draw(rt, "tail")
		}
		if err := runTermination(src); err != nil {
			lc := &LexCase{Prop: "C14", Kind: "term", Src: src, Msg: err.Error()}
			violation(rt, "C14", lc, "%v", err)
		}
		col.Case(src, len(src) >= 2, func() interface{} { return map[string]string{"bytes": strconv.QuoteToASCII(src)} })
	})
	_ = eng.FieldOK
}

type bigFloat = big.Float
