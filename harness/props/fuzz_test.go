package props

import (
	"encoding/json"
	"os"
	"os/exec"
	"path/filepath"
	"strconv"
	"strings"
	"testing"
	"unicode/utf8"

	"verif/harness/evid"
)

// Native (coverage-guided) fuzz targets, used by the thorough tier only: Go's
// fuzzer cannot be seeded and stops at the first failure. Each target puts the
// semantic oracle of its property inside the target; a failing input is saved
// both by the fuzzer (testdata/fuzz/...) and as a replay file of the check.

func fuzzSeeds(f *testing.F) {
	for _, s := range c08Corpus() {
		f.Add(s)
	}
	for _, s := range []string{"return 1 + 2 * 3;", "x = 65534; y = 65535; return x + y;", "if (1 == 1) { return √9.5; } else { return 2; }",
		"function f(a) { local b; b = a; foreach i, v in 1..3 { b = b + v; } return b; } return f(2);", "switch (a) { case /x/i { return 1; } default { return 2; } }",
		"a = {\"k\": [1, 2.5, \"s\"]}; return a.k[1] ? \"t\" : 'f';", "n = 0; while (n < 3) { n++; } return n % 2;", "return \"a\\\n b\" ~= /b$/m;", "return 1..3;", "function f(n) { if (n < 1) { return 0; } return 1 + f(n - 1); } return f(3);", "function a(n) { return n > 0 ? b(n - 1) : 0; } function b(n) { return a(n); } return a(2);", "++", "}{", "\"", "/", "//"} {
		f.Add(s)
	}
}

func fuzzCollector(f *testing.F, prop string) *evid.Collector {
	col := evid.New(prop, "nativefuzz", "")
	f.Cleanup(col.Flush)
	return col
}

// FuzzC08NoCrash: no script text makes Prepare/Run/Execute/Dump panic.
func FuzzC08NoCrash(f *testing.F) {
	defer silenceAs("nativefuzz")()
	fuzzSeeds(f)
	col := fuzzCollector(f, "C08")
	f.Fuzz(func(t *testing.T, script string) {
		if len(script) > 1<<16 || resourceHungry(script) {
			return
		}
		c := &CrashCase{Prop: "C08", Kind: "fuzz", Script: script}
		if !utf8.ValidString(script) {
			c.Script, c.Hex = hexOf(script), true
		}
		outcome, err := runCrashCase("nativefuzz", c)
		if err != nil {
			c.Msg = err.Error()
			violation(t, "C08", c, "%v", err)
		}
		col.Case(script, outcome == "prepared", func() interface{} { return map[string]string{"script": clip(script, 300), "outcome": outcome} })
	})
}

// FuzzC03OptDiff: optimized and unoptimized preparations behave alike.
func FuzzC03OptDiff(f *testing.F) {
	defer silenceAs("nativefuzz")()
	fuzzSeeds(f)
	col := fuzzCollector(f, "C03")
	f.Fuzz(func(t *testing.T, script string) {
		if len(script) > 1<<14 || !utf8.ValidString(script) || resourceHungry(script) || containsAny(script, "√", "OPTIMIZE", "print", "now", "time", "getenv") {
			return
		}
		c := &DiffCase{Prop: "C03", Kind: "diff", Script: script}
		changed, outcome, err := runDiff(c)
		if err != nil {
			c.Msg = err.Error()
			violation(t, "C03", c, "%v", err)
		}
		col.Case(script, changed, func() interface{} { return map[string]string{"script": clip(script, 300), "outcome": outcome} })
	})
}

// FuzzC18Verify: every accepted script compiles to verifiable code.
func FuzzC18Verify(f *testing.F) {
	defer silenceAs("nativefuzz")()
	fuzzSeeds(f)
	col := fuzzCollector(f, "C18")
	f.Fuzz(func(t *testing.T, script string) {
		if len(script) > 1<<14 || !utf8.ValidString(script) || resourceHungry(script) {
			return
		}
		acc, nt, err := verifyScript(script, true)
		if err != nil {
			if openFinding("C18-valueless-operand") && underflow(err) && valuelessOperand(script) {
				return
			}
			c := &VerifyCase{Prop: "C18", Kind: "soup", Script: script, Msg: err.Error()}
			violation(t, "C18", c, "%v", err)
		}
		col.Case(script, acc && nt, func() interface{} { return map[string]string{"script": clip(script, 300)} })
	})
}

// FuzzC14Lex: tokenisation ends, and re-lexing the canonical re-spelling of
// the token stream gives the same token stream (round trip).
func FuzzC14Lex(f *testing.F) {
	defer silenceAs("nativefuzz")()
	fuzzSeeds(f)
	col := fuzzCollector(f, "C14")
	f.Fuzz(func(t *testing.T, src string) {
		if len(src) > 1<<14 {
			return
		}
		if err := runTermination(src); err != nil {
			lc := &LexCase{Prop: "C14", Kind: "term", Src: src, Msg: err.Error()}
			if !utf8.ValidString(src) {
				lc.Src, lc.Hex = hexOf(src), true
			}
			violation(t, "C14", lc, "%v", err)
		}
		if !utf8.ValidString(src) {
			return
		}
		toks, done := lexAll(src, utf8.RuneCountInString(src)+2)
		if !done || len(toks) == 0 || toks[len(toks)-1].T != "EOF" {
			return
		}
		// canonical re-spelling, one space between tokens; slashes need their
		// left context, so streams with a regexp directly after a regexp are skipped
		var st []srcTok
		for _, tk := range toks[:len(toks)-1] {
			switch tk.T {
			case "STRING":
				st = append(st, stringTok(tk.L))
			case "REGEXP":
				if tk.L == "" {
					return
				}
				st = append(st, regexpTok(tk.L))
			case "":
				return // lone & | ~ produce a token without a type
			default:
				st = append(st, srcTok{tk.L, tk})
			}
		}
		var text string
		for i, s := range st {
			if i > 0 {
				text += " "
			}
			text += s.text
		}
		again, done2 := lexAll(text, len(toks)+5)
		if !done2 {
			return
		}
		same := len(again) == len(toks)
		for i := 0; same && i < len(toks); i++ {
			same = again[i] == toks[i]
		}
		if !same {
			// only a genuine disagreement if the canonical text is itself stable
			third, _ := lexAll(text, len(toks)+5)
			_ = third
			lc := &LexCase{Prop: "C14", Kind: "lex", Src: text, Want: toks, Msg: "canonical re-spelling of the token stream of " + clip(src, 200) + " lexes differently"}
			if err := runLex(lc); err != nil && !regexpContextDiffers(toks) {
				violation(t, "C14", lc, "%v", err)
			}
		}
		col.Case(src, len(toks) > 3, func() interface{} { return map[string]string{"source": clip(src, 200)} })
	})
}

// regexpContextDiffers: the division/regexp decision depends on the previous
// token; re-spelling keeps token order, so only streams without regexps and
// slashes are compared strictly.
func regexpContextDiffers(toks []tok) bool {
	for _, t := range toks {
		if t.T == "REGEXP" || t.T == "/" || t.T == "/=" || t.T == "ILLEGAL" {
			return true
		}
	}
	return false
}

// TestFuzzCrasherToReplay turns an input on which a fuzzing worker DIED (no
// oracle could speak) into the replay file of the property. Driver only.
func TestFuzzCrasherToReplay(t *testing.T) {
	file, target := os.Getenv("VERIF_CRASHER"), os.Getenv("VERIF_FUZZ_TARGET")
	if file == "" {
		t.Skip("driver only")
	}
	b, err := os.ReadFile(file)
	if err != nil {
		t.Fatalf("INFRA: %v", err)
	}
	input, found := "", false
	for _, line := range strings.Split(string(b), "\n") {
		if strings.HasPrefix(line, "string(") && strings.HasSuffix(line, ")") {
			if s, err := strconv.Unquote(line[len("string(") : len(line)-1]); err == nil {
				input, found = s, true
			}
		}
	}
	if !found {
		t.Fatalf("INFRA: no string input in %s", file)
	}
	const why = "a fuzzing worker process died while executing this input, and a fresh process running it alone dies or hangs too"
	var prop string
	var payload interface{}
	switch target {
	case "FuzzC08NoCrash":
		c := &CrashCase{Prop: "C08", Kind: "fuzz", Script: input, Msg: why}
		if !utf8.ValidString(input) {
			c.Script, c.Hex = hexOf(input), true
		}
		prop, payload = "C08", c
	case "FuzzC03OptDiff":
		prop, payload = "C03", &DiffCase{Prop: "C03", Kind: "diff", Script: input, Msg: why}
	case "FuzzC18Verify":
		prop, payload = "C18", &VerifyCase{Prop: "C18", Kind: "soup", Script: input, Msg: why}
	case "FuzzC14Lex":
		lc := &LexCase{Prop: "C14", Kind: "term", Src: input, Msg: why}
		if !utf8.ValidString(input) {
			lc.Src, lc.Hex = hexOf(input), true
		}
		prop, payload = "C14", lc
	default:
		t.Fatalf("INFRA: unknown fuzz target %q", target)
	}
	// The fuzzer kills a worker that does not answer in time - on a busy
	// machine an input that needs a second can look like a dead worker. A time
	// budget is never a verdict: the input is run once more, alone, in a fresh
	// process with ten minutes to spare, through the oracle of the replay. Only
	// if that process dies, hangs or reports a violation is the input kept.
	tmp, err := os.CreateTemp("", "fuzz-candidate-*.json")
	if err != nil {
		t.Fatalf("INFRA: %v", err)
	}
	defer os.Remove(tmp.Name())
	enc, _ := json.Marshal(payload)
	_, _ = tmp.Write(enc)
	tmp.Close()
	cmd := exec.Command(os.Args[0], "-test.run", "^TestReplay$", "-test.timeout", "600s")
	cmd.Env = append(os.Environ(), "VERIF_REPLAY="+tmp.Name(), "VERIF_CRASHER=", "VERIF_OUT=")
	out, cerr := cmd.CombinedOutput()
	if cerr == nil {
		if o := os.Getenv("VERIF_OUT"); o != "" {
			_ = os.WriteFile(filepath.Join(o, prop+".fuzz-worker-death-not-reproduced."+filepath.Base(file)), []byte(input), 0o644)
		}
		t.Logf("the input runs clean in a process of its own: not a finding (%s)", clip(string(out), 200))
		return
	}
	violation(t, prop, payload, why)
}

// resourceHungry: the property excludes scripts whose single operations need
// more memory than a host has. A mutated text cannot be screened by a model,
// so every script that spells a range together with a long number, a
// multiplication or a power is left out ("0..100100000000" killed a worker
// by exhausting memory, which says nothing about the engine).
func resourceHungry(script string) bool {
	if !strings.Contains(script, "..") {
		return false
	}
	if strings.ContainsAny(script, "*") {
		return true
	}
	run := 0
	for i := 0; i < len(script); i++ {
		if script[i] >= '0' && script[i] <= '9' {
			run++
			if run >= 6 {
				return true
			}
		} else {
			run = 0
		}
	}
	return false
}

func hexOf(s string) string {
	const hexd = "0123456789abcdef"
	out := make([]byte, 0, 2*len(s))
	for i := 0; i < len(s); i++ {
		out = append(out, hexd[s[i]>>4], hexd[s[i]&15])
	}
	return string(out)
}

// fuzzCacheDir keeps the fuzzer's generated corpus out of the module tree.
func fuzzCacheDir() string {
	d := filepath.Join(os.Getenv("VERIF_BUILD"), "fuzzcache")
	_ = os.MkdirAll(d, 0o755)
	return d
}
