package props

import (
	"fmt"
	"math"
	"testing"

	"pgregory.net/rapid"

	"verif/harness/eng"
	"verif/harness/evid"
	"verif/harness/gen"
	"verif/harness/lang"
)

// C01 — expressions evaluate to the value the language defines, or an error.

var tableValues = map[lang.Kind][]lang.Value{
	lang.KInt: {lang.Int(0), lang.Int(1), lang.Int(-1), lang.Int(2), lang.Int(3), lang.Int(7), lang.Int(10),
		lang.Int(65534), lang.Int(65535), lang.Int(65536), lang.Int(-2147483648), lang.Int(9007199254740993),
		lang.Int(math.MaxInt64), lang.Int(math.MinInt64)},
	lang.KFloat: {lang.Float(0), lang.Float(0.5), lang.Float(-0.5), lang.Float(1), lang.Float(1.5), lang.Float(2.5),
		lang.Float(3), lang.Float(-2), lang.Float(65534), lang.Float(0.1), lang.Float(1e15), lang.Float(1e-7),
		// values only a host (or arithmetic) can make: minus zero, not-a-number, the infinities
		lang.Float(math.Copysign(0, -1)), lang.Float(math.NaN()), lang.Float(math.Inf(1)), lang.Float(math.Inf(-1))},
	lang.KString: {lang.Str(""), lang.Str("a"), lang.Str("b"), lang.Str("A"), lang.Str("abc"), lang.Str("10"),
		lang.Str("9"), lang.Str(" a "), lang.Str("é"), lang.Str("狐犬"), lang.Str("a\nb"), lang.Str("true"),
		// host data that is not valid UTF-8 (Latin-1 text, a stray byte): never a literal
		lang.Str("caf\xe9"), lang.Str("\xffa\xfe")},
	lang.KBool: {lang.Bool(true), lang.Bool(false)},
	lang.KNull: {lang.Null()},
	lang.KArray: {lang.Array(), lang.Array(lang.Int(1)), lang.Array(lang.Int(1), lang.Str("a")),
		lang.Array(lang.Array(lang.Int(1))), lang.Array(lang.Str("a"), lang.Str("b"), lang.Str("abc")),
		lang.Array(lang.Float(1.5), lang.Bool(true), lang.Null(), lang.Str("1"))},
	lang.KHash: {lang.Hash(), lang.Hash(lang.Pair{K: lang.Str("a"), V: lang.Int(1)}),
		lang.Hash(lang.Pair{K: lang.Int(1), V: lang.Str("x")}, lang.Pair{K: lang.Float(2.5), V: lang.Str("y")}, lang.Pair{K: lang.Str("1"), V: lang.Str("z")})},
	lang.KRegexp: {lang.Regexp("a"), lang.Regexp("(?i)^A"), lang.Regexp("b+"), lang.Regexp("^$")},
}

var tableBinOps = []string{"+", "-", "*", "/", "%", "**", "<", "<=", ">", ">=", "==", "!=", "~=", "!~", "&&", "||", "in", "..", "[]", "."}
var tableUnOps = []string{"-", "!", "√"}

func isNumKind(k lang.Kind) bool { return k == lang.KInt || k == lang.KFloat }

// fullCell: pairs for which every boundary value is tried on both sides.
func fullCell(op string, lk, rk lang.Kind) bool {
	switch {
	case isNumKind(lk) && isNumKind(rk):
		return true
	case lk == lang.KString && rk == lang.KString:
		return true
	case lk == lang.KString && rk == lang.KRegexp:
		return true
	case lk == lang.KBool && rk == lang.KBool:
		return true
	case op == "&&" || op == "||":
		return true
	case op == "in" && rk == lang.KArray:
		return true
	case op == "[]" && (lk == lang.KArray || lk == lang.KString || lk == lang.KHash):
		return true
	}
	return false
}

type tableCell struct {
	op     string
	l, r   lang.Value
	unary  bool
	prov   int
	cellID string
}

func enumerateTable(allProv bool) []tableCell {
	var out []tableCell
	n := 0
	for _, op := range tableBinOps {
		for _, lk := range lang.AllKinds {
			for _, rk := range lang.AllKinds {
				ls, rs := tableValues[lk], tableValues[rk]
				if !fullCell(op, lk, rk) {
					if len(ls) > 3 {
						ls = ls[:3]
					}
					if len(rs) > 3 {
						rs = rs[:3]
					}
				}
				if op == "." {
					if rk != lang.KString {
						continue
					}
					rs = []lang.Value{lang.Str("a"), lang.Str("zz")}
				}
				for _, l := range ls {
					for _, r := range rs {
						id := fmt.Sprintf("%s|%d|%d", op, lk, rk)
						if allProv {
							for p := 0; p < 4; p++ {
								out = append(out, tableCell{op: op, l: l, r: r, prov: p, cellID: id})
							}
						} else {
							out = append(out, tableCell{op: op, l: l, r: r, prov: n % 4, cellID: id})
						}
						n++
					}
				}
			}
		}
	}
	for _, op := range tableUnOps {
		for _, k := range lang.AllKinds {
			for _, v := range tableValues[k] {
				id := fmt.Sprintf("u%s|%d", op, k)
				for p := 0; p < 4; p++ {
					out = append(out, tableCell{op: op, l: v, unary: true, prov: p, cellID: id})
				}
			}
		}
	}
	return out
}

// operandExpr spells one operand for the chosen provenance and records what
// the script needs (variables, fields, prelude). Falls back to a literal /
// SetVariable when the value cannot travel the chosen way.
func operandExpr(c *Case, prelude *string, name string, v lang.Value, prov int) (lang.Expr, string) {
	switch prov {
	case 0: // literal
		if gen.LiteralOK(v) {
			return lang.ValueExpr(v), "literal"
		}
	case 2: // field of the host object
		if v.K == lang.KNull && c.Obj.Mode != "map" {
			// null by absence: a name that is neither a variable nor a field
			return lang.Name{N: "Absent" + name}, "absent-name"
		}
		if eng.FieldOK(v, false) && !(c.Obj.Mode != "map" && v.K == lang.KNull) {
			fname := "F" + name
			c.Obj.Fields = append(c.Obj.Fields, eng.Field{Name: fname, V: v})
			return lang.Name{N: fname}, "field"
		}
	case 3: // assigned in the script from a literal
		if gen.LiteralOK(v) {
			*prelude += name + " = " + lang.ExprText(lang.ValueExpr(v)) + ";\n"
			return lang.Name{N: name}, "assigned"
		}
	}
	c.Vars[name] = v
	return lang.Name{N: name}, "setvariable"
}

func TestC01Table(t *testing.T) {
	defer silenceAs("table")()
	col := evid.New("C01", "table", "exhaustive operator x type-pair x boundary-value table (4 provenances) plus random nestings; "+
		"non-trivial = an operator applied to two computed operands (table: every cell; random: >=1 binary operator evaluated); distinct by script text + inputs")
	defer col.Flush()
	replayKnown(t, col, "C01")
	cells := enumerateTable(thorough())
	si, sn := shardIndex()
	cellsSeen := map[string]bool{}
	for i, tc := range cells {
		if i%sn != si {
			continue
		}
		// optimizer setting and object mode are decorrelated from the cell
		// order (provenances rotate with the cell number; a plain alternation
		// would tie "literal" to "optimized" for ever)
		mix := evid.Digest(fmt.Sprint("cell", i))
		c := &Case{Prop: "C01", Kind: "table", Vars: map[string]lang.Value{}, Obj: &eng.ObjSpec{Mode: "map"}, NoOpt: mix&1 == 1}
		if mix&2 == 2 {
			c.Obj.Mode = "struct"
		}
		m := lang.NewMachine()
		prelude := ""
		var expr lang.Expr
		var val lang.Value
		var err error
		le, lp := operandExpr(c, &prelude, "l", tc.l, tc.prov)
		prov := lp
		if tc.unary {
			expr = lang.Unary{Op: tc.op, X: le}
			val, err = m.UnOp(tc.op, tc.l)
			if openFinding("C03-sqrt-fold") && tc.op == "√" && lp == "literal" && gen.FoldsToSquare(lang.Lit{V: tc.l}) {
				// known finding C03-sqrt-fold: keep away from it by construction
				col.Excluded("known:sqrt-of-a-perfect-square-literal")
				continue
			}
		} else {
			re, rp := operandExpr(c, &prelude, "r", tc.r, tc.prov)
			prov += "/" + rp
			switch tc.op {
			case "[]":
				expr = lang.Index{X: le, I: re}
				val, err = m.IndexOp(tc.l, tc.r)
			case ".":
				expr = lang.Dot{X: le, N: tc.r.S}
				val, err = m.IndexOp(tc.l, tc.r)
			default:
				expr = lang.Binary{Op: tc.op, L: le, R: re}
				val, err = m.BinOp(tc.op, tc.l, tc.r)
			}
		}
		if c.Obj.Mode == "struct" && !c.Obj.StructOK() {
			c.Obj.Mode = "map"
		}
		c.Script = prelude + "return " + lang.ExprText(expr) + ";"
		c.Exp = Expect{Quirk: m.Quirk, Val: val}
		if err != nil {
			if lang.IsKind(err, lang.ErrRuntime) {
				c.Exp.Err = true
			} else {
				c.Exp.Unspec = true
				col.Excluded("unspecified:" + err.Error())
			}
			c.Exp.Why = err.Error()
		}
		if e := runCase(c); e != nil {
			violation(t, "C01", c, "%v", e)
		}
		cellsSeen[tc.cellID] = true
		col.Class("prov:" + prov)
		if c.Exp.Err {
			col.Class("outcome:error")
		} else if c.Exp.Unspec {
			col.Class("outcome:unspecified")
		} else {
			col.Class("outcome:value")
		}
		cc := c
		col.Case(fmt.Sprintf("%s|%v|%v|%v", c.Script, c.Vars, c.Obj, c.NoOpt), true, func() interface{} { return sampleOf(cc) })
	}
	col.Set("table_cells_hit", len(cellsSeen))
	col.Set("table_evaluations", col.Evals())
	col.Set("table_exhaustive", true)
}

func sampleOf(c *Case) map[string]interface{} {
	s := map[string]interface{}{"script": c.Script, "noopt": c.NoOpt}
	if c.History != "" && c.History != "none" {
		s["history"] = c.History
	}
	if c.Obj != nil && len(c.Obj.Fields) > 0 {
		f := map[string]string{}
		for _, fl := range c.Obj.Fields {
			f[fl.Name] = fl.V.Describe()
		}
		s["object_"+c.Obj.Mode] = f
	}
	if len(c.Vars) > 0 {
		s["variables"] = describeGlobals(c.Vars)
	}
	switch {
	case c.Exp.Unspec:
		s["expect"] = "unspecified: " + c.Exp.Why
	case c.Exp.Err:
		s["expect"] = "error: " + c.Exp.Why
	default:
		s["expect"] = c.Exp.Val.Describe()
	}
	if len(c.Exp.Trace) > 0 {
		s["trace"] = c.Exp.Trace
	}
	return s
}

// drawBindings draws named values of mixed kinds and provenances.
func drawBindings(t *rapid.T, n int, c *Case, prelude *string) []gen.Binding {
	var out []gen.Binding
	for i := 0; i < n; i++ {
		v := gen.Value(t, fmt.Sprintf("b%d", i), gen.ValueOpts{Depth: 1, Regexp: true, NoKeyTies: true})
		prov := rapid.IntRange(1, 3).Draw(t, fmt.Sprintf("prov%d", i))
		name := fmt.Sprintf("v%d", i)
		e, from := operandExpr(c, prelude, name, v, prov)
		out = append(out, gen.Binding{Name: e.(lang.Name).N, V: v, From: from})
	}
	return out
}

func TestC01Random(t *testing.T) {
	defer silenceAs("random")()
	col := evid.New("C01", "random", "")
	avoided := 0
	maxDepth := scale(4, 6)
	rapidCheck(t, col, func(rt *rapid.T) {
		c := &Case{Prop: "C01", Kind: "random", Vars: map[string]lang.Value{}, Obj: &eng.ObjSpec{Mode: "map"}}
		if rapid.Bool().Draw(rt, "struct") {
			c.Obj.Mode = "ptr"
		}
		c.NoOpt = rapid.Bool().Draw(rt, "noopt")
		prelude := ""
		binds := drawBindings(rt, rapid.IntRange(0, 5).Draw(rt, "nbind"), c, &prelude)
		if c.Obj.Mode != "map" && !c.Obj.StructOK() {
			c.Obj.Mode = "map"
		}
		env := &gen.ExprEnv{Names: binds, NoSqrtFold: openFinding("C03-sqrt-fold"), SqrtFoldAvoided: &avoided}
		k := rapid.SampledFrom(lang.AllKinds).Draw(rt, "kind")
		depth := rapid.IntRange(1, maxDepth).Draw(rt, "depth")
		expr := env.Expr(rt, k, depth)
		if gen.Uniform(rt, "consttree", 6) == 0 {
			// integer-literal-only arithmetic in every nesting shape
			expr = gen.ConstTree(rt, rapid.IntRange(1, 4).Draw(rt, "constdepth"))
			col.Class("constant-tree")
		}
		c.Script = prelude + "return " + lang.ExprText(expr) + ";"

		m := lang.NewMachine()
		for _, b := range binds {
			switch b.From {
			case "field":
				m.Fields[b.Name] = b.V
			default:
				m.Globals[b.Name] = b.V
			}
		}
		// twins: for every number written in the expression, an earlier statement
		// may hold the same value written as the other kind of number (100000 and
		// 100000.0) or as a string - constants that print alike are different constants
		if gen.Uniform(rt, "twins", 3) == 0 {
			n := 0
			lang.Walk(expr, func(e lang.Expr) {
				l, ok := e.(lang.Lit)
				if !ok || n >= 3 {
					return
				}
				var twin lang.Value
				switch {
				case l.V.K == lang.KInt && l.V.I > -(1<<52) && l.V.I < 1<<52:
					twin = lang.Float(float64(l.V.I))
				case l.V.K == lang.KFloat && l.V.F == math.Trunc(l.V.F) && math.Abs(l.V.F) < 1<<52:
					twin = lang.Int(int64(l.V.F))
				case l.V.K == lang.KString && len(l.V.S) > 0 && len(l.V.S) < 6:
					twin = lang.Regexp(l.V.S)
					if !gen.LiteralOK(twin) {
						return
					}
				default:
					return
				}
				prelude = fmt.Sprintf("tw%d = %s;\n", n, lang.ExprText(lang.ValueExpr(twin))) + prelude
				n++
			})
			if n > 0 {
				col.Class("with-print-alike-twin-constants")
				c.Script = prelude + "return " + lang.ExprText(expr) + ";"
			}
		}
		c.Exp = expectFromModel(m, &lang.Program{Stmts: []lang.Stmt{lang.Return{X: expr}}})
		c.Hazard = lang.HasRange(expr)
		c.HashOrder = lang.HasMultiHash(expr)
		if e := runCase(c); e != nil {
			violation(rt, "C01", c, "%v", e)
		}
		switch {
		case c.Exp.Unspec:
			col.Excluded("unspecified")
			col.Class("outcome:unspecified")
		case c.Exp.Err:
			col.Class("outcome:error")
		default:
			col.Class("outcome:value:" + c.Exp.Val.Type())
		}
		if c.Exp.Quirk {
			col.Class("quirk-cell-used")
		}
		col.Class(fmt.Sprintf("depth:%d", depth))
		cc := c
		col.Case(fmt.Sprintf("%s|%v|%v|%v", c.Script, c.Vars, c.Obj, c.NoOpt), m.Stats.BinOps > 0 && !c.Exp.Unspec, func() interface{} { return sampleOf(cc) })
	})
	col.Set("sqrt_fold_avoided", avoided)
}
