package props

import (
	"fmt"
	"math"
	"sort"
	"strings"
	"testing"
	"time"
	_ "time/tzdata"

	"pgregory.net/rapid"

	"verif/harness/eng"
	"verif/harness/evid"
	"verif/harness/gen"
	"verif/harness/lang"
)

// C17 — built-in functions keep their documented contracts.

var tzNames = []string{"UTC", "Europe/Helsinki", "America/New_York", "Asia/Kolkata", "Australia/Lord_Howe", "Pacific/Apia", "-", "Nowhere/Atlantis", "Europe/Helsinki ", "../../etc/passwd"}

func init() {
	// the process's own local zone is fixed now, before any case changes TZ:
	// it is what the host's time library falls back to when $TZ names a zone
	// it cannot load
	_ = time.Now().Local().Hour()
}

func numArg(rt *rapid.T, label string) lang.Value {
	switch gen.Uniform(rt, label+"_k", 6) {
	case 0:
		return lang.Int(rapid.Int64Range(-9, 9).Draw(rt, label))
	case 1:
		return lang.Int(rapid.Int64Range(-200, 2000).Draw(rt, label))
	case 2:
		return lang.Int(gen.Int(rt, label))
	case 3:
		return lang.Float(float64(rapid.Int64Range(-80, 400).Draw(rt, label)) / 4)
	case 4:
		return lang.Float(gen.Float(rt, label))
	}
	return lang.Int(rapid.SampledFrom([]int64{2, 10, 9, 100, 99, -2, -10, 5, 1}).Draw(rt, label))
}

// neighbours draws n numbers within a few units of one base, the base being
// anywhere in the integer range (where floats no longer tell neighbours
// apart) or a float next to an integer.
func neighbours(rt *rapid.T, label string, n int) []lang.Value {
	bases := []int64{0, 9, 99, 65534, 1 << 31, 1 << 52, 1 << 53, 1<<53 + 1, 1 << 60, 1 << 62, math.MaxInt64 - 4, -(1 << 53), -(1 << 62), math.MinInt64 + 5, 4611686018427387905}
	base := bases[gen.Uniform(rt, label+"_base", len(bases))]
	if rapid.Bool().Draw(rt, label+"_rand") {
		base = rapid.Int64Range(math.MinInt64+5, math.MaxInt64-4).Draw(rt, label+"_rbase")
	}
	out := make([]lang.Value, n)
	for i := range out {
		d := rapid.Int64Range(-3, 3).Draw(rt, label+"_d")
		if base > -(1<<50) && base < 1<<50 && gen.Uniform(rt, label+"_f", 4) == 0 {
			out[i] = lang.Float(float64(base+d) + float64(rapid.IntRange(-2, 2).Draw(rt, label+"_q"))/4)
		} else {
			out[i] = lang.Int(base + d)
		}
	}
	return out
}

func anyArg(rt *rapid.T, label string) lang.Value {
	v := gen.Value(rt, label, gen.ValueOpts{Depth: 1, Regexp: true, NoKeyTies: true})
	return v
}

var builtinProfiles = []string{"between", "min", "max", "sort", "reverse", "split", "join", "len", "lower", "upper", "trim", "string",
	"int", "float", "type", "match", "replace", "keys", "hour", "minute", "seconds", "day", "month", "year", "weekday", "wrong", "sorttwice"}

func TestC17(t *testing.T) {
	defer silenceAs("builtins")()
	col := evid.New("C17", "builtins", "per built-in argument generators (numbers with different digit counts, signs and int/float mixes; arrays of mixed values with/without the case flag; arbitrary strings and separators incl. empty and multi-byte; every value type; patterns and subjects; instants between year 1 and 9999 in 6 zones and with TZ unset; every wrong arity 0-4 and wrong argument types), arguments passed as literals, variables or fields; oracle: reference implementation of each built-in written from the README (sort/reverse with tied keys: ordered-permutation predicate; in-language laws between==(lo<=v&&v<=hi), min<=max, join(split(s,d),d)==s, sort leaves its input unchanged); non-trivial = arguments are not all single-digit non-negative integers / the string has >=2 runes / the zone is not UTC; distinct by script + inputs")
	replayKnown(t, col, "C17")
	rapidCheck(t, col, func(rt *rapid.T) {
		c := &Case{Prop: "C17", Kind: "builtin", Vars: map[string]lang.Value{}, Obj: &eng.ObjSpec{Mode: rapid.SampledFrom([]string{"map", "struct", "ptr"}).Draw(rt, "mode")}}
		c.NoOpt = rapid.Bool().Draw(rt, "noopt")
		m := lang.NewMachine()
		eng.ModelHost(m)
		prelude := ""
		nArg := 0
		arg := func(v lang.Value) lang.Expr {
			nArg++
			name := fmt.Sprintf("a%d", nArg)
			e, from := operandExpr(c, &prelude, name, v, rapid.IntRange(0, 3).Draw(rt, "prov"))
			switch from {
			case "field":
				m.Fields["F"+name] = v
			case "setvariable", "assigned":
				m.Globals[name] = v
			}
			return e
		}
		fn := rapid.SampledFrom(builtinProfiles).Draw(rt, "fn")
		nontrivial := true
		sortFold := false
		var ret lang.Expr
		call := func(name string, vs ...lang.Value) lang.Expr {
			as := make([]lang.Expr, len(vs))
			for i, v := range vs {
				as[i] = arg(v)
			}
			return lang.Call{Fn: name, Args: as}
		}
		smallNonNeg := func(vs ...lang.Value) bool {
			for _, v := range vs {
				if v.K != lang.KInt || v.I < 0 || v.I > 9 {
					return false
				}
			}
			return true
		}
		switch fn {
		case "between":
			v, lo, hi := numArg(rt, "v"), numArg(rt, "lo"), numArg(rt, "hi")
			if gen.Uniform(rt, "neigh", 3) == 0 {
				nb := neighbours(rt, "nb", 3)
				v, lo, hi = nb[0], nb[1], nb[2]
				col.Class("neighbouring-arguments")
			}
			if rapid.Bool().Draw(rt, "near") {
				v = rapid.SampledFrom([]lang.Value{lo, hi, v}).Draw(rt, "edge")
			}
			nontrivial = !smallNonNeg(v, lo, hi)
			if rapid.Bool().Draw(rt, "law") {
				ev, elo, ehi := arg(v), arg(lo), arg(hi)
				ret = lang.Binary{Op: "==", L: lang.Call{Fn: "between", Args: []lang.Expr{ev, elo, ehi}},
					R: lang.Binary{Op: "&&", L: lang.Binary{Op: "<=", L: elo, R: ev}, R: lang.Binary{Op: "<=", L: ev, R: ehi}}}
			} else {
				ret = call("between", v, lo, hi)
			}
		case "min", "max":
			a, b := numArg(rt, "a"), numArg(rt, "b")
			if gen.Uniform(rt, "neigh", 3) == 0 {
				nb := neighbours(rt, "nb", 2)
				a, b = nb[0], nb[1]
				col.Class("neighbouring-arguments")
			}
			nontrivial = !smallNonNeg(a, b)
			switch gen.Uniform(rt, "mmform", 3) {
			case 0:
				ret = call(fn, a, b)
			case 1:
				ea, eb := arg(a), arg(b)
				ret = lang.Binary{Op: "<=", L: lang.Call{Fn: "min", Args: []lang.Expr{ea, eb}}, R: lang.Call{Fn: "max", Args: []lang.Expr{ea, eb}}}
			default:
				ea, eb := arg(a), arg(b)
				op := map[string]string{"min": "<=", "max": ">="}[fn]
				ret = lang.Binary{Op: "&&", L: lang.Binary{Op: op, L: lang.Call{Fn: fn, Args: []lang.Expr{ea, eb}}, R: ea},
					R: lang.Binary{Op: op, L: lang.Call{Fn: fn, Args: []lang.Expr{ea, eb}}, R: eb}}
			}
		case "sort", "reverse":
			arr := lang.Array()
			n := rapid.IntRange(0, 7).Draw(rt, "n")
			for i := 0; i < n; i++ {
				switch gen.Uniform(rt, "elk", 4) {
				case 0:
					arr.A = append(arr.A, lang.Str(gen.Word(rt, "w")))
				case 1:
					arr.A = append(arr.A, lang.Int(rapid.Int64Range(-20, 120).Draw(rt, "i")))
				case 2:
					arr.A = append(arr.A, lang.Str(rapid.SampledFrom([]string{"Surname", "forename", "steve", "Steve", "b", "B", "a"}).Draw(rt, "nm")))
				default:
					arr.A = append(arr.A, gen.Scalar(rt, "sc", lang.KFloat, lang.KBool, lang.KString))
				}
			}
			nontrivial = n >= 2
			ea := arg(arr)
			args := []lang.Expr{ea}
			if rapid.Bool().Draw(rt, "flag") {
				sortFold = rapid.Bool().Draw(rt, "fold")
				args = append(args, arg(lang.Bool(sortFold)))
			}
			// [sorted, input afterwards]
			ret = lang.ArrayLit{Elems: []lang.Expr{lang.Call{Fn: fn, Args: args}, ea}}
			if _, named := ea.(lang.Name); named && gen.Uniform(rt, "history", 3) == 0 {
				// the input has a history: it was printed, searched, iterated or
				// sorted before; and the result is printed as well
				use := []string{"string(%s)", "len(%s)", "(1 in %s)", "sort(%s)", "reverse(%s, true)", "join(%s, \"\")"}[gen.Uniform(rt, "histuse", 6)]
				prelude += "hist0 = " + fmt.Sprintf(use, lang.ExprText(ea)) + ";\n"
				ret = lang.ArrayLit{Elems: []lang.Expr{lang.Call{Fn: fn, Args: args}, ea, lang.Call{Fn: "string", Args: []lang.Expr{lang.Call{Fn: fn, Args: args}}}, lang.Call{Fn: "string", Args: []lang.Expr{ea}}}}
				col.Class("sort-input-with-history")
			}
		case "sorttwice":
			// several results of sort/reverse/min/max alive at the same time:
			// each is its own array
			mk := func(label string, n int) lang.Value {
				out := lang.Array()
				seen := map[string]bool{}
				for len(out.A) < n {
					var v lang.Value
					if rapid.Bool().Draw(rt, label+"str") {
						v = lang.Str(gen.Word(rt, label+"w") + fmt.Sprint(len(out.A)))
					} else {
						v = lang.Int(rapid.Int64Range(-50, 500).Draw(rt, label+"i"))
					}
					if k := strings.ToLower(v.Inspect()); !seen[k] {
						seen[k] = true
						out.A = append(out.A, v)
					}
				}
				return out
			}
			na := rapid.IntRange(1, 6).Draw(rt, "na")
			ea, eb, ec := arg(mk("A", na)), arg(mk("B", rapid.IntRange(0, na).Draw(rt, "nb"))), arg(mk("C", rapid.IntRange(0, na).Draw(rt, "nc")))
			ret = lang.ArrayLit{Elems: []lang.Expr{lang.Call{Fn: "sort", Args: []lang.Expr{ea}}, lang.Call{Fn: "reverse", Args: []lang.Expr{eb}},
				lang.Call{Fn: "sort", Args: []lang.Expr{ec}}, lang.Call{Fn: "reverse", Args: []lang.Expr{ea}}, ea, eb, ec}}
		case "split", "join":
			s := gen.Text(rt, "s")
			d := rapid.SampledFrom([]string{",", "", " ", "a", "ab", "狐", "\n", ", "}).Draw(rt, "d")
			nontrivial = len([]rune(s)) >= 2
			switch gen.Uniform(rt, "sjform", 3) {
			case 0:
				ret = call("split", lang.Str(s), lang.Str(d))
			case 1:
				if gen.Uniform(rt, "sjbytes", 4) == 0 {
					// a text of the host that is not valid UTF-8: cut and glued
					// together again it is the same bytes
					s = rapid.SampledFrom([]string{"a\xffb", "\xc3", "\xe7\x8b", "ab\x80\x80", "\xf0\x9f\x98", "é\xffé", "\xff", ",\xfe,", "a\xc3 \xa9b"}).Draw(rt, "sbytes") + s
					col.Class("split-join-law-on-text-that-is-not-utf8")
				}
				es, ed := arg(lang.Str(s)), arg(lang.Str(d))
				ret = lang.Binary{Op: "==", L: lang.Call{Fn: "join", Args: []lang.Expr{lang.Call{Fn: "split", Args: []lang.Expr{es, ed}}, ed}}, R: es}
			default:
				ret = call("join", gen.ArrayValue(rt, "ja", gen.ValueOpts{Depth: 1, NoKeyTies: true}), lang.Str(d))
			}
		case "len", "lower", "upper", "trim", "string", "int", "float", "type":
			var v lang.Value
			switch gen.Uniform(rt, "convk", 4) {
			case 0:
				v = lang.Str(rapid.SampledFrom([]string{"3", "-17", " 42 ", "3.13", "1e3", "0x10", "", "abc", "9223372036854775807", "9223372036854775808", "+5", "1_000", "inf", "NaN", "  A b  ", "ÀÉ狐", "ß"}).Draw(rt, "cs"))
			default:
				v = anyArg(rt, "cv")
			}
			nontrivial = len([]rune(v.Inspect())) >= 2
			ret = call(fn, v)
		case "match":
			ret = call("match", lang.Str(gen.Text(rt, "subj")), lang.Regexp(gen.RegexpPat(rt, "pat")))
		case "replace":
			ret = call("replace", lang.Str(gen.Text(rt, "subj")), lang.Regexp(gen.RegexpPat(rt, "pat")), lang.Str(rapid.SampledFrom([]string{"", "X", "-$0-", "狐"}).Draw(rt, "rep")))
		case "keys":
			ret = call("keys", gen.HashValue(rt, "kh", gen.ValueOpts{Depth: 1, NoKeyTies: true}))
		case "hour", "minute", "seconds", "day", "month", "year", "weekday":
			var ts int64
			switch gen.Uniform(rt, "tsk", 4) {
			case 0:
				ts = rapid.Int64Range(-62135596800, 253402300799).Draw(rt, "ts") // year 1 .. 9999
			case 1:
				ts = rapid.Int64Range(0, 2000000000).Draw(rt, "ts")
			case 2:
				ts = rapid.SampledFrom([]int64{0, -1, 86399, 86400, 1585443600, 1603587600, 1616893200, 1301616000, 951782400, 1709164800}).Draw(rt, "tsb") + rapid.Int64Range(-3, 3).Draw(rt, "tsd")
			default:
				ts = rapid.Int64Range(-1099511627776, 1099511627776).Draw(rt, "ts")
			}
			c.TZ = rapid.SampledFrom(tzNames).Draw(rt, "tz")
			loc := time.UTC
			if c.TZ != "-" {
				l, err := time.LoadLocation(c.TZ)
				if err != nil {
					// a zone the host cannot load: its time library then answers
					// in the process's local zone, every time it is asked
					l = time.Local
					col.Class("unloadable-zone")
				}
				loc = l
			}
			m.Loc = loc
			nontrivial = c.TZ != "UTC" && c.TZ != "-"
			if rapid.Bool().Draw(rt, "timefield") {
				// a time.Time field of the host object
				c.Obj.Fields = append(c.Obj.Fields, eng.Field{Name: "When", Go: "time", V: lang.Int(ts)})
				m.Fields["When"] = lang.Int(ts)
				ret = lang.Call{Fn: fn, Args: []lang.Expr{lang.Name{N: "When"}}}
			} else {
				ret = call(fn, lang.Int(ts))
			}
			if rapid.Bool().Draw(rt, "asktwice") {
				ret = lang.ArrayLit{Elems: []lang.Expr{ret, ret, lang.Call{Fn: "year", Args: []lang.Expr{lang.Lit{V: lang.Int(ts)}}}}}
			}
		case "wrong":
			name := rapid.SampledFrom([]string{"between", "min", "max", "sort", "reverse", "split", "join", "len", "lower", "upper", "trim", "string", "int", "float", "type", "match", "replace", "keys", "hour", "weekday", "year"}).Draw(rt, "wfn")
			n := rapid.IntRange(0, 4).Draw(rt, "arity")
			vs := make([]lang.Value, n)
			for i := range vs {
				vs[i] = anyArg(rt, "wa")
			}
			ret = call(name, vs...)
			col.Class("wrong:" + name)
		}
		if c.Obj.Mode != "map" && !c.Obj.StructOK() {
			c.Obj.Mode = "map"
		}
		prog := &lang.Program{Stmts: []lang.Stmt{lang.Return{X: ret}}}
		c.Script = prelude + lang.ProgramText(prog)
		c.Exp = expectFromModel(m, prog)
		sortTies := (fn == "sort" || fn == "reverse") && c.Exp.Unspec && strings.Contains(c.Exp.Why, "tied keys")
		var err error
		if sortTies {
			err = checkSortPredicate(c, fn, sortFold)
		} else {
			err = runCase(c)
		}
		if err != nil {
			violation(rt, "C17", c, "%v", err)
		}
		col.Class("fn:" + fn)
		if c.Exp.Unspec && !sortTies {
			col.Excluded("unspecified: " + clip(c.Exp.Why, 50))
		}
		if c.Exp.Quirk {
			col.Class("quirk-pinned")
		}
		cc := c
		col.Case(fmt.Sprint(c.Script, c.Vars, c.Obj, c.NoOpt, c.TZ), nontrivial && (!c.Exp.Unspec || sortTies), func() interface{} {
			s := sampleOf(cc)
			if cc.TZ != "" {
				s["TZ"] = cc.TZ
			}
			return s
		})
	})
}

// checkSortPredicate: the result [sorted, input] must be an ordered
// permutation of the input, and the input must be unchanged.
func checkSortPredicate(c *Case, fn string, fold bool) error {
	var obj interface{}
	if c.Obj != nil {
		obj = c.Obj.Build()
	}
	res := eng.Quick(c.Script, obj, c.Vars, c.NoOpt)
	if res.Panic != nil || res.PrepareErr != nil || res.Err != nil {
		return fmt.Errorf("unexpected failure: panic=%v prepare=%v run=%v", res.Panic, res.PrepareErr, res.Err)
	}
	if res.Val.K != lang.KArray || (len(res.Val.A) != 2 && len(res.Val.A) != 4) || res.Val.A[0].K != lang.KArray || res.Val.A[1].K != lang.KArray {
		return fmt.Errorf("expected [sorted, input], got %s", res.Val.Describe())
	}
	if len(res.Val.A) == 4 {
		// [sorted, input, string(sorted'), string(input)]: the input prints as
		// its elements say; the second sort result is an ordered permutation too
		// (ties may fall differently), so only its length class is comparable
		if res.Val.A[3].K != lang.KString || res.Val.A[3].S != res.Val.A[1].Inspect() {
			return fmt.Errorf("string(input) is %s although the input is %s", res.Val.A[3].Describe(), res.Val.A[1].Describe())
		}
		if res.Val.A[2].K != lang.KString || len(res.Val.A[2].S) != len(res.Val.A[0].Inspect()) {
			return fmt.Errorf("string(%s(input)) is %s although the result is %s", fn, res.Val.A[2].Describe(), res.Val.A[0].Describe())
		}
	}
	out, in := res.Val.A[0].A, res.Val.A[1].A
	if len(out) != len(in) {
		return fmt.Errorf("%s changed the number of elements: %s", fn, res.Val.Describe())
	}
	var a, b []string
	for i := range in {
		a = append(a, in[i].Describe())
		b = append(b, out[i].Describe())
	}
	sort.Strings(a)
	sort.Strings(b)
	if strings.Join(a, "\x00") != strings.Join(b, "\x00") {
		return fmt.Errorf("%s result is not a permutation of its input: %s", fn, res.Val.Describe())
	}
	for i := 1; i < len(out); i++ {
		k0, k1 := out[i-1].Inspect(), out[i].Inspect()
		if fold {
			k0, k1 = strings.ToLower(k0), strings.ToLower(k1)
		}
		ok := k0 <= k1
		if fn == "reverse" {
			ok = k0 >= k1
		}
		if !ok {
			return fmt.Errorf("%s result is not ordered at %d: %s", fn, i, res.Val.A[0].Describe())
		}
	}
	return nil
}
