package props

import (
	"context"
	"github.com/skx/evalfilter/v2/lexer"
	"github.com/skx/evalfilter/v2/token"
	"sync/atomic"
	"time"

	"bytes"
	"encoding/json"
	"fmt"
	"github.com/skx/evalfilter/v2/object"
	"os"
	"path/filepath"
	"reflect"
	"regexp"
	"sort"
	"strings"
	"sync"
	"testing"

	"pgregory.net/rapid"

	"verif/harness/eng"
	"verif/harness/evid"
	"verif/harness/lang"
)

// ---- environment ----

func thorough() bool { return os.Getenv("VERIF_TIER") == "thorough" }

// scale picks a bound by tier.
func scale(quick, th int) int {
	if thorough() {
		return th
	}
	return quick
}

func shard() string {
	s := os.Getenv("VERIF_SHARD")
	if s == "" {
		return "0"
	}
	return s
}

func shardIndex() (int, int) {
	var i, n int
	fmt.Sscanf(os.Getenv("VERIF_SHARD"), "%d", &i)
	fmt.Sscanf(os.Getenv("VERIF_SHARDS"), "%d", &n)
	if n <= 0 {
		n = 1
	}
	return i, n
}

// repoRoot is the tree under test (its example scripts serve as corpus).
func repoRoot() string {
	if r := os.Getenv("VERIF_REPO"); r != "" {
		return r
	}
	return "/repo"
}

func verifRoot() string {
	if r := os.Getenv("VERIF_ROOT"); r != "" {
		return r
	}
	return "/verif"
}

// TestMain silences the engine's own prints (print/printf, diagnostics).
func TestMain(m *testing.M) {
	code := m.Run()
	os.Exit(code)
}

var realStdout = os.Stdout
var devNull *os.File

// silence sends the engine's own prints (print/printf, diagnostics) to
// /dev/null for the duration of a test; use as: defer silence()().
func silence() func() {
	return silenceAs("case")
}

// silenceAs is silence plus naming the running part.
func silenceAs(part string) func() {
	currentPart = part
	if os.Getenv("VERIF_KEEP_STDOUT") != "" {
		return func() {}
	}
	if devNull == nil {
		devNull, _ = os.OpenFile(os.DevNull, os.O_WRONLY, 0)
	}
	if devNull == nil {
		return func() {}
	}
	os.Stdout = devNull
	return func() { os.Stdout = realStdout }
}

// ---- cases and expectations ----

// Expect is what the reference model says a run must produce.
type Expect struct {
	Err          bool                  `json:"err,omitempty"`
	Unspec       bool                  `json:"unspec,omitempty"` // outside the specified part: anything goes
	Quirk        bool                  `json:"quirk,omitempty"`  // pinned behaviour contributed: value or error
	Val          lang.Value            `json:"val"`
	Trace        []string              `json:"trace,omitempty"`
	CheckTrace   bool                  `json:"check_trace,omitempty"`
	Globals      map[string]lang.Value `json:"globals,omitempty"`
	CheckGlobals bool                  `json:"check_globals,omitempty"`
	Why          string                `json:"why,omitempty"`
}

// Case is a reproducible single-run case: script, inputs, expectation.
type Case struct {
	Prop   string                `json:"prop"`
	Kind   string                `json:"kind"`
	Script string                `json:"script"`
	Obj    *eng.ObjSpec          `json:"obj,omitempty"`
	Vars   map[string]lang.Value `json:"vars,omitempty"`
	NoOpt  bool                  `json:"noopt,omitempty"`
	// HostVals: host functions name() returning a fresh object of the value.
	HostVals map[string]lang.Value `json:"hostvals,omitempty"`
	// UseRun: call Run instead of Execute and compare with the truth of Exp.Val.
	UseRun bool   `json:"use_run,omitempty"`
	TZ     string `json:"tz,omitempty"`      // value of the TZ variable during the run ("-" = unset)
	HostTZ string `json:"host_tz,omitempty"` // TZ when the process started: the zone the host's time library falls back to
	// Hazard: the expression contains a range whose size the model could not
	// bound once it left the specified part; such a case is not executed.
	Hazard bool `json:"hazard,omitempty"`
	// HashOrder: the expression contains a hash literal with several pairs.
	HashOrder bool   `json:"hash_order,omitempty"`
	Exp       Expect `json:"expect"`
	// History: what the evaluator did before the judged run (see historyFor):
	// "" = not decided yet, "none", "same-address" (a run on the same map or
	// pointer holding other contents, changed in place afterwards),
	// "wider-object-first" (a run on an object that has a field for every name
	// in the script), "nil-first" (a run without an object), "twice" (the same
	// run, twice).
	History string `json:"history,omitempty"`
	// Later: expectations for further runs of the same evaluator on the same
	// object (variables persist, as they do in the model). PrepareTwice: the
	// evaluator is asked to Prepare a second time before it runs.
	Later        []Expect `json:"later,omitempty"`
	PrepareTwice bool     `json:"prepare_twice,omitempty"`
	// LaterFields: the fields of the object of each later run (nil = as in the
	// first run). SameAddress: later objects are the first run's map or pointer,
	// changed in place, as a host re-using one record does.
	LaterFields [][]eng.Field `json:"later_fields,omitempty"`
	SameAddress bool          `json:"same_address,omitempty"`
	Msg         string        `json:"message,omitempty"`
}

func (c *Case) fix() {
	c.Obj.Fix()
	for k, v := range c.Vars {
		v.Fix()
		c.Vars[k] = v
	}
	c.Exp.Val.Fix()
	for k, v := range c.Exp.Globals {
		v.Fix()
		c.Exp.Globals[k] = v
	}
	for k, v := range c.HostVals {
		v.Fix()
		c.HostVals[k] = v
	}
	for i := range c.LaterFields {
		for j := range c.LaterFields[i] {
			c.LaterFields[i][j].V.Fix()
		}
	}
	for i := range c.Later {
		c.Later[i].Val.Fix()
		for k, v := range c.Later[i].Globals {
			v.Fix()
			c.Later[i].Globals[k] = v
		}
	}
}

// expectFromModel runs prog on a model machine and packages the outcome.
func expectFromModel(m *lang.Machine, prog *lang.Program) Expect {
	v, err := m.Run(prog)
	e := Expect{Quirk: m.Quirk, Trace: append([]string(nil), m.Trace...), Globals: map[string]lang.Value{}}
	for k, gv := range m.Globals {
		e.Globals[k] = gv
	}
	if err != nil {
		switch {
		case lang.IsKind(err, lang.ErrRuntime):
			e.Err = true
			e.Why = err.Error()
		case lang.IsKind(err, lang.ErrBudget):
			// too long for the model: the engine is not run either
			e.Unspec = true
			e.Why = "resource: " + err.Error()
		default:
			e.Unspec = true
			e.Why = err.Error()
		}
		return e
	}
	e.Val = v
	return e
}

// checkResult compares an engine result with an expectation.
func checkResult(res eng.Result, exp Expect) error {
	if res.Panic != nil && res.Drift == "" {
		return fmt.Errorf("panic escaped the API: %v", res.Panic)
	}
	if res.Drift != "" {
		// values are values: what a host function was handed does not change
		// because the script goes on
		return fmt.Errorf("%s", res.Drift)
	}
	if exp.Unspec {
		return nil
	}
	if res.TooBig {
		return nil // the harness cannot even write the value down: inconclusive
	}
	if res.PrepareErr != nil {
		return fmt.Errorf("Prepare rejected a valid script: %v", res.PrepareErr)
	}
	if res.NilObject {
		return fmt.Errorf("engine returned a nil object (no value, no error)")
	}
	if exp.Err {
		if res.Err == nil {
			return fmt.Errorf("expected an error (%s), got value %s", exp.Why, res.Val.Describe())
		}
		return nil
	}
	if res.Err != nil {
		if exp.Quirk {
			return nil
		}
		return fmt.Errorf("expected %s, got error: %v", exp.Val.Describe(), res.Err)
	}
	if !lang.DeepEqual(res.Val, exp.Val) || res.Val.Inspect() != exp.Val.Inspect() {
		return fmt.Errorf("expected %s, got %s", exp.Val.Describe(), res.Val.Describe())
	}
	// the printed form the engine itself gives the value (what a host, print()
	// and string() see), not only the one recomputed from its structure
	if res.Raw != nil && !exp.Val.HasKeyTies() {
		if got := inspectRaw(res.Raw); got != exp.Val.Inspect() {
			return fmt.Errorf("the value has the expected structure %s but the engine prints it as %s", exp.Val.Describe(), clip(got, 600))
		}
	}
	return nil
}

func inspectRaw(o objectT) (s string) {
	defer func() {
		if r := recover(); r != nil {
			s = fmt.Sprintf("<Inspect panicked: %v>", r)
		}
	}()
	return o.Inspect()
}

// checkEffects compares host calls and resulting variables (after
// checkResult has passed). Skipped outside the specified part and when a
// pinned (quirk) behaviour was replaced by an error.
func checkEffects(res eng.Result, exp Expect) error {
	if exp.Unspec || (exp.Quirk && res.Err != nil) || res.TooBig {
		return nil
	}
	if exp.CheckTrace {
		if strings.Join(res.Trace, "|") != strings.Join(exp.Trace, "|") {
			return fmt.Errorf("host calls differ: expected %s, got %s", clip(fmt.Sprint(exp.Trace), 1500), clip(fmt.Sprint(res.Trace), 1500))
		}
	}
	if exp.CheckGlobals && res.Globals != nil {
		for _, k := range sortedKeys(exp.Globals) {
			got, ok := res.Globals[k]
			if !ok {
				return fmt.Errorf("variable %s: expected %s, but it is not set", k, exp.Globals[k].Describe())
			}
			if !lang.DeepEqual(got, exp.Globals[k]) || got.Inspect() != exp.Globals[k].Inspect() {
				return fmt.Errorf("variable %s: expected %s, got %s", k, exp.Globals[k].Describe(), got.Describe())
			}
		}
		for _, k := range sortedKeys(res.Globals) {
			if k == "OPTIMIZE" || k == "DEBUG" {
				continue
			}
			if _, ok := exp.Globals[k]; !ok {
				return fmt.Errorf("variable %s=%s is set but the script never assigned it", k, res.Globals[k].Describe())
			}
		}
	}
	return nil
}

// runCase executes a Case against the engine and checks it.
func runCase(c *Case) error {
	if c.Exp.Unspec && (c.Hazard || strings.HasPrefix(c.Exp.Why, "resource:")) {
		return nil // excluded by the property: (possibly) needs more memory than a host has
	}
	if c.Exp.Err && c.Hazard && c.HashOrder {
		// the model met an error in written order; the engine evaluates the pairs
		// of a hash literal in key order and may reach a range first whose size
		// the model never looked at
		return nil
	}
	var obj interface{}
	if c.Obj != nil {
		obj = c.Obj.Build()
		if len(c.Obj.Fields) == 0 && evid.Digest("noobject"+c.Script)%2 == 0 {
			obj = nil // a script that reads no field is as well run without an object
		}
	}
	if j := os.Getenv("VERIF_DEBUG_JOURNAL"); j != "" {
		_ = os.WriteFile(j, []byte(c.Script+"\n"+fmt.Sprint(c.Vars, c.Obj, c.Exp.Why)), 0o644)
	}
	if _, set := os.LookupEnv("TZ"); c.TZ != "" || set {
		// a case that says nothing about TZ runs with TZ unset (the reference
		// interpreter then answers in UTC), whatever the process was started with
		old, had := os.LookupEnv("TZ")
		if c.TZ == "-" || c.TZ == "" {
			os.Unsetenv("TZ")
		} else {
			os.Setenv("TZ", c.TZ)
		}
		defer func() {
			if had {
				os.Setenv("TZ", old)
			} else {
				os.Unsetenv("TZ")
			}
		}()
	}
	if len(c.Later) > 0 || c.PrepareTwice {
		return runSequence(c, obj)
	}
	if len(c.HostVals) == 0 && !c.UseRun {
		// the engine has a 20 s deadline of its own; a call that has not come
		// back long after that is stuck inside a single operation
		done := make(chan eng.Result, 1)
		historyFor(c)
		if evid.Current != nil {
			evid.Current.Class("history-before-judged-run:" + c.History)
		}
		go func() {
			if c.History == "none" {
				done <- eng.Quick(c.Script, obj, c.Vars, c.NoOpt)
				return
			}
			done <- eng.QuickAfter(c.Script, obj, c.Vars, c.NoOpt, func(r *eng.Runner) { playHistory(r, c.History, c.Script, obj) })
		}()
		var res eng.Result
		select {
		case res = <-done:
		case <-time.After(90 * time.Second):
			return fmt.Errorf("the engine did not return within 90 s although its context expired after 20 s")
		}
		if err := checkResult(res, c.Exp); err != nil {
			return err
		}
		return checkEffects(res, c.Exp)
	}
	r := eng.NewRunner(c.Script)
	ctx, cancel := context.WithTimeout(context.Background(), 20*time.Second)
	defer cancel()
	r.E.SetContext(ctx)
	for _, k := range sortedKeys(c.Vars) {
		r.E.SetVariable(k, eng.ToObject(c.Vars[k]))
	}
	for _, k := range sortedKeys(c.HostVals) {
		v := c.HostVals[k]
		name := k
		r.E.AddFunction(name, func(args []object.Object) object.Object {
			r.Trace = append(r.Trace, name+"()")
			return eng.ToObject(v)
		})
	}
	perr, pan := r.Prepare(c.NoOpt)
	if pan != nil {
		return fmt.Errorf("Prepare panicked: %v", pan)
	}
	if perr != nil {
		return checkResult(eng.Result{PrepareErr: perr}, c.Exp)
	}
	historyFor(c)
	if evid.Current != nil {
		evid.Current.Class("history-before-judged-run:" + c.History)
	}
	playHistory(r, c.History, c.Script, obj)
	if !c.UseRun {
		res := r.Execute(obj)
		if err := checkResult(res, c.Exp); err != nil {
			return err
		}
		return nil
	}
	var verdict bool
	var rerr error
	var pan2 interface{}
	func() {
		defer func() { pan2 = recover() }()
		verdict, rerr = r.E.Run(obj)
	}()
	if pan2 != nil {
		return fmt.Errorf("Run panicked: %v", pan2)
	}
	if c.Exp.Unspec {
		return nil
	}
	if c.Exp.Err {
		if rerr == nil {
			return fmt.Errorf("Run: expected an error (%s), got %v", c.Exp.Why, verdict)
		}
		return nil
	}
	if rerr != nil {
		if c.Exp.Quirk {
			return nil
		}
		return fmt.Errorf("Run: expected %v (truth of %s), got error %v", c.Exp.Val.Truth(), c.Exp.Val.Describe(), rerr)
	}
	if verdict != c.Exp.Val.Truth() {
		return fmt.Errorf("Run returned %v for a script result %s whose truth is %v", verdict, c.Exp.Val.Describe(), c.Exp.Val.Truth())
	}
	return nil
}

// ---- replay files and violation markers ----

var replayMu sync.Mutex

// currentPart names the running check part (used in replay file names).
var currentPart = "case"

// writeReplay stores a failing case; the last write wins (minimal case).
func writeReplay(prop string, payload interface{}) string {
	replayMu.Lock()
	defer replayMu.Unlock()
	dir := filepath.Join(verifRoot(), "replays", prop)
	if d := os.Getenv("VERIF_REPLAY_DIR"); d != "" {
		dir = filepath.Join(d, prop)
	}
	_ = os.MkdirAll(dir, 0o755)
	path := filepath.Join(dir, fmt.Sprintf("fail-%s-seed%s-shard%s.json", currentPart, os.Getenv("VERIF_SEED"), shard()))
	var buf bytes.Buffer
	enc := json.NewEncoder(&buf)
	enc.SetEscapeHTML(false)
	enc.SetIndent("", " ")
	if err := enc.Encode(payload); err != nil {
		buf.Reset()
		fmt.Fprintf(&buf, "{\"marshal_error\": %q}", err.Error())
	}
	b := buf.Bytes()
	_ = os.WriteFile(path, b, 0o644)
	if out := os.Getenv("VERIF_OUT"); out != "" {
		_ = os.WriteFile(filepath.Join(out, fmt.Sprintf("%s.%s.%s.violation", prop, currentPart, shard())), []byte(path+"\n"), 0o644)
	}
	return path
}

// processTZ: the TZ variable as the process found it.
var processTZ = os.Getenv("TZ")

// failer is the subset of testing.T / rapid.T used to fail.
type failer interface {
	Fatalf(format string, args ...interface{})
	Helper()
}

// violation records the case as replay and fails the test.
func violation(t failer, prop string, payload interface{}, format string, args ...interface{}) {
	t.Helper()
	msg := fmt.Sprintf(format, args...)
	if len(msg) > 4000 {
		msg = msg[:4000] + "...(clipped)"
	}
	if c, ok := payload.(*Case); ok {
		c.Msg = msg
		c.Prop = prop
		c.HostTZ = processTZ
	}
	path := writeReplay(prop, payload)
	t.Fatalf("property %s violated: %s (replay %s)", prop, msg, path)
}

// ---- known findings ----

// Finding is one entry of known_findings.json.
type Finding struct {
	ID         string                     `json:"id"`
	Properties []string                   `json:"properties"`
	Status     string                     `json:"status"` // open
	What       string                     `json:"what"`
	Repros     map[string]json.RawMessage `json:"repros,omitempty"`
}

var (
	findingsOnce sync.Once
	findings     []Finding
)

func loadFindings() []Finding {
	findingsOnce.Do(func() {
		b, err := os.ReadFile(filepath.Join(verifRoot(), "known_findings.json"))
		if err != nil {
			return
		}
		var doc struct {
			Findings []Finding `json:"findings"`
		}
		if json.Unmarshal(b, &doc) == nil {
			findings = doc.Findings
		}
	})
	return findings
}

// openFinding reports whether the finding id is listed as open.
func openFinding(id string) bool {
	for _, f := range loadFindings() {
		if f.ID == id && f.Status == "open" {
			return true
		}
	}
	return false
}

// replayKnown re-runs the pinned repro of every open finding listed for
// prop; those that still fail are reported as KNOWN-FINDING by the driver.
func replayKnown(t *testing.T, col *evid.Collector, prop string) {
	for _, f := range loadFindings() {
		if f.Status != "open" {
			continue
		}
		raw, ok := f.Repros[prop]
		if !ok {
			continue
		}
		if err := replayPayload(raw); err != nil {
			col.Known(f.ID, f.What)
		} else {
			t.Logf("known finding %s no longer reproduces for %s", f.ID, prop)
		}
	}
}

// replayPayload re-runs a saved case through its oracle, without rapid.
func replayPayload(raw []byte) error {
	var head struct {
		Prop string `json:"prop"`
		Kind string `json:"kind"`
	}
	if err := json.Unmarshal(raw, &head); err != nil {
		return fmt.Errorf("unreadable replay: %v", err)
	}
	if fn, ok := replayers[head.Prop+"/"+head.Kind]; ok {
		return fn(raw)
	}
	if fn, ok := replayers[head.Prop]; ok {
		return fn(raw)
	}
	// default: a single-run Case
	var c Case
	if err := json.Unmarshal(raw, &c); err != nil {
		return fmt.Errorf("unreadable case: %v", err)
	}
	c.fix()
	return runCase(&c)
}

// replayers maps "PROP/kind" or "PROP" to a replay function.
var replayers = map[string]func(raw []byte) error{}

// TestReplay re-runs the file named by VERIF_REPLAY.
func TestReplay(t *testing.T) {
	path := os.Getenv("VERIF_REPLAY")
	if path == "" {
		t.Skip("VERIF_REPLAY not set")
	}
	defer silence()()
	raw, err := os.ReadFile(path)
	if err != nil {
		t.Fatalf("cannot read %s: %v", path, err)
	}
	if err := replayPayload(raw); err != nil {
		if out := os.Getenv("VERIF_OUT"); out != "" {
			_ = os.WriteFile(filepath.Join(out, "replay.violation"), []byte(path+"\n"), 0o644)
		}
		t.Fatalf("replay %s still fails: %v", path, err)
	}
}

// ---- misc helpers ----

func sortedKeys(m map[string]lang.Value) []string {
	out := make([]string, 0, len(m))
	for k := range m {
		out = append(out, k)
	}
	sort.Strings(out)
	return out
}

func describeGlobals(m map[string]lang.Value) string {
	var parts []string
	for _, k := range sortedKeys(m) {
		parts = append(parts, k+"="+m[k].Describe())
	}
	return strings.Join(parts, " ")
}

// rapidCheck runs prop with rapid; the collector is flushed afterwards.
func rapidCheck(t *testing.T, col *evid.Collector, prop func(*rapid.T)) {
	t.Helper()
	defer col.Flush()
	rapid.Check(t, prop)
}

type objectT = object.Object

func jsonUnmarshal(raw []byte, v interface{}) error { return json.Unmarshal(raw, v) }

func sortStrings(s []string) { sort.Strings(s) }

// lexSrcToks re-spells the tokens of a script (canonical text per token).
func lexSrcToks(src string) []string {
	var out []string
	l := lexer.New(src)
	for i := 0; i < 200000; i++ {
		tk := l.NextToken()
		if tk.Type == token.EOF || tk.Type == token.ILLEGAL {
			break
		}
		out = append(out, tokenText(tk))
	}
	return out
}

// ---- a history before the judged run ----

// historyFor decides (from the case itself, so that replays agree) what the
// evaluator of a single-run case has been through before the judged run. The
// scripts of these cases are idempotent (assignments from literals, then one
// expression), so whatever an earlier run did - on the same map or pointer
// with other contents, on a wider object, without an object, failing or not -
// the judged run must give what a first run gives: "each run sees the object
// passed to that run" and "no hidden state between runs" hold for every
// script, also for the one-line scripts of the table checks.
func historyFor(c *Case) {
	if c.History != "" {
		return
	}
	c.History = "none"
	if usesPatterns(c.Script) && evid.Digest("history"+c.Script)%8 == 4 {
		// tables that the whole process shares (compiled patterns) grow by
		// hundreds of entries after the script's own patterns have been met
		// (on another evaluator: nothing this one remembers is touched)
		c.History = "pattern-flood"
		return
	}
	if c.Exp.CheckGlobals || c.Kind == "stepped" || strings.Contains(c.Script, "++") || strings.Contains(c.Script, "--") {
		return // not idempotent, or the variables left behind are compared
	}
	switch evid.Digest("history"+c.Script) % 8 {
	case 0:
		c.History = "same-address"
	case 1:
		c.History = "wider-object-first"
		if strings.Contains(c.Script, "..") {
			// the earlier run would give every name a number: a range that the
			// judged run never builds (a type error comes first) could then span
			// billions - the reference interpreter has screened the judged run only
			c.History = "twice"
		}
	case 2:
		c.History = "nil-first"
	case 3:
		c.History = "twice"
	}
}

func usesPatterns(script string) bool {
	return strings.Contains(script, "~=") || strings.Contains(script, "!~") || strings.Contains(script, "match") || strings.Contains(script, "replace") || strings.Contains(script, "case /")
}

// scratchRun runs the script once on an evaluator of its own.
func scratchRun(script string, obj interface{}) {
	r := eng.NewRunner(script)
	ctx, cancel := context.WithTimeout(context.Background(), 5*time.Second)
	defer cancel()
	r.E.SetContext(ctx)
	if err, pan := r.Prepare(false); err != nil || pan != nil {
		return
	}
	defer func() { _ = recover() }()
	_, _ = r.E.Execute(obj)
}

var floodSalt int64

// patternFlood makes the process meet n patterns it has never seen.
func patternFlood(n int) {
	salt := atomic.AddInt64(&floodSalt, 1)
	if salt > 120 {
		// the engine keeps every pattern it has met for the life of the
		// process: a long campaign floods a hundred times, not ten thousand
		// (gigabytes of compiled patterns made the thorough tier time out)
		return
	}
	r := eng.NewRunner(fmt.Sprintf("i = 0; hits = 0; while ( i < %d ) { if ( match(\"zq%dx7\", \"^zq%dx\" + string(i) + \"$\") ) { hits++; } i++; } return hits;", n, salt, salt))
	ctx, cancel := context.WithTimeout(context.Background(), 30*time.Second)
	defer cancel()
	r.E.SetContext(ctx)
	if err, pan := r.Prepare(false); err != nil || pan != nil {
		return
	}
	defer func() { _ = recover() }()
	_, _ = r.E.Execute(nil)
}

var identRe = regexp.MustCompile(`[A-Za-z_][A-Za-z0-9_]*`)

func playHistory(r *eng.Runner, history, script string, obj interface{}) {
	quiet := func(o interface{}) {
		defer func() { _ = recover() }()
		_, _ = r.E.Execute(o)
	}
	switch history {
	case "twice":
		quiet(obj)
	case "pattern-flood":
		scratchRun(script, obj) // the patterns of the script are known to the process ...
		patternFlood(300)       // ... then come hundreds of others
	case "nil-first":
		quiet(nil)
	case "wider-object-first":
		wide := map[string]interface{}{}
		for _, w := range identRe.FindAllString(script, -1) {
			wide[w] = 4242
		}
		quiet(wide)
	case "same-address":
		switch o := obj.(type) {
		case map[string]interface{}:
			saved := map[string]interface{}{}
			for k, v := range o {
				saved[k] = v
				o[k] = "decoy"
			}
			o["Extra"] = 4242
			quiet(o)
			delete(o, "Extra")
			for k, v := range saved {
				o[k] = v
			}
		default:
			rv := reflect.ValueOf(obj)
			if rv.Kind() == reflect.Ptr && !rv.IsNil() && rv.Elem().Kind() == reflect.Struct && rv.Elem().CanSet() {
				saved := reflect.New(rv.Elem().Type()).Elem()
				saved.Set(rv.Elem())
				rv.Elem().Set(reflect.Zero(rv.Elem().Type()))
				quiet(obj)
				rv.Elem().Set(saved)
			} else {
				quiet(obj)
			}
		}
	}
}

// runSequence: several runs of one evaluator on one object, each compared
// with what the model says for that run (the model keeps its variables from
// run to run as the evaluator does).
func runSequence(c *Case, obj interface{}) error {
	r, err := prepared(c.Script, c.Vars, c.NoOpt)
	if err != nil {
		return checkResult(eng.Result{PrepareErr: err}, c.Exp)
	}
	if c.PrepareTwice {
		if perr, pan := r.Prepare(c.NoOpt); perr != nil || pan != nil {
			return fmt.Errorf("the second Prepare of the same script failed: %v %v", perr, pan)
		}
	}
	exps := append([]Expect{c.Exp}, c.Later...)
	for i, exp := range exps {
		if exp.Unspec {
			return nil // from here on the model cannot follow
		}
		if i > 0 && i-1 < len(c.LaterFields) && c.LaterFields[i-1] != nil {
			spec := &eng.ObjSpec{Mode: c.Obj.Mode, Fields: c.LaterFields[i-1]}
			next := spec.Build()
			obj = overwriteInPlace(obj, next, c.SameAddress)
		}
		res := r.Execute(obj)
		if err := checkResult(res, exp); err != nil {
			return fmt.Errorf("run %d of %d: %v", i+1, len(exps), err)
		}
		if err := checkEffects(res, exp); err != nil {
			return fmt.Errorf("run %d of %d: %v", i+1, len(exps), err)
		}
		if exp.Quirk && res.Err != nil {
			return nil // a pinned behaviour replaced by an error: the variables are no longer known
		}
	}
	return nil
}

// overwriteInPlace gives old the contents of next when both are maps, or
// pointers to the same struct type, and inPlace is wanted; otherwise it
// returns next.
func overwriteInPlace(old, next interface{}, inPlace bool) interface{} {
	if !inPlace || old == nil || next == nil {
		return next
	}
	if om, ok := old.(map[string]interface{}); ok {
		if nm, ok := next.(map[string]interface{}); ok {
			for k := range om {
				delete(om, k)
			}
			for k, v := range nm {
				om[k] = v
			}
			return om
		}
		return next
	}
	ov, nv := reflect.ValueOf(old), reflect.ValueOf(next)
	if ov.Kind() == reflect.Ptr && nv.Kind() == reflect.Ptr && !ov.IsNil() && !nv.IsNil() && ov.Type() == nv.Type() {
		ov.Elem().Set(nv.Elem())
		return old
	}
	return next
}
