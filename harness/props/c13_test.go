package props

import (
	"encoding/json"
	"fmt"
	"os"
	"path/filepath"
	"strings"
	"testing"
	"unicode"
	"unicode/utf8"

	"github.com/skx/evalfilter/v2/lexer"
	"github.com/skx/evalfilter/v2/token"
	"pgregory.net/rapid"

	"verif/harness/eng"
	"verif/harness/evid"
	"verif/harness/gen"
	"verif/harness/lang"
)

// C13 — a script that cannot be fully translated is rejected by Prepare.

type fragment struct {
	text string
	stmt bool   // a statement fragment (else an expression fragment)
	note string // why it is invalid
}

// Invalid fragments. Context texts never contain quotes or slashes, so an
// unterminated string / regexp stays unterminated wherever it is placed.
var c13Fragments = []fragment{
	{`"abc`, false, "unterminated string"},
	{`'abc`, false, "unterminated string"},
	{`"abc\"`, false, "unterminated string (escaped closing quote)"},
	{`/abc`, false, "unterminated regexp"},
	{`/a/x`, false, "illegal regexp flag"},
	{`/a/ig`, false, "illegal regexp flag"},
	{`(1 + 2`, false, "open parenthesis"},
	{`[1, 2`, false, "open square bracket"},
	{`{1: 2`, false, "open brace"},
	{`g(1, 2`, false, "open call"},
	{`q[1`, false, "open index"},
	{`1 +`, false, "missing operand"}, {`1 -`, false, "missing operand"}, {`1 *`, false, "missing operand"},
	{`1 %`, false, "missing operand"}, {`1 **`, false, "missing operand"}, {`q &&`, false, "missing operand"},
	{`q ||`, false, "missing operand"}, {`q ==`, false, "missing operand"}, {`q !=`, false, "missing operand"},
	{`q <`, false, "missing operand"}, {`q >=`, false, "missing operand"}, {`q in`, false, "missing operand"},
	{`q ~=`, false, "missing operand"}, {`q !~`, false, "missing operand"}, {`1 ..`, false, "missing operand"},
	{`-`, false, "missing operand"}, {`!`, false, "missing operand"}, {`√`, false, "missing operand"},
	{`q ? 1`, false, "incomplete ternary"}, {`q ? 1 :`, false, "incomplete ternary"}, {`q ?`, false, "incomplete ternary"},
	{`q.`, false, "missing member"},
	{`3 = 4`, false, "assignment to a non-variable"},
	{`g() = 1`, false, "assignment to a non-variable"},
	{`q[0] = 1`, false, "assignment to a non-variable"},
	{`3 += 4`, false, "compound assignment to a non-variable"},
	{`3 -= 4`, false, "compound assignment to a non-variable"},
	{`g() *= 4`, false, "compound assignment to a non-variable"},
	{`q[0] /= 4`, false, "compound assignment to a non-variable"},
	{`q ? w ? 1 : 2 : 3`, false, "nested ternary"},
	{`q ? (w ? 1 : 2) : 3`, false, "nested ternary"},
	{`q ? 1 : w ? 2 : 3`, false, "nested ternary"},
	{`q ? g(w ? 1 : 2) : 3`, false, "nested ternary"},
	{`q ? function zh() { return w ? 2 : 3; } : 4`, false, "nested ternary (in the body of a function defined in an arm)"},
	{`q ? function zh() { return 1; } : (w ? 2 : 3)`, false, "nested ternary (after a function defined in the other arm)"},
	{`q ? [w, {1: function zh(z) { return z; }}, (w ? 2 : 3)] : 4`, false, "nested ternary (after a function defined deeper in the same arm)"},
	{`#`, false, "illegal character"}, {`@`, false, "illegal character"}, {`^`, false, "illegal character"},
	{"`", false, "illegal character"}, {`\`, false, "illegal character"},
	{`1 & 2`, false, "lone &"}, {`1 | 2`, false, "lone |"}, {`1 ~ 2`, false, "lone ~"},
	{`q # w`, false, "illegal character"},
	{"\v", false, "illegal character (vertical tab)"}, {"q \f w", false, "illegal character (form feed)"}, {"\x01", false, "illegal character (control)"},
	{"\x1b", false, "illegal character (escape)"}, {"\x7f", false, "illegal character (delete)"}, {"q \x08 w", false, "illegal character (backspace)"},
	{`local q;`, true, "local outside a function"},
	{`switch (q) { default { w = 1; } default { w = 2; } }`, true, "second default"},
	{`if (q) { w = 1;`, true, "unterminated block"},
	{`if (q) { w = 1; } else {`, true, "unterminated block"},
	{`while (q) {`, true, "unterminated block"},
	{`foreach z in q { w = 1;`, true, "unterminated block"},
	{`function h( z`, true, "unterminated parameter list"},
	{`function h(z) { w = 1;`, true, "unterminated block"},
	{`switch (q) { case 1 { w = 1; }`, true, "unterminated switch"},
	{`switch (q) { case 1 { w = 1;`, true, "unterminated switch"},
	{`if q { w = 1; }`, true, "missing parenthesis"},
	{`if (q) w = 1;`, true, "missing block"},
	{`while q { w = 1; }`, true, "missing parenthesis"},
	{`foreach z q { w = 1; }`, true, "missing in"},
	{`foreach z, 1 in q { w = 1; }`, true, "bad loop variable"},
	{`switch (q) { w = 1; }`, true, "statement inside switch"},
	{`switch q { case 1 { w = 1; } }`, true, "missing parenthesis"},
	{`case 1 { w = 1; }`, true, "case outside switch"},
	{`else { w = 1; }`, true, "else without if"},
	{`return 1`, true, "missing semicolon after return"},
	{`function h(#) { w = 1; }`, true, "illegal character in parameter list"},
	{`foreach # in q { w = 1; }`, true, "illegal character as loop variable"},
	{`++;`, true, "postfix operator without a variable"}, {`5++;`, true, "postfix operator on a non-variable"}, {`q[0]--;`, true, "postfix operator on a non-variable"},
	{`foreach z in q w v1 = 1; }`, true, "foreach body without an opening brace"}, {`foreach z in q ( v1 = 1; }`, true, "foreach body without an opening brace"},
	{`function @() { w = 1; }`, true, "illegal character as function name"}, {`function 5() { w = 1; }`, true, "number as function name"},
	{`function +(z) { w = 1; }`, true, "operator as function name"},
	{`q.(3 += 4)`, false, "compound assignment to a non-variable, as member name"}, {`q.[g() = 1]`, false, "assignment to a non-variable, as member name"},
	{`q.(w ? 1 ? 2 : 3 : 4)`, false, "nested ternary, as member name"},
	{`(3 += 4)(1)`, false, "compound assignment to a non-variable, as callee"}, {`(q ? w ? 1 : 2 : 3)(1)`, false, "nested ternary, as callee"},
	{`[3 -= 4](w)`, false, "compound assignment to a non-variable, inside a callee"},
	{`)`, true, "stray closer"}, {`]`, true, "stray closer"}, {`}`, true, "stray closer"},
}

type ctxTmpl struct {
	pre, post string
	stmtHole  bool // the hole takes a statement (else an expression)
	stmt      bool // the context itself is a statement (else an expression)
	function  bool
	ternary   bool
}

var c13Contexts = []ctxTmpl{
	// statement contexts with a statement hole
	{"if (c1) { ", " }", true, true, false, false},
	{"if (c1) { v1 = 1; } else { ", " }", true, true, false, false},
	{"if (c1) { v1 = 1; } else if (c2) { ", " }", true, true, false, false},
	{"while (c1) { ", " }", true, true, false, false},
	{"for (c1) { v2 = 2; ", " }", true, true, false, false},
	{"foreach e1 in c3 { ", " }", true, true, false, false},
	{"foreach i1, e1 in 1..3 { ", " v3 = 3; }", true, true, false, false},
	{"function fn1(p1) { ", " }", true, true, true, false},
	// functions named like a stock function or one the host has registered
	{"function len(p1) { ", " }", true, true, true, false},
	{"function trace(p1) { v1 = p1; ", " }", true, true, true, false},
	{"switch (c1) { case 1 { ", " } }", true, true, false, false},
	{"switch (c1) { case 1, 2 { v1 = 1; } default { ", " } }", true, true, false, false},
	// the hole comes after a return in the same block (code that can never run)
	{"if (c1) { return 1; ", " }", true, true, false, false},
	{"function fn3(p1) { return p1; ", " }", true, true, true, false},
	{"foreach e3 in c3 { v1 = 1; return e3; ", " v2 = 2; }", true, true, false, false},
	{"switch (c1) { default { return 2; ", " } }", true, true, false, false},
	// the hole sits in code whose condition is a constant
	{"if (false) { ", " }", true, true, false, false},
	{"if (true) { v1 = 1; } else { ", " }", true, true, false, false},
	{"while (false) { ", " }", true, true, false, false},
	{"switch (1) { case 2 { ", " } }", true, true, false, false},
	// statement contexts with an expression hole
	{"v4 = ", ";", false, true, false, false},
	{"return ", ";", false, true, false, false},
	{"if (", ") { v1 = 1; }", false, true, false, false},
	{"while (", ") { v1 = 1; }", false, true, false, false},
	{"foreach e2 in ", " { v1 = 1; }", false, true, false, false},
	{"switch (", ") { case 1 { v1 = 1; } }", false, true, false, false},
	{"switch (c1) { case ", " { v1 = 1; } }", false, true, false, false},
	{"switch (", ") { default { v1 = 1; } }", false, true, false, false},
	{"switch (c1) { case 1, ", " { v1 = 1; } }", false, true, false, false},
	{"switch (c1) { case ", ", 2 { v1 = 1; } default { v2 = 2; } }", false, true, false, false},
	{"switch (", ") { }", false, true, false, false},
	{"v5 += (", ");", false, true, false, false},
	// expression contexts with an expression hole
	{"fn2(", ")", false, false, false, false},
	{"fn2(1, ", ", 3)", false, false, false, false},
	{"[", "]", false, false, false, false},
	{"[1, ", "]", false, false, false, false},
	{"{", ": 1}", false, false, false, false},
	{"{1: ", "}", false, false, false, false},
	{"c3[", "]", false, false, false, false},
	// values and keys of repeated constant keys
	{"{1: 0, 1: ", "}", false, false, false, false},
	{"{7: ", ", 7: 2}", false, false, false, false},
	{"{1.5: 0, 2: 1, 1.5: ", "}", false, false, false, false},
	{"{true: 0, true: ", ", false: 2}", false, false, false, false},
	{"{c1: 0, c1: ", "}", false, false, false, false},
	{"{2: 0, ", ": 1, 2: 3}", false, false, false, false},
	// ... next to rival values whose text sorts before and after anything else
	{"{1: -1, 1: ", "}", false, false, false, false},
	{"{\"k\": ", ", \"k\": ! true}", false, false, false, false},
	{"{1.5: \"\", 1.5: ", ", 1.5: \"~~~\"}", false, false, false, false},
	{"{true: \"~~~\", true: ", "}", false, false, false, false},
	{"{\"k\": - 1, \"j\": 2, \"k\": ", "}", false, false, false, false},
	// operands that a constant makes irrelevant
	{"false && (", ")", false, false, false, false},
	{"true || (", ")", false, false, false, false},
	{"0 * (", ")", false, false, false, false},
	{"true ? 1 : (", ")", false, false, false, true},
	{"false ? (", ") : 2", false, false, false, true},
	{"(", ")", false, false, false, false},
	{"-(", ")", false, false, false, false},
	{"!(", ")", false, false, false, false},
	{"√(", ")", false, false, false, false},
	{"c3 in [1, ", "]", false, false, false, false},
	{"(", ") .. 3", false, false, false, false},
	{"1 + (", ")", false, false, false, false},
	{"(", ") * 2", false, false, false, false},
	{"c1 ? (", ") : 2", false, false, false, true},
	{"c1 ? 1 : (", ")", false, false, false, true},
	{"(", ") ? 1 : 2", false, false, false, true},
}

// compose builds the script for a context path (outermost first) and a filler.
// ok=false when the combination is not meaningful (hole kinds do not fit,
// or a ternary would be nested inside another one).
func compose(path []int, filler string, fillerIsStmt bool) (string, bool, bool) {
	inFunction, inTernary := false, false
	pre, post := "", ""
	wantStmt := true // top level takes statements
	for _, ci := range path {
		c := c13Contexts[ci]
		if c.stmt != wantStmt {
			if c.stmt && !wantStmt {
				return "", false, false // a statement cannot fill an expression hole
			}
			// an expression context in a statement hole: make it a statement
			pre += "v9 = "
			post = ";" + post
		}
		if c.ternary && inTernary {
			return "", false, false
		}
		inTernary = inTernary || c.ternary
		inFunction = inFunction || c.function
		pre += c.pre
		post = c.post + post
		wantStmt = c.stmtHole
	}
	if fillerIsStmt && !wantStmt {
		return "", false, false
	}
	if !fillerIsStmt && wantStmt {
		filler = "v8 = " + filler + ";"
	}
	return pre + filler + post, true, inFunction
}

// RejectCase is a script that Prepare must refuse.
type RejectCase struct {
	Prop   string `json:"prop"`
	Kind   string `json:"kind"`
	Script string `json:"script"`
	Why    string `json:"why"`
	Msg    string `json:"message,omitempty"`
}

func runReject(c *RejectCase) error {
	r := eng.NewRunner(c.Script)
	err, pan := r.Prepare(false)
	if pan != nil {
		return fmt.Errorf("Prepare panicked: %v", pan)
	}
	if err == nil {
		return fmt.Errorf("Prepare accepted an invalid script (%s)", c.Why)
	}
	// asking again does not make the script valid
	err, pan = r.Prepare(false)
	if pan != nil {
		return fmt.Errorf("the second Prepare panicked: %v", pan)
	}
	if err == nil {
		return fmt.Errorf("Prepare refused an invalid script (%s) the first time and accepted it the second time", c.Why)
	}
	r2 := eng.NewRunner(c.Script)
	err, pan = r2.Prepare(true)
	if pan != nil {
		return fmt.Errorf("Prepare(NoOptimize) panicked: %v", pan)
	}
	if err == nil {
		return fmt.Errorf("Prepare(NoOptimize) accepted an invalid script (%s)", c.Why)
	}
	return nil
}

func init() {
	replayers["C13"] = func(raw []byte) error {
		var c RejectCase
		if err := jsonUnmarshal(raw, &c); err != nil {
			return err
		}
		return runReject(&c)
	}
}

func checkFragmentAt(t failer, col *evid.Collector, path []int, f fragment) {
	script, ok, inFn := compose(path, f.text, f.stmt)
	if !ok {
		return
	}
	if inFn && strings.HasPrefix(f.text, "local") {
		return // valid there
	}
	c := &RejectCase{Prop: "C13", Kind: "fragment", Script: script, Why: f.note}
	if err := runReject(c); err != nil {
		c.Msg = err.Error()
		violation(t, "C13", c, "%v", err)
	}
	// the same script after a complete, valid prelude (a function definition,
	// a returning block) and before a valid epilogue
	wi := 0
	for _, wrap := range [][2]string{
		{"function pre1(z1) { local y1; y1 = z1; return y1; }\n", ""},
		{"v0 = 1; while (v0 > 5) { v0 = 2; }\n", "\nfunction post1() { return 1; } v7 = post1();"},
		{"function pre2() { function in2(z2) { return z2; } return in2(1); }\n", ""},
		{"function pre3() { local y3; function in3() { function in4() { return 4; } return in4(); } return in3(); }\nv0 = pre3();\n", ""},
	} {
		wi++
		if inFn && strings.HasPrefix(f.text, "local") {
			continue
		}
		if len(path) >= 2 && int(evid.Digest(script)%4) != wi-1 {
			continue // deep compositions get one of the wrappers each, chosen by the script's digest
		}
		wc := &RejectCase{Prop: "C13", Kind: "fragment", Script: wrap[0] + script + wrap[1], Why: f.note + " (after a valid prelude)"}
		if err := runReject(wc); err != nil {
			wc.Msg = err.Error()
			violation(t, "C13", wc, "%v", err)
		}
	}
	col.Class("fragment:" + f.note)
	col.Class(fmt.Sprintf("depth:%d", len(path)))
	col.Case(script, len(path) >= 1, func() interface{} { return map[string]string{"script": c.Script, "invalid_because": c.Why} })
}

func TestC13Exhaustive(t *testing.T) {
	defer silenceAs("exhaustive")()
	col := evid.New("C13", "exhaustive", "invalid fragments (unterminated strings/regexps/blocks/parameter lists/switches, missing operands after every operator, assignment and compound assignment to non-variables, local outside a function, nested ternaries, illegal characters, lone & | ~, second default, stray closers, ...) placed in every composition of enclosing contexts (statement contexts: if/else/else-if/while/for/foreach/function/case/default bodies; expression contexts: conditions, iterables, switch subjects, case expressions, call arguments, array and hash elements, indexes, ternary arms and condition, parentheses, prefix and infix operands): exhaustive to depth 2 (thorough 3), random to depth 6; plus token-boundary truncations of valid programs that leave a bracket open; oracle: Prepare returns an error, also when asked again and from a second evaluator with NoOptimize; every context path is first checked to Prepare cleanly with a valid filler; non-trivial = context depth >= 1; distinct by script text")
	defer col.Flush()
	replayKnown(t, col, "C13")
	// sanity of the templates: every context path with a valid filler is accepted
	var paths [][]int
	paths = append(paths, []int{})
	maxDepth := scale(2, 3)
	var rec func(p []int, d int)
	rec = func(p []int, d int) {
		if d == 0 {
			return
		}
		for ci := range c13Contexts {
			np := append(append([]int{}, p...), ci)
			if _, ok, _ := compose(np, "1", false); !ok {
				if _, ok2, _ := compose(np, "v1 = 1;", true); !ok2 {
					continue
				}
			}
			paths = append(paths, np)
			rec(np, d-1)
		}
	}
	rec(nil, maxDepth)
	nctx := 0
	for _, p := range paths {
		for _, filler := range []struct {
			text string
			stmt bool
		}{{"1", false}, {"v1 = 1;", true}} {
			s, ok, _ := compose(p, filler.text, filler.stmt)
			if !ok {
				continue
			}
			r := eng.NewRunner(s)
			if err, pan := r.Prepare(false); err != nil || pan != nil {
				t.Fatalf("harness: context %v with a valid filler is not accepted: %q: %v %v", p, s, err, pan)
			}
			nctx++
		}
	}
	col.Set("context_paths_validated", nctx)
	for _, p := range paths {
		for _, f := range c13Fragments {
			checkFragmentAt(t, col, p, f)
		}
	}
	col.Set("exhaustive_to_depth", maxDepth)
}

func TestC13Random(t *testing.T) {
	defer silenceAs("random")()
	col := evid.New("C13", "random", "")
	rapidCheck(t, col, func(rt *rapid.T) {
		d := rapid.IntRange(3, 6).Draw(rt, "depth")
		var path []int
		for i := 0; i < d; i++ {
			path = append(path, gen.Uniform(rt, "ctx", len(c13Contexts)))
		}
		f := c13Fragments[gen.Uniform(rt, "frag", len(c13Fragments))]
		if gen.Uniform(rt, "genfrag", 6) == 0 {
			// any character that is neither a letter, a decimal digit nor part of
			// the language is illegal, wherever it stands
			var r rune
			for {
				r = rune(rapid.IntRange(0x80, 0x2ffff).Draw(rt, "rune"))
				if gen.Uniform(rt, "numeric", 2) == 0 {
					nums := []rune("²³¹¼½¾ⅧⅣ①②⑩㈠൰፩〇〡𐄇")
					r = nums[gen.Uniform(rt, "numrune", len(nums))]
				}
				if utf8.ValidRune(r) && !unicode.IsLetter(r) && !unicode.IsDigit(r) && r != '√' {
					break
				}
			}
			forms := []string{"%c", "q %c", "q + %c", "q%c", "%c q", "q%c = 1", "%c(1)"}
			f = fragment{fmt.Sprintf(forms[gen.Uniform(rt, "runeform", len(forms))], r), false, fmt.Sprintf("illegal character U+%04X", r)}
			col.Class("generated-illegal-character")
		}
		// keep only meaningful compositions (drop contexts that do not fit)
		var fit []int
		for _, ci := range path {
			np := append(append([]int{}, fit...), ci)
			if _, ok, _ := compose(np, f.text, f.stmt); ok {
				fit = np
			}
		}
		checkFragmentAt(rt, col, fit, f)
	})
}

// ---- truncations ----

var openers = map[token.Type]bool{token.LPAREN: true, token.LSQUARE: true, token.LBRACE: true}
var closers = map[token.Type]bool{token.RPAREN: true, token.RSQUARE: true, token.RBRACE: true}

func tokenText(tk token.Token) string {
	switch tk.Type {
	case token.STRING:
		return lang.QuoteString(tk.Literal)
	case token.REGEXP:
		return lang.QuoteRegexp(tk.Literal)
	}
	return tk.Literal
}

func truncations(script string) []string {
	var toks []token.Token
	l := lexer.New(script)
	for i := 0; i < 100000; i++ {
		tk := l.NextToken()
		if tk.Type == token.EOF || tk.Type == token.ILLEGAL {
			break
		}
		toks = append(toks, tk)
	}
	var out []string
	depth := 0
	var b strings.Builder
	for i, tk := range toks {
		if i > 0 {
			b.WriteByte(' ')
		}
		b.WriteString(tokenText(tk))
		if openers[tk.Type] {
			depth++
		}
		if closers[tk.Type] {
			depth--
		}
		if depth > 0 && i < len(toks)-1 {
			out = append(out, b.String())
		}
	}
	return out
}

func TestC13Truncations(t *testing.T) {
	defer silenceAs("truncations")()
	col := evid.New("C13", "truncations", "")
	defer col.Flush()
	// corpus: the repository's example scripts
	files, _ := filepath.Glob(repoRoot() + "/_examples/scripts/*")
	n := 0
	for _, f := range files {
		b, err := os.ReadFile(f)
		if err != nil {
			continue
		}
		if e, _ := eng.NewRunner(string(b)).Prepare(false); e != nil {
			continue
		}
		for _, tr := range truncations(string(b)) {
			c := &RejectCase{Prop: "C13", Kind: "truncation", Script: tr, Why: "truncated with a bracket still open: " + filepath.Base(f)}
			if err := runReject(c); err != nil {
				c.Msg = err.Error()
				violation(t, "C13", c, "%v", err)
			}
			n++
			col.Case(tr, true, func() interface{} { return map[string]string{"truncated": clip(c.Script, 300), "of": filepath.Base(f)} })
		}
	}
	col.Set("example_truncations", n)
}

func TestC13TruncationsGenerated(t *testing.T) {
	defer silenceAs("truncgen")()
	col := evid.New("C13", "truncgen", "")
	rapidCheck(t, col, func(rt *rapid.T) {
		pr := gen.Program(rt, gen.ProgOpts{Depth: 3, Block: 3, Funcs: 2, Ternary: true, Switch: true, EarlyRet: true, IncDec: true, NoSqrtFold: true})
		trs := truncations(lang.ProgramText(pr.P))
		if len(trs) == 0 {
			return
		}
		tr := trs[gen.Uniform(rt, "cut", len(trs))]
		c := &RejectCase{Prop: "C13", Kind: "truncation", Script: tr, Why: "generated program truncated with a bracket still open"}
		if err := runReject(c); err != nil {
			c.Msg = err.Error()
			violation(rt, "C13", c, "%v", err)
		}
		col.Case(tr, true, func() interface{} { return map[string]string{"truncated": clip(c.Script, 300)} })
	})
}

// TestC13Nul: a NUL character is not a silent end of the script.
func TestC13Nul(t *testing.T) {
	defer silenceAs("nul")()
	col := evid.New("C13", "nul", "")
	defer col.Flush()
	valid := []string{"return true;", "x = 1; return x;", "if (a) { return 1; } return 2;", "function f() { return 1; } return f();"}
	// (also nothing at all after the NUL, or only white space: the NUL itself
	// is the illegal character, wherever it stands - the very end included)
	junk := []string{" @@@", " return (", " }", " 3 += 4;", "\x00", " local q;", " x = \"abc", "", " ", "\n", "\t\n ", "// c", " return 1;"}
	for _, v := range valid {
		// an illegal character at every byte offset of the script, nothing else
		// changed: the NUL, the byte-order mark (wherever it stands - the very
		// start and the very end included), controls
		for _, bad := range []string{"\x00", "\ufeff", "\ufeff\ufeff", "\x01", "\x7f"} {
			for at := 0; at <= len(v); at++ {
				if at > 0 && at < len(v) && (v[at-1] == '"' || v[at] == '"') {
					continue
				}
				c := &RejectCase{Prop: "C13", Kind: "nul", Script: v[:at] + bad + v[at:], Why: "an illegal character (NUL, byte-order mark, control) is illegal wherever it stands"}
				if err := runReject(c); err != nil {
					c.Msg = err.Error()
					violation(t, "C13", c, "%v", err)
				}
				col.Case(c.Script, true, func() interface{} { return map[string]string{"script": fmt.Sprintf("%q", c.Script)} })
			}
		}
		for _, j := range junk {
			for _, sep := range []string{"\x00", "\n\x00", " \x00 "} {
				c := &RejectCase{Prop: "C13", Kind: "nul", Script: v + sep + j, Why: "text after a NUL character is invalid (and must not be dropped silently)"}
				if err := runReject(c); err != nil {
					c.Msg = err.Error()
					violation(t, "C13", c, "%v", err)
				}
				col.Case(c.Script, true, func() interface{} { return map[string]string{"script": fmt.Sprintf("%q", c.Script)} })
			}
		}
	}
}

// ---- scripts cut off inside a literal, at every byte ----

// literalPieces: statements that each hold one string or regexp literal with
// everything a literal may contain (escapes, quotes of the other kind, CR, LF,
// CR LF behind a backslash, tabs, multi-byte characters, the other
// delimiters). open = the text up to and including the opening delimiter.
var literalPieces = []struct{ open, body, close string }{
	{`a = "`, `one \` + "\r\n" + `two`, `";`},
	{`a = "`, `one \` + "\r" + `two`, `";`},
	{`a = "`, `one \` + "\n" + `two`, `";`},
	{`a = "`, `q\"uote \\ back \n \t \r 'single' /slash/ é 狐 \é`, `";`},
	{`a = '`, `q\'uote "double" \\`, `';`},
	{`a = "`, "line\r\nbreak\ttab", `";`},
	{`a = "`, ``, `";`},
	{`b = /`, `x\/y\\z[0-9]+ "q" 'r' é狐`, `/i;`},
	{`b = /`, `(?:é)\.\(`, `/im;`},
	{`c = x ~= /`, `^a b$`, `/;`},
	{`return [1, "`, `in \"array\" `, `", 2];`},
	{`h = {"`, `key \\`, `": 1};`},
}

// TestC13CutLiterals: every prefix of a script that ends inside a string or
// regexp literal is refused ("unterminated string or regexp"), every other
// prefix is refused or accepted - and Prepare comes back from all of them.
func TestC13CutLiterals(t *testing.T) { runCutLiterals(t, "C13") }

// TestC08CutLiterals reports the same run under C08 (no prefix makes Prepare panic).
func TestC08CutLiterals(t *testing.T) { runCutLiterals(t, "C08") }

func runCutLiterals(t *testing.T, prop string) {
	defer silenceAs("cutliterals")()
	col := evid.New(prop, "cutliterals", "scripts made of statements that each hold one string or regexp literal with escapes, quotes of the other kind, CR, LF, CR LF behind a backslash, tabs, multi-byte characters and the other delimiters, cut off at EVERY byte offset (exhaustive), alone and behind a valid prelude; oracle: Prepare (twice, optimizer on and off) returns - never panics - and refuses every prefix that ends inside a literal; non-trivial = the cut lies inside a literal; distinct by text")
	defer col.Flush()
	preludes := []string{"", "x = \"ok\"; y = /fine/i;\n", "function f(q) { return q + \"s\"; }\n// a comment with \"quotes\" and /slashes/\n"}
	n := 0
	for _, pre := range preludes {
		for _, lp := range literalPieces {
			full := pre + lp.open + lp.body + lp.close + "\nreturn 1;"
			if err, pan := eng.NewRunner(full).Prepare(false); err != nil || pan != nil {
				t.Fatalf("harness: the uncut script is not accepted: %q: %v %v", full, err, pan)
			}
			from, to := len(pre)+len(lp.open), len(pre)+len(lp.open)+len(lp.body)
			for cut := len(pre); cut <= len(full); cut++ {
				script := full[:cut]
				inside := cut >= from && cut <= to
				c := &RejectCase{Prop: prop, Kind: "truncation", Script: script, Why: "cut off inside a string or regexp literal"}
				for _, noOpt := range []bool{false, true} {
					r := eng.NewRunner(script)
					err, pan := r.Prepare(noOpt)
					if pan != nil {
						c.Msg = fmt.Sprintf("Prepare panicked: %v", pan)
						violation(t, prop, c, "a script cut off after %d bytes makes Prepare panic: %v", cut, pan)
					}
					if inside && err == nil && prop == "C13" {
						c.Msg = "accepted"
						violation(t, prop, c, "a script cut off inside a literal (after %d bytes) was accepted", cut)
					}
				}
				n++
				col.Case(script, inside, func() interface{} { return map[string]interface{}{"script": script, "cut_inside_literal": inside} })
			}
		}
	}
	col.Set("cut_offsets_exhaustive", true)
	col.Set("cuts", n)
}

func init() {
	replayers["C08/truncation"] = func(raw []byte) error {
		var c RejectCase
		if err := json.Unmarshal(raw, &c); err != nil {
			return err
		}
		for _, noOpt := range []bool{false, true} {
			if _, pan := eng.NewRunner(c.Script).Prepare(noOpt); pan != nil {
				return fmt.Errorf("Prepare panicked: %v", pan)
			}
		}
		return nil
	}
}
