package props

import (
	"context"
	"encoding/json"
	"fmt"
	"strings"
	"testing"
	"time"

	"pgregory.net/rapid"

	"verif/harness/bcverify"
	"verif/harness/eng"
	"verif/harness/evid"
	"verif/harness/gen"
	"verif/harness/lang"
)

// C18 — every accepted script compiles to well-formed machine code.

// VerifyCase is a script whose compiled form must verify (if accepted).
type VerifyCase struct {
	Prop   string `json:"prop"`
	Kind   string `json:"kind"`
	Script string `json:"script"`
	Twin   string `json:"twin,omitempty"` // a script that must behave identically (padding)
	Msg    string `json:"message,omitempty"`
}

var internalErrors = []string{"Pop from an empty stack", "instruction pointer is out of bounds", "access to constant which doesn't exist", "unhandled opcode"}

func verifyRunner(r *eng.Runner) (error, int, int) {
	consts, main, funcs := r.E.VerifProgram()
	cs := make([]bcverify.Const, len(consts))
	for i, c := range consts {
		cs[i] = bcverify.Const{Type: string(c.Type()), Inspect: c.Inspect()}
	}
	fb := map[string][]byte{}
	jumps := 0
	for n, f := range funcs {
		fb[n] = f.Bytecode
	}
	jumps = bcverify.CountJumps(main)
	return bcverify.Program(cs, main, fb), jumps, len(funcs)
}

// verifyScript prepares script both ways and verifies each program; then
// runs it and rejects the machine's internal errors. voidOK: the script may
// use value-less calls as operands (then internal stack errors are its own).
func verifyScript(script string, voidOK bool) (accepted bool, nontrivial bool, err error) {
	for _, noOpt := range []bool{false, true} {
		// soup scripts may loop for ever: the short deadline is their budget
		// (a timeout is not one of the machine's internal errors)
		r, perr := preparedShort(script, nil, noOpt)
		if perr != nil {
			return false, false, nil
		}
		verr, jumps, nf := verifyRunner(r)
		if verr != nil {
			return true, true, fmt.Errorf("noOptimize=%v: %v", noOpt, verr)
		}
		// "whenever Prepare accepts a script": also when the evaluator has
		// prepared before - the same script again, or (its Script field is the
		// host's to change) another script that was rejected or accepted
		fresh := programDigest(r)
		how := ""
		switch evid.Digest("c18history"+script) % 4 {
		case 0:
			how = "prepared a second time"
			if e2, pan := r.Prepare(noOpt); e2 != nil || pan != nil {
				return true, true, fmt.Errorf("noOptimize=%v: the second Prepare of the same script failed: %v %v", noOpt, e2, pan)
			}
		case 1, 2:
			how = "prepared after a script that the compiler rejected"
			other := script + "\nzq = len(zq)(1);\nzr = 1; zr.(2 += 3);"
			if evid.Digest("c18history"+script)%4 == 2 {
				how = "prepared after another accepted script"
				other = "zq = [1, 2.5, \"a\", \"zq\", 70000]; function zf(a) { return a + 1; } if ( zq ) { return zf(1); }\n" + script
			}
			r2 := eng.NewRunner(other)
			ctx2, cancel2 := context.WithTimeout(context.Background(), 2*time.Second)
			defer cancel2()
			r2.E.SetContext(ctx2)
			_, _ = r2.Prepare(noOpt)
			r2.E.Script = script
			if e2, pan := r2.Prepare(noOpt); e2 != nil || pan != nil {
				return true, true, fmt.Errorf("noOptimize=%v: Prepare of the script on an evaluator that had %s failed: %v %v", noOpt, how, e2, pan)
			}
			r = r2
		}
		if how != "" {
			if verr, _, _ := verifyRunner(r); verr != nil {
				return true, true, fmt.Errorf("noOptimize=%v, evaluator %s: %v", noOpt, how, verr)
			}
			if again := programDigest(r); again != fresh {
				return true, true, fmt.Errorf("noOptimize=%v: an evaluator %s holds another program than a fresh one: %s", noOpt, how, firstDiff(fresh, again))
			}
		}
		if jumps >= 2 || nf >= 1 {
			nontrivial = true
		}
		res := r.Execute(map[string]interface{}{})
		if res.Panic != nil {
			return true, nontrivial, fmt.Errorf("noOptimize=%v: panic escaped: %v", noOpt, res.Panic)
		}
		if res.Err != nil && !voidOK {
			for _, ie := range internalErrors {
				if strings.Contains(res.Err.Error(), ie) {
					return true, nontrivial, fmt.Errorf("noOptimize=%v: the run ended with the machine's internal error %q", noOpt, res.Err.Error())
				}
			}
		}
	}
	return true, nontrivial, nil
}

func runVerifyCase(c *VerifyCase) (bool, bool, error) {
	acc, nt, err := verifyScript(c.Script, false)
	if err != nil || c.Twin == "" {
		return acc, nt, err
	}
	if !acc {
		return acc, nt, nil
	}
	// the padded script must behave like its unpadded twin
	a := eng.Quick(c.Script, map[string]interface{}{}, nil, false)
	b := eng.Quick(c.Twin, map[string]interface{}{}, nil, false)
	if b.PrepareErr != nil {
		return acc, nt, nil
	}
	if isTimeout(a.Err) || isTimeout(b.Err) {
		// preparing tens of thousands of constants takes longer than the
		// evaluator's safety deadline on a busy machine: a time budget hit is
		// inconclusive, never a verdict (false alarm 34 of the thorough tier)
		return acc, nt, nil
	}
	if (a.Err == nil) != (b.Err == nil) {
		return acc, nt, fmt.Errorf("padded script err=%v, unpadded err=%v", a.Err, b.Err)
	}
	if a.Err == nil && a.Val.Describe() != b.Val.Describe() {
		return acc, nt, fmt.Errorf("padded script returns %s, unpadded %s", a.Val.Describe(), b.Val.Describe())
	}
	if strings.Join(a.Trace, "|") != strings.Join(b.Trace, "|") {
		return acc, nt, fmt.Errorf("padded script calls %s, unpadded %s", clip(fmt.Sprint(a.Trace), 300), clip(fmt.Sprint(b.Trace), 300))
	}
	return acc, nt, nil
}

func init() {
	replayers["C18"] = func(raw []byte) error {
		var c VerifyCase
		if err := json.Unmarshal(raw, &c); err != nil {
			return err
		}
		if c.Kind == "soup" {
			// value-less calls as operands are the script's own business there
			_, _, err := verifyScript(c.Script, true)
			if err != nil && openFinding("C18-valueless-operand") && underflow(err) && valuelessOperand(c.Script) {
				return nil
			}
			return err
		}
		_, _, err := runVerifyCase(&c)
		return err
	}
}

func TestC18Programs(t *testing.T) {
	defer silenceAs("programs")()
	col := evid.New("C18", "programs", "bytecode verifier (known opcodes with complete operands, jump targets on instruction starts inside the body, constant references exist and name strings where a name is needed, function bodies return on every path, min-stack-depth data-flow over ALL paths never below what an instruction pops) applied via the hook to main and function bodies, optimized and unoptimized, of every generated program (all program generators) and of stressor programs at the 16-bit limits; plus: no run ends in one of the machine's internal errors; non-trivial = >=2 jumps or >=1 function body; distinct by script text")
	replayKnown(t, col, "C18")
	optsList := []gen.ProgOpts{
		{Depth: 3, Block: 3, Ternary: true, Switch: true, EarlyRet: true, IncDec: true, BigInts: true, OptBias: true, PoolShift: true, NoSqrtFold: true},
		{Depth: 3, Block: 3, Funcs: 3, Clash: true, Ternary: true, Switch: true, EarlyRet: true, IncDec: true, ErrStmts: true, NoSqrtFold: true},
		{Depth: 4, Block: 2, Funcs: 2, OptBias: true, BigInts: true, Ternary: true, Switch: true, EarlyRet: true, NoSqrtFold: true},
	}
	rapidCheck(t, col, func(rt *rapid.T) {
		o := optsList[gen.Uniform(rt, "optset", len(optsList))]
		pr := gen.Program(rt, o)
		c := &VerifyCase{Prop: "C18", Kind: "program", Script: lang.ProgramText(pr.P)}
		acc, nt, err := runVerifyCase(c)
		if err != nil {
			violation(rt, "C18", c, "%v", err)
		}
		if !acc {
			violation(rt, "C18", c, "a well-formed generated program was rejected by Prepare")
		}
		cc := c
		col.Case(c.Script, nt, func() interface{} { return map[string]interface{}{"script": cc.Script} })
	})
}

// stressors are deterministic programs around the 16-bit operand limits.
func stressors(full bool) []VerifyCase {
	var out []VerifyCase
	add := func(kind, script, twin string) {
		out = append(out, VerifyCase{Prop: "C18", Kind: kind, Script: script, Twin: twin})
	}
	jumping := []string{
		`c = false; if (c) { return "then"; } else { return "else"; }`,
		`n = 0; while (n < 3) { n = n + 1; } return n;`,
		`s = 0; foreach i, v in [1, 2, 3] { s = s + v + i; } return s;`,
		`x = 2; switch (x) { case 1 { return "one"; } case 2 { return "two"; } default { return "d"; } }`,
		`c = true; x = c ? 10 : 20; return x;`,
		`function f(a) { if (a > 1) { return a; } return 0; } return f(5);`,
	}
	for _, lit := range []string{"65533", "65534", "65535", "65536", "65537", "131071"} {
		for _, j := range jumping {
			add("literal-limit", "k = "+lit+"; t = k + 1;\n"+j, "")
		}
		add("literal-limit", "return ["+lit+", "+lit+" + 1, "+lit+" * 2];", "")
	}
	// a function body whose last byte equals the return opcode (24)
	add("last-byte-24", `function f() { 24; } f(); return 1;`, "")
	add("last-byte-24", `function f() { 280; } f(); return 1;`, "") // 280 = 0x0118: low byte 24
	// function bodies that end in (or contain) another function definition
	add("nested-function", `function outer() { x = 1; function inner() { return 1; } } outer(); return 1;`, "")
	add("nested-function", `function outer() { function inner() { return 1; } } outer(); return inner();`, "")
	add("nested-function", `function outer(a) { if (a) { return 1; } function inner() { y = 2; } } outer(0); inner(); return 1;`, "")
	add("nested-function", `function a1() { function a2() { function a3() { z = 1; } } } a1(); a2(); a3(); return z;`, "")
	add("nested-function", `function outer() { function inner() { return 1; } x = 2; } outer(); return 1;`, "")
	add("nested-function", `if (true) { function late() { q = 1; } } late(); return q;`, "")
	// OpInc of constant number 24: 24 distinct constants first
	var cs []string
	for i := 0; i < 24; i++ {
		cs = append(cs, fmt.Sprintf(`"c%d"`, i))
	}
	add("last-byte-24", "function g() { z = 1; q = ["+strings.Join(cs[:21], ", ")+"]; z++; } g(); return 1;", "")
	for n := 20; n <= 28; n++ {
		var cc []string
		for i := 0; i < n; i++ {
			cc = append(cc, fmt.Sprintf(`"k%d"`, i))
		}
		add("last-byte-24", "function g() { q = ["+strings.Join(cc, ", ")+"]; zz = 1; zz++; } g(); return 1;", "")
		add("last-byte-24", "function g() { q = ["+strings.Join(cc, ", ")+"]; zz = 1; zz--; } g(); return 1;", "")
	}
	// bodies padded to the 16-bit limit, followed by each jumping construct
	pad := func(bytes int) string { return strings.Repeat("p = 1;\n", bytes/7) }
	sizes := []int{65450, 65500, 65520, 65530, 65535, 65540, 65600}
	if full {
		sizes = append(sizes, 32760, 32770, 131072, 200000)
	}
	for _, sz := range sizes {
		for _, j := range jumping {
			add("padded", pad(sz)+j, "p = 1;\n"+j)
		}
	}
	// bodies of EXACTLY 65525..65545 bytes (measured through the hook; a
	// statement "true;" is one byte), each jumping construct at the very end,
	// as the main program and as a function body: refused, or sound and
	// behaving like the short twin
	measure := func(script string, fn string) int {
		r, err := prepared(script, nil, true)
		if err != nil {
			return -1
		}
		_, main, funcs := r.E.VerifProgram()
		if fn != "" {
			return len(funcs[fn].Bytecode)
		}
		return len(main)
	}
	exactSizes := []int{65533, 65534, 65535, 65536, 65537, 65538, 65550, 65600, 66000, 70000}
	if full {
		exactSizes = nil
		for sz := 65520; sz <= 65550; sz++ {
			exactSizes = append(exactSizes, sz)
		}
		exactSizes = append(exactSizes, 65600, 66000, 70000, 131071, 131072, 131073)
	}
	for ji, j := range jumping {
		if ji >= 5 {
			break // the last one defines a function itself
		}
		for _, inFunction := range []bool{false, true} {
			wrap := func(body string) string {
				if inFunction {
					return "function big() {\n" + body + "\n}\nreturn big();"
				}
				return body
			}
			fn := ""
			if inFunction {
				fn = "big"
			}
			base := pad(64000)
			m0 := measure(wrap(base+j), fn)
			m1 := measure(wrap(base+"true;\n"+j), fn)
			if m0 < 0 || m1 != m0+1 {
				continue // the assumptions about sizes do not hold on this tree: nothing to aim at
			}
			for _, sz := range exactSizes {
				if sz-m0 < 0 {
					continue
				}
				add(fmt.Sprintf("exact-size-%d", sz), wrap(base+strings.Repeat("true;\n", sz-m0)+j), wrap("p = 1;\n"+j))
			}
		}
	}
	// bodies that are too long as written and short enough once the optimizer
	// has folded them: whether such a body is refused or accepted, what is
	// accepted is sound (the jumps behind the padding land where they should)
	foldPad := func(n int) string { return strings.Repeat("p = 1 + 1;\n", n) }
	if a, b := measure(foldPad(100)+"return p;", ""), measure(foldPad(200)+"return p;", ""); a > 0 && b > a {
		per := (b - a) / 100
		n0 := 65536 / per
		ds := []int{-3, 0, 1, 2, 4, 5, 40}
		if full {
			ds = []int{-3, -2, -1, 0, 1, 2, 3, 4, 5, 6, 7, 9, 13, 40, 200, 1000}
		}
		for ji, j := range jumping {
			if ji >= 5 {
				break
			}
			for _, d := range ds {
				add("foldable-padding", foldPad(n0+d)+j, "p = 1 + 1;\n"+j)
				if d >= 0 && d <= 5 {
					add("foldable-padding", "function big() {\n"+foldPad(n0+d)+j+"\n}\nreturn big();", "function big() {\np = 1 + 1;\n"+j+"\n}\nreturn big();")
				}
			}
		}
	}
	// many distinct constants
	counts := []int{255, 256, 257, 1000}
	if full {
		counts = append(counts, 65535, 65536, 65537)
	}
	for _, n := range counts {
		var b strings.Builder
		for i := 0; i < n; i++ {
			fmt.Fprintf(&b, "v = \"s%d\";\n", i)
		}
		b.WriteString(`if (v == "zz") { return 1; } return v;`)
		add("many-constants", b.String(), "")
	}
	// the constant pool is shared by the program and all its functions, each
	// of which may be (almost) 65535 bytes long: distinct constants spread over
	// eight function bodies, so that the pool holds exactly 65536 + d constants
	// (the overhead of names is measured on a small instance through the hook).
	// Refused, or every reference still names its own constant: the script
	// returns the last literal.
	spread := func(n int) string {
		var b strings.Builder
		per := (n + 7) / 8
		k := 0
		for f := 0; f < 8; f++ {
			fmt.Fprintf(&b, "function cf%d() {\n", f)
			for i := 0; i < per && k < n; i++ {
				fmt.Fprintf(&b, "v = \"s%d\";\n", k)
				k++
			}
			b.WriteString("return 1;\n}\n")
		}
		b.WriteString("cf0(); cf1(); cf2(); cf3(); cf4(); cf5(); cf6(); cf7();\nreturn v;")
		return b.String()
	}
	if r, err := prepared(spread(16), nil, true); err == nil {
		consts, _, _ := r.E.VerifProgram()
		overhead := len(consts) - 16
		ds := []int{1}
		if full {
			ds = []int{-2, -1, 0, 1, 2, 3}
		}
		for _, d := range ds {
			n := 65536 - overhead + d
			add(fmt.Sprintf("constant-pool-of-65536%+d", d), spread(n), fmt.Sprintf("v = \"s%d\"; return v;", n-1))
		}
	}
	// calls and arrays with many elements
	elems := []int{255, 256, 257, 2049, 4096, 4097, 5000}
	if full {
		elems = append(elems, 65535, 65536, 65537)
	}
	for _, n := range elems {
		parts := make([]string, n)
		for i := range parts {
			parts[i] = "1"
		}
		add("many-elements", "a = ["+strings.Join(parts, ",")+"]; return len(a);", "")
		add("many-elements", "return len(["+strings.Join(parts, ",")+"]) == "+fmt.Sprint(n)+";", "")
	}
	return out
}

func TestC18Stressors(t *testing.T) {
	defer silenceAs("stressors")()
	col := evid.New("C18", "stressors", "")
	defer col.Flush()
	for _, sc := range stressors(thorough()) {
		c := sc
		acc, nt, err := runVerifyCase(&c)
		if err != nil {
			c.Msg = err.Error()
			// keep replay files small: the script may be hundreds of KB
			violation(t, "C18", &c, "%s: %v", c.Kind, err)
		}
		if acc {
			col.Class("stressor-accepted:" + c.Kind)
		} else {
			col.Class("stressor-rejected:" + c.Kind)
		}
		cc := c
		col.Case(c.Script, nt || acc, func() interface{} {
			return map[string]interface{}{"kind": cc.Kind, "script_bytes": len(cc.Script), "script_head": clip(cc.Script, 200), "script_tail": cc.Script[max(0, len(cc.Script)-120):]}
		})
	}
}
