package props

import (
	"fmt"
	"reflect"
	"strings"
	"testing"

	"github.com/skx/evalfilter/v2/ast"
	"github.com/skx/evalfilter/v2/lexer"
	"github.com/skx/evalfilter/v2/parser"
	"github.com/skx/evalfilter/v2/token"
	"pgregory.net/rapid"

	"verif/harness/evid"
	"verif/harness/gen"
	"verif/harness/lang"
)

// Accepted-but-odd programs (token soup and token-level mutations of valid
// programs) for the checks that need no model: C03 (differential) and C18
// (verifier). They reach code shapes a tidy generator never writes.

// valuelessOperand reports whether the script, as the repository's parser
// reads it, uses a statement-like node (assignment, compound assignment,
// postfix ++/--, local, block constructs, function definitions) as an operand
// of another expression: the signature of known finding C18-valueless-operand.
func valuelessOperand(script string) bool {
	prog, err := parser.New(lexer.New(script)).Parse()
	if err != nil || prog == nil {
		return false
	}
	found := false
	repaired := false // the script shows a defect that was repaired: never attributed to the open finding
	valueless := func(n ast.Node) bool {
		switch x := n.(type) {
		case *ast.AssignStatement, *ast.PostfixExpression, *ast.LocalVariable, *ast.ForeachStatement, *ast.WhileStatement,
			*ast.FunctionDefinition, *ast.IfExpression, *ast.SwitchExpression, *ast.ReturnStatement, *ast.BlockStatement:
			return true
		case *ast.InfixExpression:
			switch x.Operator {
			case "+=", "-=", "*=", "/=":
				return true
			}
		case *ast.CallExpression:
			// a call may be value-less at run time; that is the script's own business
			return false
		}
		return false
	}
	// x++ is parsed as two statements, "x" and "++": the second one consumes
	// what the first one left on the stack. A postfix statement that does not
	// directly follow the bare identifier statement is the same known defect.
	checkPostfix := func(ss []ast.Statement) {
		for i, st := range ss {
			es, ok := st.(*ast.ExpressionStatement)
			if !ok {
				continue
			}
			pf, ok := es.Expression.(*ast.PostfixExpression)
			if !ok {
				continue
			}
			if pf.Token.Type != token.IDENT {
				// "++" after something that is not a name was accepted before
				// fix 6ea59da; if that comes back it is reported, not excused
				repaired = true
			}
			good := false
			if i > 0 {
				if prev, ok := ss[i-1].(*ast.ExpressionStatement); ok {
					if id, ok := prev.Expression.(*ast.Identifier); ok && id.Value == pf.Token.Literal {
						good = true
					}
				}
			}
			if !good {
				// The open finding: "x ++" where x is the tail of a larger
				// statement ("y = - x ++;"): the statement in front holds the
				// very identifier token the operator was written after. If that
				// token is in no statement at all, something else swallowed it
				// (as before fix 68c6dcc): not excused.
				if i > 0 && (holdsToken(reflect.ValueOf(ss[i-1]), pf.Token, 0) || holdsMember(reflect.ValueOf(ss[i-1]), pf.Token.Literal, 0)) {
					found = true
				} else {
					repaired = true
				}
			}
		}
	}
	var walk func(n ast.Node)
	operand := func(n ast.Node) {
		if n == nil || isNilNode(n) {
			return
		}
		if valueless(n) {
			found = true
		}
		walk(n)
	}
	walk = func(n ast.Node) {
		if n == nil || isNilNode(n) || found {
			return
		}
		switch x := n.(type) {
		case *ast.Program:
			checkPostfix(x.Statements)
			for _, s := range x.Statements {
				walk(s)
			}
		case *ast.BlockStatement:
			checkPostfix(x.Statements)
			for _, s := range x.Statements {
				walk(s)
			}
		case *ast.ExpressionStatement:
			walk(x.Expression)
		case *ast.ReturnStatement:
			operand(x.ReturnValue)
		case *ast.AssignStatement:
			operand(x.Value)
		case *ast.InfixExpression:
			operand(x.Left)
			operand(x.Right)
		case *ast.PrefixExpression:
			operand(x.Right)
		case *ast.IndexExpression:
			operand(x.Left)
			operand(x.Index)
		case *ast.CallExpression:
			for _, a := range x.Arguments {
				operand(a)
			}
			if _, ok := x.Function.(*ast.Identifier); !ok {
				found = true // a call of something that is not a name
			}
		case *ast.ArrayLiteral:
			for _, a := range x.Elements {
				operand(a)
			}
		case *ast.HashLiteral:
			for k, v := range x.Pairs {
				operand(k)
				operand(v)
			}
		case *ast.TernaryExpression:
			operand(x.Condition)
			operand(x.IfTrue)
			operand(x.IfFalse)
		case *ast.IfExpression:
			operand(x.Condition)
			walk(x.Consequence)
			if x.Alternative != nil {
				walk(x.Alternative)
			}
		case *ast.WhileStatement:
			operand(x.Condition)
			walk(x.Body)
		case *ast.ForeachStatement:
			operand(x.Value)
			walk(x.Body)
		case *ast.SwitchExpression:
			operand(x.Value)
			for _, c := range x.Choices {
				for _, e := range c.Expr {
					operand(e)
				}
				walk(c.Block)
			}
		case *ast.FunctionDefinition:
			walk(x.Body)
		}
	}
	walk(prog)
	return found && !repaired
}

// holdsToken reports whether the AST below v contains the given token
// (same type, text and position).
func holdsToken(v reflect.Value, tk token.Token, depth int) bool {
	if depth > 200 || !v.IsValid() {
		return false
	}
	switch v.Kind() {
	case reflect.Ptr, reflect.Interface:
		if v.IsNil() {
			return false
		}
		return holdsToken(v.Elem(), tk, depth+1)
	case reflect.Struct:
		if t, ok := v.Interface().(token.Token); ok {
			return t.Type == tk.Type && t.Literal == tk.Literal && t.Line == tk.Line && t.Column == tk.Column
		}
		for i := 0; i < v.NumField(); i++ {
			if v.Type().Field(i).PkgPath != "" {
				continue
			}
			if holdsToken(v.Field(i), tk, depth+1) {
				return true
			}
		}
	case reflect.Slice, reflect.Array:
		for i := 0; i < v.Len(); i++ {
			if holdsToken(v.Index(i), tk, depth+1) {
				return true
			}
		}
	case reflect.Map:
		for _, k := range v.MapKeys() {
			if holdsToken(k, tk, depth+1) || holdsToken(v.MapIndex(k), tk, depth+1) {
				return true
			}
		}
	}
	return false
}

// holdsMember reports whether the tree below v contains a member access
// "x . name": the parser replaces the identifier after the dot by a string
// literal that carries no position, so holdsToken cannot find the token that
// a following "++" was written after ("y = x . name ++;").
func holdsMember(v reflect.Value, name string, depth int) bool {
	if depth > 200 || !v.IsValid() {
		return false
	}
	switch v.Kind() {
	case reflect.Ptr, reflect.Interface:
		if v.IsNil() {
			return false
		}
		if in, ok := v.Interface().(*ast.InfixExpression); ok && in != nil && in.Operator == "." {
			if sl, ok := in.Right.(*ast.StringLiteral); ok && sl != nil && sl.Value == name && sl.Token.Line == 0 && sl.Token.Column == 0 {
				return true
			}
		}
		return holdsMember(v.Elem(), name, depth+1)
	case reflect.Struct:
		for i := 0; i < v.NumField(); i++ {
			if v.Type().Field(i).PkgPath != "" {
				continue
			}
			if holdsMember(v.Field(i), name, depth+1) {
				return true
			}
		}
	case reflect.Slice, reflect.Array:
		for i := 0; i < v.Len(); i++ {
			if holdsMember(v.Index(i), name, depth+1) {
				return true
			}
		}
	case reflect.Map:
		for _, k := range v.MapKeys() {
			if holdsMember(k, name, depth+1) || holdsMember(v.MapIndex(k), name, depth+1) {
				return true
			}
		}
	}
	return false
}

func isNilNode(n ast.Node) bool {
	switch x := n.(type) {
	case *ast.BlockStatement:
		return x == nil
	case *ast.IfExpression:
		return x == nil
	}
	return false
}

// transplantFrames put a construct X where the grammar expects an operand.
var transplantFrames = []string{"switch ( X ) { default { zt = 1; } }", "switch ( X ) { case 1 { zt = 1; } }", "switch ( X ) { }", "zt = X;", "if ( X ) { zt = 1; }", "zt = [ X ];",
	"zt = { \"k\": X };", "zt = 1 + ( X );", "foreach zv in X { zt = zv; }", "while ( X ) { zt = 1; }", "zt = id( X );", "zt = true ? X : 2;", "zt = ! X;", "zt = ( X )[0];", "local zl; zl = X;"}

func drawTransplanted(rt *rapid.T) string {
	// a whole construct of a generated program (a function definition, a
	// loop, a switch, an assignment ...) transplanted to where an operand is
	// expected; the program follows, so that what the construct defines is used
	pr := gen.Program(rt, gen.ProgOpts{Depth: 2, Block: 3, Funcs: 2, IncDec: true, Ternary: true, Switch: true, EarlyRet: true, BigInts: true, NoSqrtFold: true})
	pre := ""
	for _, v := range pr.In.Vars {
		if gen.LiteralOK(v.V) {
			pre += v.Name + " = " + lang.ExprText(lang.ValueExpr(v.V)) + ";\n"
		}
	}
	if len(pr.P.Stmts) == 0 {
		return pre + "return 1;"
	}
	k := gen.Uniform(rt, "transplant", len(pr.P.Stmts))
	x := strings.TrimSpace(lang.ProgramText(&lang.Program{Stmts: pr.P.Stmts[k : k+1]}))
	x = strings.TrimSuffix(x, ";")
	if gen.Uniform(rt, "badbody", 8) == 0 {
		// a definition whose body the parser takes and the compiler refuses
		x = rapid.SampledFrom([]string{"function zb(a) { 1 += 2; }", "function zb(a) { return a.(2 += 3); }", "function zb(a) { foreach v in a { zc = len(v)(1); } }", "function zb() { switch ( 3 -= 1 ) { default { } } }"}).Draw(rt, "badbodytext")
	}
	frame := transplantFrames[gen.Uniform(rt, "frame", len(transplantFrames))]
	rest := pr.P.Stmts
	if rapid.Bool().Draw(rt, "moved") {
		rest = append(append([]lang.Stmt{}, pr.P.Stmts[:k]...), pr.P.Stmts[k+1:]...)
	}
	return pre + strings.Replace(frame, "X", x, 1) + "\n" + lang.ProgramText(&lang.Program{Stmts: rest})
}

func drawOddProgram(rt *rapid.T, corpus []string) (string, string) {
	switch gen.Uniform(rt, "oddkind", 6) {
	case 5:
		// hash literals of every make (repeated keys, keys that print alike,
		// expression keys, nesting), built and looked at
		h := drawHashLiteral(rt, 2)
		return "h = " + h + ";\nforeach k, v in h { id(k); }\nreturn [len(h), keys(h), " + h + "];", "hash-literals"
	case 4:
		return drawTransplanted(rt), "transplanted"
	case 0:
		toks := drawTokens(rt, rapid.IntRange(1, 25).Draw(rt, "ntok"))
		s, _ := render(rt, toks, false)
		return s, "soup"
	case 1:
		return mutate(rt, rapid.SampledFrom(corpus).Draw(rt, "base")), "mutated-example"
	}
	pr := gen.Program(rt, gen.ProgOpts{Depth: 3, Block: 3, Funcs: 2, IncDec: true, Ternary: true, Switch: true, EarlyRet: true, OptBias: true, BigInts: true, NoSqrtFold: true})
	pre := ""
	for _, v := range pr.In.Vars {
		if gen.LiteralOK(v.V) {
			pre += v.Name + " = " + lang.ExprText(lang.ValueExpr(v.V)) + ";\n"
		}
	}
	return mutate(rt, pre+lang.ProgramText(pr.P)), "mutated-program"
}

func TestC03Soup(t *testing.T) {
	defer silenceAs("soup")()
	col := evid.New("C03", "soup", "")
	corpus := c08Corpus()
	rapidCheck(t, col, func(rt *rapid.T) {
		script, kind := drawOddProgram(rt, corpus)
		if containsAny(script, "√", "OPTIMIZE") && knownOptimizerShapes(script) {
			// the root of an integer constant, or the name OPTIMIZE used as a
			// variable: the two open findings; a script that merely spells the
			// characters elsewhere (in a string, a root of a variable) is in
			col.Excluded("known:sqrt-of-a-constant-or-OPTIMIZE-variable-in-mutated-text")
			return
		}
		c := &DiffCase{Prop: "C03", Kind: "diff", Script: script}
		changed, outcome, err := runDiff(c)
		if err != nil {
			c.Msg = err.Error()
			violation(rt, "C03", c, "%v", err)
		}
		col.Class("kind:" + kind)
		col.Class("outcome:" + outcome)
		col.Case(script, changed, func() interface{} {
			return map[string]interface{}{"script": clip(script, 500), "kind": kind, "outcome": outcome}
		})
	})
}

func TestC18Soup(t *testing.T) {
	defer silenceAs("soup")()
	col := evid.New("C18", "soup", "")
	corpus := c08Corpus()
	rapidCheck(t, col, func(rt *rapid.T) {
		script, kind := drawOddProgram(rt, corpus)
		c := &VerifyCase{Prop: "C18", Kind: "soup", Script: script}
		acc, nt, err := verifyScript(script, true)
		if err != nil {
			if openFinding("C18-valueless-operand") && underflow(err) && valuelessOperand(script) {
				col.Excluded("known:valueless-operand (attributed by the classifier)")
				return
			}
			c.Msg = err.Error()
			violation(rt, "C18", c, "%v", err)
		}
		col.Class("kind:" + kind)
		if acc {
			col.Class("accepted")
		} else {
			col.Class("rejected")
		}
		col.Case(script, acc && nt, func() interface{} { return map[string]interface{}{"script": clip(script, 500), "kind": kind} })
	})
}

// knownOptimizerShapes reports whether the script, as the repository's parser
// reads it, applies a square root to an operand made of integer literals
// (open finding C03-sqrt-fold; any foldable operand, since mutated text cannot
// be steered around perfect squares) or uses the name OPTIMIZE (open finding
// C03-optimize-variable). A script the parser rejects is not excluded: both
// programs must reject it.
func knownOptimizerShapes(script string) bool {
	prog, err := parser.New(lexer.New(script)).Parse()
	if err != nil || prog == nil {
		return false
	}
	var foldable func(e ast.Expression) bool
	foldable = func(e ast.Expression) bool {
		switch x := e.(type) {
		case *ast.IntegerLiteral:
			return true
		case *ast.InfixExpression:
			switch x.Operator {
			case "+", "-", "*", "/", "%", "**":
				return foldable(x.Left) && foldable(x.Right)
			}
		case *ast.PrefixExpression:
			return foldable(x.Right)
		}
		return false
	}
	found := false
	var visit func(v reflect.Value, depth int)
	visit = func(v reflect.Value, depth int) {
		if found || depth > 400 || !v.IsValid() {
			return
		}
		switch v.Kind() {
		case reflect.Ptr, reflect.Interface:
			if v.IsNil() {
				return
			}
			if v.CanInterface() {
				switch x := v.Interface().(type) {
				case *ast.PrefixExpression:
					if x != nil && x.Operator == "√" && foldable(x.Right) {
						found = true
						return
					}
				case *ast.Identifier:
					if x != nil && strings.TrimPrefix(x.Value, "$") == "OPTIMIZE" {
						found = true
						return
					}
				case *ast.AssignStatement:
					if x != nil && x.Name != nil && strings.TrimPrefix(x.Name.Value, "$") == "OPTIMIZE" {
						found = true
						return
					}
				}
			}
			visit(v.Elem(), depth+1)
		case reflect.Struct:
			for i := 0; i < v.NumField(); i++ {
				if v.Type().Field(i).PkgPath == "" {
					visit(v.Field(i), depth+1)
				}
			}
		case reflect.Slice, reflect.Array:
			for i := 0; i < v.Len(); i++ {
				visit(v.Index(i), depth+1)
			}
		case reflect.Map:
			for _, k := range v.MapKeys() {
				visit(k, depth+1)
				visit(v.MapIndex(k), depth+1)
			}
		}
	}
	visit(reflect.ValueOf(prog), 0)
	// names also reach the machine as a parameter, a loop variable, the text
	// of a member: the name anywhere in the text is enough
	return found || strings.Contains(script, "OPTIMIZE")
}

// underflow: the failure is the one the open finding C18-valueless-operand
// describes - an instruction pops a value nobody pushed. Any other defect of
// a program (a constant that does not exist, a jump out of the body, a body
// without a return) is reported even in a script that shows the signature.
func underflow(err error) bool {
	if err == nil {
		return false
	}
	m := err.Error()
	return strings.Contains(m, "operand(s) but a path reaches it with only") || strings.Contains(m, "Pop from an empty stack") || strings.Contains(m, "empty stack")
}

func containsAny(s string, subs ...string) bool {
	for _, x := range subs {
		if len(x) > 0 && len(s) >= len(x) {
			for i := 0; i+len(x) <= len(s); i++ {
				if s[i:i+len(x)] == x {
					return true
				}
			}
		}
	}
	return false
}

var _ = fmt.Sprint
