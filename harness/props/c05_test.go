package props

import (
	"fmt"
	"math"
	"testing"

	"pgregory.net/rapid"

	"verif/harness/eng"
	"verif/harness/evid"
	"verif/harness/gen"
	"verif/harness/lang"
)

// C05 — one notion of truth decides conditions, logic operators and the verdict.

var truthValues = []lang.Value{
	lang.Bool(true), lang.Bool(false), lang.Null(),
	lang.Int(0), lang.Int(1), lang.Int(-1), lang.Int(2), lang.Int(12), lang.Int(13), lang.Int(24), lang.Int(268), lang.Int(269), lang.Int(65534), lang.Int(65535), lang.Int(65536), lang.Int(65537), lang.Int(131072), lang.Int(-65536), lang.Int(-9007199254740993),
	lang.Float(0), lang.Float(0.5), lang.Float(-0.5), lang.Float(1e-7), lang.Float(3), lang.Float(5e-324), lang.Float(-5e-324), lang.Float(1e-323), lang.Float(math.MaxFloat64), lang.Float(math.Copysign(0, -1)),
	// not a number (neither positive nor anything else), and the infinities;
	// these reach a script through fields, SetVariable, functions and float()
	lang.Float(math.NaN()), lang.Float(math.Inf(1)), lang.Float(math.Inf(-1)),
	lang.Str(""), lang.Str("a"), lang.Str(" "), lang.Str("0"), lang.Str("false"),
	lang.Array(), lang.Array(lang.Int(0)), lang.Array(lang.Array()),
	lang.Hash(), lang.Hash(lang.Pair{K: lang.Str("a"), V: lang.Int(0)}),
	lang.Regexp("a"), lang.Regexp(""),
}

// truthProvenances: how the value reaches the truth-consuming position.
var truthProvenances = []string{"literal", "assigned", "setvariable", "structfield", "mapfield", "builtin", "hostfunction", "absentname", "folded", "element", "member", "indexedmember"}

// builtinExprFor returns an expression made of built-in calls that
// evaluates to a freshly allocated object equal to v (ok=false if none).
func builtinExprFor(v lang.Value) (lang.Expr, bool) {
	call := func(fn string, args ...lang.Expr) lang.Expr { return lang.Call{Fn: fn, Args: args} }
	s := func(x string) lang.Expr { return lang.Lit{V: lang.Str(x)} }
	switch v.K {
	case lang.KBool:
		if v.B {
			return call("between", lang.Lit{V: lang.Int(1)}, lang.Lit{V: lang.Int(0)}, lang.Lit{V: lang.Int(2)}), true
		}
		return call("between", lang.Lit{V: lang.Int(5)}, lang.Lit{V: lang.Int(0)}, lang.Lit{V: lang.Int(2)}), true
	case lang.KNull:
		return call("int", s("not a number")), true
	case lang.KInt:
		return call("int", s(v.Inspect())), true
	case lang.KFloat:
		return call("float", s(v.Inspect())), true
	case lang.KString:
		return call("string", s(v.S)), true
	case lang.KArray:
		if len(v.A) == 0 {
			return call("sort", lang.ArrayLit{}), true
		}
	}
	return nil, false
}

// truthOperand spells v for the provenance; ok=false when v cannot travel that way.
func truthOperand(c *Case, prelude *string, name string, v lang.Value, prov string) (lang.Expr, bool) {
	switch prov {
	case "literal":
		if !gen.LiteralOK(v) {
			return nil, false
		}
		return lang.ValueExpr(v), true
	case "assigned":
		if !gen.LiteralOK(v) {
			return nil, false
		}
		*prelude += name + " = " + lang.ExprText(lang.ValueExpr(v)) + ";\n"
		return lang.Name{N: name}, true
	case "setvariable":
		c.Vars[name] = v
		return lang.Name{N: name}, true
	case "structfield", "mapfield":
		if !eng.FieldOK(v, false) {
			return nil, false
		}
		if prov == "structfield" && v.K == lang.KNull {
			return nil, false
		}
		c.Obj.Fields = append(c.Obj.Fields, eng.Field{Name: "F" + name, V: v})
		return lang.Name{N: "F" + name}, true
	case "folded":
		// arithmetic over small integer literals that the optimizer computes
		// at Prepare time: 65536 as 256 * 256 + 0, -1 as 0 - (0 * 256 + 1), ...
		if v.K != lang.KInt || v.I > 16000000 || v.I < -16000000 {
			return nil, false
		}
		n := v.I
		if n < 0 {
			n = -n
		}
		lit := func(i int64) lang.Expr { return lang.Lit{V: lang.Int(i)} }
		var e lang.Expr = lang.Binary{Op: "+", L: lang.Binary{Op: "*", L: lit(n / 256), R: lit(256)}, R: lit(n % 256)}
		if n == 65536 && name == "r" {
			e = lang.Binary{Op: "+", L: lit(65534), R: lit(2)}
		}
		if v.I < 0 {
			e = lang.Binary{Op: "-", L: lit(0), R: e}
		}
		return e, true
	case "element":
		// the value sits in an array the host set: name[0]
		c.Vars[name+"arr"] = lang.Array(v, lang.Int(7))
		return lang.Index{X: lang.Name{N: name + "arr"}, I: lang.Lit{V: lang.Int(0)}}, true
	case "member", "indexedmember":
		// ... in a hash: name.k, name["k"]
		c.Vars[name+"hash"] = lang.Hash(lang.Pair{K: lang.Str("k"), V: v})
		if prov == "member" {
			return lang.Dot{X: lang.Name{N: name + "hash"}, N: "k"}, true
		}
		return lang.Index{X: lang.Name{N: name + "hash"}, I: lang.Lit{V: lang.Str("k")}}, true
	case "absentname":
		// null by absence: a name that is neither a variable nor a field
		if v.K != lang.KNull {
			return nil, false
		}
		return lang.Name{N: "Absent" + name}, true
	case "builtin":
		return builtinExprFor(v)
	case "hostfunction":
		if c.HostVals == nil {
			c.HostVals = map[string]lang.Value{}
		}
		c.HostVals["hv"+name] = v
		return lang.Call{Fn: "hv" + name}, true
	}
	return nil, false
}

var truthPositions = []string{"if", "if-else", "if-empty-then", "if-empty-else", "elseif", "elseif-empty", "while", "ternary", "and-left", "and-right", "or-left", "or-right", "not", "not-not", "not-in-if", "not-in-ternary", "not-in-while", "notnot-in-if", "notnot-in-ternary", "notnot-in-while", "ternary-spells-truth", "not-ternary-spells-truth", "ifelse-spells-truth", "if-ternary-spells-truth", "while-ternary-spells-truth", "ternary-number-compared", "ternary-number-in-if", "run"}

func truthScript(pos string, e lang.Expr) (string, func(truth bool, v lang.Value) lang.Value, bool) {
	x := lang.ExprText(lang.Paren{X: e})
	T, F := lang.Str("T"), lang.Str("F")
	pick := func(t bool, _ lang.Value) lang.Value {
		if t {
			return T
		}
		return F
	}
	switch pos {
	case "if":
		return `if ( ` + x + ` ) { return "T"; } return "F";`, pick, false
	case "if-else":
		return `if ( ` + x + ` ) { return "T"; } else { return "F"; }`, pick, false
	case "if-empty-then":
		return `if ( ` + x + ` ) { } else { return "F"; } return "T";`, pick, false
	case "if-empty-else":
		return `if ( ` + x + ` ) { return "T"; } else { } return "F";`, pick, false
	case "elseif":
		return `if ( false ) { return "X"; } else if ( ` + x + ` ) { return "T"; } return "F";`, pick, false
	case "elseif-empty":
		return `if ( false ) { } else if ( ` + x + ` ) { } else { return "F"; } return "T";`, pick, false
	case "while":
		return `n = 0; while ( ` + x + ` ) { n = n + 1; if ( n >= 1 ) { return "T"; } } return "F";`, pick, false
	case "ternary":
		return `return ` + x + ` ? "T" : "F";`, pick, false
	case "and-left":
		return `return ` + x + ` && true;`, func(t bool, _ lang.Value) lang.Value { return lang.Bool(t) }, false
	case "and-right":
		return `return true && ` + x + `;`, func(t bool, _ lang.Value) lang.Value { return lang.Bool(t) }, false
	case "or-left":
		return `return ` + x + ` || false;`, func(t bool, _ lang.Value) lang.Value { return lang.Bool(t) }, false
	case "or-right":
		return `return false || ` + x + `;`, func(t bool, _ lang.Value) lang.Value { return lang.Bool(t) }, false
	case "not":
		return `return ! ` + x + `;`, func(t bool, v lang.Value) lang.Value {
			switch v.K {
			case lang.KBool:
				return lang.Bool(!v.B)
			case lang.KNull:
				return lang.Bool(true)
			}
			return lang.Bool(false)
		}, false
	case "not-not":
		// !v is false for everything but false and null, so !!v is true for
		// every non-boolean, non-null value - also for the falsy ones
		return `return !! ` + x + `;`, func(t bool, v lang.Value) lang.Value {
			switch v.K {
			case lang.KBool:
				return lang.Bool(v.B)
			case lang.KNull:
				return lang.Bool(false)
			}
			return lang.Bool(true)
		}, false
	case "not-in-if":
		return `if ( ! ` + x + ` ) { return "T"; } return "F";`, func(t bool, v lang.Value) lang.Value {
			nv := false
			switch v.K {
			case lang.KBool:
				nv = !v.B
			case lang.KNull:
				nv = true
			}
			if nv {
				return lang.Str("T")
			}
			return lang.Str("F")
		}, false
	case "not-in-ternary", "not-in-while":
		body := `return ! ` + x + ` ? "T" : "F";`
		if pos == "not-in-while" {
			body = `n = 0; while ( ! ` + x + ` ) { n = n + 1; if ( n >= 1 ) { return "T"; } } return "F";`
		}
		return body, func(t bool, v lang.Value) lang.Value {
			nv := false
			switch v.K {
			case lang.KBool:
				nv = !v.B
			case lang.KNull:
				nv = true
			}
			if nv {
				return lang.Str("T")
			}
			return lang.Str("F")
		}, false
	case "notnot-in-if", "notnot-in-ternary", "notnot-in-while":
		// !!v is a boolean in its own right: true for everything but false and null
		body := `if ( !! ` + x + ` ) { return "T"; } return "F";`
		switch pos {
		case "notnot-in-ternary":
			body = `return !! ` + x + ` ? "T" : "F";`
		case "notnot-in-while":
			body = `n = 0; while ( !! ` + x + ` ) { n = n + 1; if ( n >= 1 ) { return "T"; } } return "F";`
		}
		return body, func(t bool, v lang.Value) lang.Value {
			nn := true
			switch v.K {
			case lang.KBool:
				nn = v.B
			case lang.KNull:
				nn = false
			}
			if nn {
				return lang.Str("T")
			}
			return lang.Str("F")
		}, false
	case "ternary-spells-truth":
		// the idiom that turns any value into a boolean
		return `return ` + x + ` ? true : false;`, func(t bool, _ lang.Value) lang.Value { return lang.Bool(t) }, false
	case "not-ternary-spells-truth":
		return `return ! (` + x + ` ? true : false);`, func(t bool, _ lang.Value) lang.Value { return lang.Bool(!t) }, false
	case "if-ternary-spells-truth":
		// the truth idiom feeding a condition directly
		return `if ( ` + x + ` ? true : false ) { return "T"; } return "F";`, pick, false
	case "while-ternary-spells-truth":
		return `n = 0; while ( ` + x + ` ? true : false ) { n = n + 1; if ( n >= 1 ) { return "T"; } } return "F";`, pick, false
	case "ternary-number-compared":
		return `return [(` + x + ` ? 1 : 0) == 1, (` + x + ` ? 1 : 0) != 1, (` + x + ` ? 2 : 3) + 4];`, func(t bool, _ lang.Value) lang.Value {
			if t {
				return lang.Array(lang.Bool(true), lang.Bool(false), lang.Int(6))
			}
			return lang.Array(lang.Bool(false), lang.Bool(true), lang.Int(7))
		}, false
	case "ternary-number-in-if":
		return `if ( (` + x + ` ? 1 : 0) == 1 ) { return "T"; } else { return "F"; }`, pick, false
	case "ifelse-spells-truth":
		return `function truth(q) { if ( q ) { return true; } else { return false; } } return [truth(` + x + `), ! truth(` + x + `)];`, func(t bool, _ lang.Value) lang.Value {
			return lang.Array(lang.Bool(t), lang.Bool(!t))
		}, false
	case "run":
		return `return ` + x + `;`, func(t bool, v lang.Value) lang.Value { return v }, true
	}
	panic(pos)
}

func TestC05Table(t *testing.T) {
	defer silenceAs("table")()
	col := evid.New("C05", "table", "exhaustive table: boundary values of every type x 7 provenances (literal, script variable, SetVariable with a fresh object, struct field, map field, built-in result, host-function result) x 9 truth-consuming positions (if, while, ternary, left/right of && and ||, operand of !, the boolean returned by Run), plus all ordered pairs of values under && and || over 4 provenances; oracle: the single truth function of the statement; non-trivial = the value is not the literal true/false; distinct by script + inputs")
	defer col.Flush()
	replayKnown(t, col, "C05")
	n := 0
	run := func(c *Case, nontrivial bool) {
		n++
		if c.Obj.Mode != "map" && !c.Obj.StructOK() {
			c.Obj.Mode = "map"
		}
		// every cell with and without the optimizer (an alternation by cell
		// number would tie the setting to the position's place in the list)
		for _, noOpt := range []bool{false, true} {
			c.NoOpt = noOpt
			if e := runCase(c); e != nil {
				violation(t, "C05", c, "%v", e)
			}
			cc := *c
			col.Case(fmt.Sprint(c.Script, c.Vars, c.Obj, c.HostVals, c.NoOpt, c.UseRun), nontrivial, func() interface{} { return sampleOf(&cc) })
		}
	}
	for _, v := range truthValues {
		for _, prov := range truthProvenances {
			for _, pos := range truthPositions {
				c := &Case{Prop: "C05", Kind: "table", Vars: map[string]lang.Value{}, Obj: &eng.ObjSpec{Mode: "map"}}
				if prov == "structfield" {
					c.Obj.Mode = "struct"
				}
				prelude := ""
				e, ok := truthOperand(c, &prelude, "v", v, prov)
				if !ok {
					col.Excluded("value cannot travel as " + prov)
					continue
				}
				body, expect, useRun := truthScript(pos, e)
				// dummy names first, so that the tested name lands on varying
				// constant-pool indexes (12 and 13 are the opcodes of true/false)
				shift := ""
				for k := 0; k < (n*7)%31; k++ {
					shift += fmt.Sprintf("q%d = %d; ", k, k%2)
				}
				c.Script = shift + prelude + body
				c.UseRun = useRun
				c.Exp = Expect{Val: expect(v.Truth(), v)}
				col.Class("position:" + pos)
				col.Class("provenance:" + prov)
				if prov == "absentname" {
					// the name is absent now; what earlier runs saw must not matter:
					// every history, with an empty object and with none
					for _, h := range []string{"none", "twice", "nil-first", "same-address", "wider-object-first"} {
						for _, mode := range []string{"map", "nil"} {
							cc := *c
							cc.Obj = &eng.ObjSpec{Mode: mode}
							cc.History = h
							run(&cc, true)
						}
					}
					continue
				}
				run(c, !(prov == "literal" && v.K == lang.KBool))
			}
		}
	}
	// all ordered pairs under && and ||
	pairProvs := []string{"literal", "setvariable", "mapfield", "hostfunction"}
	for i, l := range truthValues {
		for j, r := range truthValues {
			for _, op := range []string{"&&", "||"} {
				prov := pairProvs[(i+j)%len(pairProvs)]
				provs := []string{prov}
				if thorough() {
					provs = pairProvs
				}
				for _, pv := range provs {
					c := &Case{Prop: "C05", Kind: "pairs", Vars: map[string]lang.Value{}, Obj: &eng.ObjSpec{Mode: "map"}}
					prelude := ""
					le, ok1 := truthOperand(c, &prelude, "l", l, pv)
					re, ok2 := truthOperand(c, &prelude, "r", r, pv)
					if !ok1 || !ok2 {
						c = &Case{Prop: "C05", Kind: "pairs", Vars: map[string]lang.Value{}, Obj: &eng.ObjSpec{Mode: "map"}}
						prelude = ""
						le, _ = truthOperand(c, &prelude, "l", l, "setvariable")
						re, _ = truthOperand(c, &prelude, "r", r, "setvariable")
					}
					c.Script = prelude + "return " + lang.ExprText(lang.Binary{Op: op, L: le, R: re}) + ";"
					want := l.Truth() && r.Truth()
					if op == "||" {
						want = l.Truth() || r.Truth()
					}
					c.Exp = Expect{Val: lang.Bool(want)}
					col.Class("pairs:" + op)
					run(c, true)
				}
			}
		}
	}
	col.Set("table_exhaustive", true)
}

func isBoolExpr(e lang.Expr) bool {
	switch x := e.(type) {
	case lang.Binary:
		return x.Op == "&&" || x.Op == "||" || x.Op == "<" || x.Op == "<=" || x.Op == ">" || x.Op == ">="
	case lang.Unary:
		return x.Op == "!"
	}
	return false
}

func TestC05Random(t *testing.T) {
	defer silenceAs("random")()
	col := evid.New("C05", "random", "")
	rapidCheck(t, col, func(rt *rapid.T) {
		c := &Case{Prop: "C05", Kind: "random", Vars: map[string]lang.Value{}, Obj: &eng.ObjSpec{Mode: "map"}}
		prelude := ""
		nleaf := 0
		var build func(d int) (lang.Expr, bool)
		build = func(d int) (lang.Expr, bool) {
			if gen.Uniform(rt, "cmpleaf", 6) == 0 {
				// an ordering comparison of two host floats, NaN and the
				// infinities included: a boolean like any other
				specials := []float64{math.NaN(), math.Inf(1), math.Inf(-1), 0.5, 1, -1, 2.5, 0}
				a := specials[gen.Uniform(rt, "cmpa", len(specials))]
				b := specials[gen.Uniform(rt, "cmpb", len(specials))]
				nleaf++
				ea, _ := truthOperand(c, &prelude, fmt.Sprintf("ca%d", nleaf), lang.Float(a), "mapfield")
				eb, _ := truthOperand(c, &prelude, fmt.Sprintf("cb%d", nleaf), lang.Float(b), "mapfield")
				op := rapid.SampledFrom([]string{"<", "<=", ">", ">="}).Draw(rt, "cmpop")
				var tr bool
				switch op {
				case "<":
					tr = a < b
				case "<=":
					tr = a <= b
				case ">":
					tr = a > b
				default:
					tr = a >= b
				}
				if math.IsNaN(a) || math.IsNaN(b) {
					col.Class("comparison-with-NaN")
				}
				return lang.Binary{Op: op, L: ea, R: eb}, tr
			}
			if d <= 0 || gen.Uniform(rt, "leaf", 3) == 0 {
				v := rapid.SampledFrom(truthValues).Draw(rt, "val")
				prov := rapid.SampledFrom(truthProvenances).Draw(rt, "prov")
				nleaf++
				e, ok := truthOperand(c, &prelude, fmt.Sprintf("v%d", nleaf), v, prov)
				if !ok {
					e, _ = truthOperand(c, &prelude, fmt.Sprintf("w%d", nleaf), v, "setvariable")
				}
				return e, v.Truth()
			}
			switch gen.Uniform(rt, "op", 3) {
			case 0:
				x, tx := build(d - 1)
				if _, isNot := x.(lang.Unary); isNot || isBoolExpr(x) {
					// the operand is a boolean: ! negates it (this also builds !!, !!!)
					return lang.Unary{Op: "!", X: x}, !tx
				}
				// the operand of ! is made a boolean first
				return lang.Unary{Op: "!", X: lang.Binary{Op: "&&", L: x, R: lang.Lit{V: lang.Bool(true)}}}, !tx
			case 1:
				l, tl := build(d - 1)
				if gen.Uniform(rt, "andtrue", 5) == 0 {
					// x && true: the truth of x, as a boolean
					return lang.Binary{Op: "&&", L: l, R: lang.Lit{V: lang.Bool(true)}}, tl
				}
				r, tr := build(d - 1)
				return lang.Binary{Op: "&&", L: l, R: r}, tl && tr
			}
			l, tl := build(d - 1)
			if gen.Uniform(rt, "orfalse", 5) == 0 {
				return lang.Binary{Op: "||", L: l, R: lang.Lit{V: lang.Bool(false)}}, tl
			}
			r, tr := build(d - 1)
			return lang.Binary{Op: "||", L: l, R: r}, tl || tr
		}
		e, want := build(rapid.IntRange(1, scale(4, 6)).Draw(rt, "depth"))
		pos := rapid.SampledFrom([]string{"if", "if-else", "if-empty-then", "if-empty-else", "elseif", "elseif-empty", "while", "ternary", "run"}).Draw(rt, "pos")
		body, expect, useRun := truthScript(pos, e)
		c.Script = prelude + body
		c.UseRun = useRun
		c.NoOpt = rapid.Bool().Draw(rt, "noopt")
		c.Exp = Expect{Val: expect(want, lang.Bool(want))}
		if e := runCase(c); e != nil {
			violation(rt, "C05", c, "%v", e)
		}
		cc := c
		col.Case(fmt.Sprint(c.Script, c.Vars, c.Obj, c.HostVals, c.NoOpt), nleaf >= 2, func() interface{} { return sampleOf(cc) })
	})
}
