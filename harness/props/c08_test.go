package props

import (
	"context"
	"encoding/json"
	"fmt"
	"github.com/skx/evalfilter/v2/object"
	"os"
	"path/filepath"
	"strings"
	"testing"
	"time"

	"pgregory.net/rapid"

	"verif/harness/eng"
	"verif/harness/evid"
	"verif/harness/gen"
	"verif/harness/lang"
)

// C08 — bad scripts and odd objects produce errors, never a crash of the host.

// StressGen describes a large script compactly.
type StressGen struct {
	Shape string `json:"shape"`
	N     int    `json:"n"`
}

// Build spells the script.
func (g *StressGen) Build() string {
	n := g.N
	rep := strings.Repeat
	switch g.Shape {
	case "grown-array-string", "grown-hash-string", "grown-array-return", "grown-array-compare", "grown-array-in", "grown-hash-keys-return", "grown-array-print":
		// values that are nested n deep at run time, built by a loop (a few dozen
		// bytes of script, some tens of bytes of memory per level)
		grow := "a = [a];"
		if strings.Contains(g.Shape, "hash") {
			grow = "a = {\"k\": a};"
		}
		pre := fmt.Sprintf("a = 1; n = 0; while (n < %d) { %s n = n + 1; } ", n, grow)
		switch g.Shape {
		case "grown-array-string", "grown-hash-string":
			return pre + "return len(string(a));"
		case "grown-array-compare":
			return pre + "b = a; return a == b;"
		case "grown-array-in":
			return pre + "return a in [a];"
		case "grown-array-print":
			return pre + "print(a); return 1;"
		}
		return pre + "return a;"
	case "chain-in-hashkey", "chain-in-hashvalue", "chain-as-callee", "chain-as-member", "chain-assigned-to", "chain-in-case", "chain-as-index":
		// a long operator chain (a tree n deep, built without recursion by the
		// parser) in the places where something other than the compiler's
		// depth-limited walk looks at it first
		chain := "1" + rep(" + 1", n)
		switch g.Shape {
		case "chain-in-hashkey":
			return "x = { " + chain + " : 1, 2: 2 }; return 1;"
		case "chain-in-hashvalue":
			return "x = { 1: " + chain + ", 2: 2 }; return 1;"
		case "chain-as-callee":
			return "x = (" + chain + ")(1); return 1;"
		case "chain-as-member":
			return "a = {}; x = a.(" + chain + "); return 1;"
		case "chain-assigned-to":
			return chain + " = 2; return 1;"
		case "chain-in-case":
			return "switch (1) { case " + chain + " { return 2; } } return 1;"
		}
		return "a = [1]; return a[" + chain + "];"
	case "chains-nested-as-callee", "chains-nested-as-member", "chains-nested-in-hashkey":
		// chains of 99000 operators (each within the limit for one chain) inside
		// each other: every finished group is the left end of the next chain, the
		// tree is n levels deep in all
		k := n / 99000
		if k < 2 {
			k = 2
		}
		tree := rep("(", k) + "1" + rep(rep(" + 1", 99000)+")", k)
		switch g.Shape {
		case "chains-nested-as-member":
			return "a = {}; x = a.(" + tree + "); return 1;"
		case "chains-nested-in-hashkey":
			return "x = { " + tree + " : 1, 2: 2 }; return 1;"
		}
		return "x = " + tree + "(1); return 1;"
	case "paren":
		return "return " + rep("(", n) + "1" + rep(")", n) + ";"
	case "square":
		return "x = " + rep("[", n) + rep("]", n) + "; return 1;"
	case "brace":
		return "x = " + rep("{1: ", n) + "2" + rep("}", n) + "; return 1;"
	case "minus":
		return "return " + rep("- ", n) + "1;"
	case "bang":
		return "return " + rep("!", n) + "true;"
	case "sqrt":
		return "return " + rep("√", n) + "16.0;"
	case "if":
		return rep("if (1) { ", n) + "x = 1;" + rep(" }", n) + " return x;"
	case "elseif":
		return "if (a) { x = 1; }" + rep(" else if (a) { x = 2; }", n) + " return 1;"
	case "while":
		return rep("while (false) { ", n) + rep(" }", n) + " return 1;"
	case "foreach":
		return rep("foreach x in [] { ", n) + rep(" }", n) + " return 1;"
	case "function":
		return rep("function f() { ", n) + rep(" }", n) + " return 1;"
	case "switch":
		return rep("switch (1) { case 2 { ", n) + rep(" } }", n) + " return 1;"
	case "chain+":
		return "return 1" + rep(" + 1", n) + ";"
	case "chain&&":
		return "return true" + rep(" && true", n) + ";"
	case "chain..":
		return "return 1" + rep(" == 1", n) + ";"
	case "chainstr":
		return "return \"a\"" + rep(" + \"a\"", n) + ";"
	case "index":
		return "a = [[1]]; return a" + rep("[0]", n) + ";"
	case "dot":
		return "return a" + rep(".b", n) + ";"
	case "call":
		return "return " + rep("len(", n) + "1" + rep(")", n) + ";"
	case "callargs":
		return "return len(" + rep("1, ", n) + "1);"
	case "array":
		return "x = [" + rep("1, ", n) + "1]; return len(x);"
	case "hash":
		var b strings.Builder
		b.WriteString("x = {")
		for i := 0; i < n && i < 20000; i++ {
			fmt.Fprintf(&b, "%d: 1, ", i)
		}
		b.WriteString("\"z\": 1}; return len(x);")
		return b.String()
	case "statements":
		return rep("x = 1;\n", n) + "return x;"
	case "exprstatements":
		return rep("1;", n) + "return 1;"
	case "comments":
		return rep("// c\n", n) + "return 1;"
	case "semicolons":
		return "x = 1" + rep(";", n) + " return 1;"
	case "open-paren":
		return "return " + rep("(", n)
	case "open-square":
		return "x = " + rep("[", n)
	case "open-brace":
		return rep("{", n)
	case "open-if":
		return rep("if (1) { ", n)
	case "open-call":
		return "return " + rep("f(", n)
	case "close-only":
		return rep(")", n) + rep("]", n) + rep("}", n)
	case "ternary-chain":
		return "x = 1" + rep(" ? 1 : 1", n) + ";"
	case "ternary-cond":
		return "x = " + rep("(", n) + "1" + rep(" ? 1 : 0)", n) + "; return x;"
	case "assign-chain":
		return rep("a = ", n) + "1;"
	case "longident":
		return "return " + rep("a", min(n, 300000)) + ";"
	case "longstring":
		return "return len(\"" + rep("a", min(n, 300000)) + "\");"
	case "longnumber":
		return "return " + rep("9", min(n, 300000)) + ";"
	case "longregexp":
		return "return \"a\" ~= /" + rep("a", min(n, 300000)) + "/;"
	case "prefix-mix":
		return "return " + rep("-(!(", n/2) + "1" + rep("))", n/2) + ";"
	case "recursion":
		return "function f(n) { return f(n + 1); } return f(0);"
	case "mutual-recursion":
		return "function f(n) { return g(n + 1); } function g(n) { return f(n); } return f(0);"
	case "recursion-in-loop":
		return "function f(n) { foreach x in [1] { f(n + 1); } } f(0); return 1;"
	case "recursion-void":
		return "function f() { f(); } f(); return 1;"
	case "recursion-by-field":
		// runs away for an object with Count <= 0, terminates for the good object (Count 3)
		return "function f(n) { if (n <= 0) { return 0; } return f(n - Count); } return f(3);"
	case "fault-by-field":
		return "function g(a) { if (Count < 1) { panic(Unset); } return a % Count; } function f(a) { return g(a) + 1; } return f(7);"
	}
	panic("unknown shape " + g.Shape)
}

var stressShapes = []string{"paren", "square", "brace", "minus", "bang", "sqrt", "if", "elseif", "while", "foreach", "function", "switch",
	"chain+", "chain&&", "chain..", "chainstr", "index", "dot", "call", "callargs", "array", "hash", "statements", "exprstatements", "comments", "semicolons",
	"open-paren", "open-square", "open-brace", "open-if", "open-call", "close-only", "ternary-chain", "ternary-cond", "assign-chain",
	"longident", "longstring", "longnumber", "longregexp", "prefix-mix", "recursion", "mutual-recursion", "recursion-in-loop", "recursion-void", "recursion-by-field", "fault-by-field",
	"grown-array-string", "grown-hash-string", "grown-array-return", "grown-array-compare", "grown-array-in", "grown-hash-keys-return", "grown-array-print",
	"chain-in-hashkey", "chain-in-hashvalue", "chain-as-callee", "chain-as-member", "chain-assigned-to", "chain-in-case", "chain-as-index",
	"chains-nested-as-callee", "chains-nested-as-member", "chains-nested-in-hashkey"}

// CrashCase is one no-crash case.
type CrashCase struct {
	Prop   string         `json:"prop"`
	Kind   string         `json:"kind"`
	Script string         `json:"script,omitempty"`
	Hex    bool           `json:"hex,omitempty"` // Script holds hex-encoded bytes
	Gen    *StressGen     `json:"gen,omitempty"`
	Obj    *eng.GoObjSpec `json:"obj,omitempty"`
	Odd    string         `json:"odd,omitempty"`
	Wear   *WearSpec      `json:"wear,omitempty"`
	Debug  bool           `json:"debug,omitempty"` // the host sets the DEBUG variable before Prepare
	Msg    string         `json:"message,omitempty"`
}

// WearSpec: the script is run BadRuns times on an object that makes it fail
// Depth calls deep, then once on an object that needs GoodDepth nested calls.
type WearSpec struct {
	BadRuns   int  `json:"bad_runs"`
	Depth     int  `json:"depth"`
	GoodDepth int  `json:"good_depth"`
	UseRun    bool `json:"use_run"`
}

func (c *CrashCase) text() string {
	if c.Gen != nil {
		return c.Gen.Build()
	}
	if c.Hex {
		var b []byte
		fmt.Sscanf(c.Script, "%x", &b)
		return string(b)
	}
	return c.Script
}

// journal records the case about to be executed, so that a dying process
// still yields a replay.
func journal(part string, c *CrashCase) {
	out := os.Getenv("VERIF_OUT")
	if out == "" {
		return
	}
	b, _ := json.Marshal(c)
	_ = os.WriteFile(filepath.Join(out, fmt.Sprintf("C08.%s.%s.journal", part, shard())), b, 0o644)
}

func clearJournal(part string) {
	if out := os.Getenv("VERIF_OUT"); out != "" {
		_ = os.Remove(filepath.Join(out, fmt.Sprintf("C08.%s.%s.journal", part, shard())))
	}
}

var oddObjects = map[string]func() interface{}{
	"nil":               func() interface{} { return nil },
	"typed-nil":         func() interface{} { var p *oddEmbedded; return p },
	"int":               func() interface{} { return 5 },
	"string":            func() interface{} { return "text" },
	"slice":             func() interface{} { return []int{1} },
	"chan":              func() interface{} { return make(chan int) },
	"unexported":        func() interface{} { return oddUnexported{Name: "n"} },
	"embedded":          func() interface{} { return &oddEmbedded{embeddedInner{1, "in"}, 2} },
	"map[string]string": func() interface{} { return map[string]string{"Name": "x"} },
	"map[int]int":       func() interface{} { return map[int]int{1: 2} },
	"cyclic-map": func() interface{} {
		m := map[string]interface{}{"Name": "n", "Count": 1}
		m["self"] = m
		m["A0"] = m
		return m
	},
	"cyclic-through-slice": func() interface{} {
		m := map[string]interface{}{"Name": "n"}
		m["A0"] = []interface{}{1, m}
		m["H0"] = map[string]interface{}{"back": m}
		return m
	},
	"deep-map": func() interface{} {
		root := map[string]interface{}{"Name": "n"}
		cur := root
		for i := 0; i < 200000; i++ {
			next := map[string]interface{}{"v": i}
			cur["H0"] = next
			cur = next
		}
		return root
	},
	"odd-map-values": func() interface{} {
		return map[string]interface{}{"Name": uint8(3), "A0": []interface{}{nil, map[string]interface{}{"a": nil}}, "C0": func() {}, "g0": make(chan int)}
	},
}

// runCrashCase drives every API entry point; a returned error is a panic
// that escaped. Fatal errors kill the process (the driver finds the journal).
func runCrashCase(part string, c *CrashCase) (outcome string, err error) {
	journal(part, c)
	script := c.text()
	call := func(name string, f func()) {
		if err != nil {
			return
		}
		// in a goroutine of its own: a call that never comes back (a lock that
		// was not released, a wait for nothing) is reported, not waited for
		done := make(chan interface{}, 1)
		go func() {
			defer func() { done <- recover() }()
			f()
		}()
		limit := 120 * time.Second
		if c.Kind == "stress" {
			limit = 30 * time.Minute
		}
		select {
		case p := <-done:
			if p != nil && err == nil {
				err = fmt.Errorf("%s panicked into the caller: %v", name, p)
			}
		case <-time.After(limit):
			err = fmt.Errorf("%s had not returned after %v (every run has a 5 s context): the call is blocked", name, limit)
		}
	}
	var objs []interface{}
	switch {
	case c.Obj != nil:
		o, berr := c.Obj.Build()
		if berr != nil {
			return "skipped", nil
		}
		objs = append(objs, o)
	case c.Odd != "":
		objs = append(objs, oddObjects[c.Odd]())
	}
	objs = append(objs, map[string]interface{}{"Name": "n", "Count": 3, "A0": []interface{}{1, "a"}})
	ctx, cancel := context.WithTimeout(context.Background(), 5*time.Second)
	defer cancel()
	r := eng.NewRunner(script)
	r.E.SetContext(ctx)
	if c.Debug {
		r.E.SetVariable("DEBUG", &object.Boolean{Value: true})
	}
	var perr error
	call("Prepare", func() { perr = r.E.Prepare() })
	if err != nil {
		return "", err
	}
	if perr != nil {
		// a host that goes on regardless gets errors, not panics
		outcome = "rejected"
		obj := objs[len(objs)-1]
		call("Dump after a failed Prepare", func() { _ = r.E.Dump() })
		call("Run after a failed Prepare", func() { _, _ = r.E.Run(obj) })
		call("a second Run after a failed Prepare", func() { _, _ = r.E.Run(obj) })
		call("a second Prepare after a failed one", func() { _ = r.E.Prepare() })
		call("Run after two failed Prepares", func() { _, _ = r.E.Run(obj) })
		call("Execute after a failed Prepare", func() {
			out, xerr := r.E.Execute(obj)
			if xerr == nil && out == nil && err == nil {
				err = fmt.Errorf("Execute after a failed Prepare returned neither an object nor an error")
			}
		})
		return outcome, err
	}
	outcome = "prepared"
	for round := 0; round < 2; round++ {
		for _, o := range objs {
			obj := o
			call("Dump", func() { _ = r.E.Dump() })
			call("Run", func() { _, _ = r.E.Run(obj) })
			call("Execute", func() {
				out, xerr := r.E.Execute(obj)
				if xerr == nil && out == nil && err == nil {
					err = fmt.Errorf("Execute returned neither an object nor an error")
				}
				if xerr == nil && out != nil {
					// a host looks at what it got: type, printed form, truth
					_ = out.Type()
					_ = out.Inspect()
					_ = out.True()
					if j, ok := out.(object.JSONAble); ok {
						_, _ = j.JSON()
					}
				}
			})
			if err != nil {
				return "", err
			}
		}
	}
	// "the evaluator remains usable afterwards": the good object is answered
	// the way a fresh evaluator answers it (value vs error)
	if c.Kind != "stress" {
		// generated programs keep variables from run to run by design, so a
		// fresh evaluator is no reference for them (C07 compares those with
		// the variables copied over)
		return outcome, nil
	}
	good := objs[len(objs)-1]
	used := r.Execute(good)
	fresh := eng.NewRunner(script)
	fresh.E.SetContext(ctx)
	if ferr, fpan := fresh.Prepare(false); ferr == nil && fpan == nil {
		fr := fresh.Execute(good)
		if used.Panic != nil || fr.Panic != nil {
			return "", fmt.Errorf("panic escaped on the good object: used=%v fresh=%v", used.Panic, fr.Panic)
		}
		if !isTimeout(used.Err) && !isTimeout(fr.Err) && (used.Err == nil) != (fr.Err == nil) {
			return "", fmt.Errorf("after the faulty runs the evaluator answers a good object with err=%v, a fresh evaluator with err=%v", used.Err, fr.Err)
		}
	}
	return outcome, nil
}

// runWear: "the evaluator remains usable afterwards", however many runs failed.
func runWear(part string, c *CrashCase) (err error) {
	journal(part, c)
	w := c.Wear
	ctx, cancel := context.WithTimeout(context.Background(), 60*time.Second)
	defer cancel()
	r := eng.NewRunner(c.Script)
	r.E.SetContext(ctx)
	if perr, pan := r.Prepare(false); perr != nil || pan != nil {
		return fmt.Errorf("Prepare failed on a valid script: %v %v", perr, pan)
	}
	bad := map[string]interface{}{"Depth": w.Depth, "Bad": true}
	good := map[string]interface{}{"Depth": w.GoodDepth, "Bad": false}
	for i := 0; i < w.BadRuns; i++ {
		var pan interface{}
		var rerr error
		func() {
			defer func() { pan = recover() }()
			if w.UseRun {
				_, rerr = r.E.Run(bad)
			} else {
				_, rerr = r.E.Execute(bad)
			}
		}()
		if pan != nil {
			return fmt.Errorf("failing run %d panicked into the caller: %v", i, pan)
		}
		if rerr == nil {
			return fmt.Errorf("harness: the failing object did not fail")
		}
	}
	used := r.Execute(good)
	fresh := eng.NewRunner(c.Script)
	fresh.E.SetContext(ctx)
	if perr, pan := fresh.Prepare(false); perr != nil || pan != nil {
		return fmt.Errorf("Prepare failed on a valid script: %v %v", perr, pan)
	}
	fr := fresh.Execute(good)
	if used.Panic != nil || fr.Panic != nil {
		return fmt.Errorf("panic escaped on the good object: used=%v fresh=%v", used.Panic, fr.Panic)
	}
	if isTimeout(used.Err) || isTimeout(fr.Err) {
		return nil
	}
	if (used.Err == nil) != (fr.Err == nil) || (used.Err == nil && !lang.DeepEqual(used.Val, fr.Val)) {
		return fmt.Errorf("after %d failing runs the evaluator answers the good object with (%s, err=%v); a fresh evaluator with (%s, err=%v)", w.BadRuns, used.Val.Describe(), used.Err, fr.Val.Describe(), fr.Err)
	}
	return nil
}

func TestC08Wear(t *testing.T) { wearCheck(t, "C08") }

// TestC07Wear: the same histories seen as C07's subject - whatever the failing
// runs leave behind in the evaluator is hidden state between runs.
func TestC07Wear(t *testing.T) { wearCheck(t, "C07") }

func wearCheck(t *testing.T, prop string) {
	defer silenceAs("wear")()
	col := evid.New(prop, "wear", "")
	defer clearJournal("wear")
	faults := []string{"return 1 % 0;", "return 1 / 0;", "panic(\"x\");", "panic(Unset);", "panic();", "panic(n, bad);", "panic([n]);", "return nosuch(n);", "return \"a\" + 1;", "return 1 .. \"a\";", "foreach z in 5 { n = z; } return n;", "return -\"a\";", "return len(1, 2) % 0;", "return dive(n + 1, bad);", "return 1 + dive(n, bad) + dive(n, bad);"}
	rapidCheck(t, col, func(rt *rapid.T) {
		fault := faults[gen.Uniform(rt, "fault", len(faults))]
		w := &WearSpec{BadRuns: rapid.SampledFrom([]int{1, 3, 40, 150, 400}).Draw(rt, "badruns"), Depth: rapid.SampledFrom([]int{0, 1, 5, 30, 120}).Draw(rt, "depth"),
			GoodDepth: rapid.SampledFrom([]int{0, 10, 300, 3000, 9000, 9990, 9998}).Draw(rt, "gooddepth"), UseRun: rapid.Bool().Draw(rt, "userun")}
		var script string
		switch gen.Uniform(rt, "wshape", 3) {
		case 0:
			script = "function dive(n, bad) { if (n <= 0) { if (bad) { " + fault + " } return 0; } return 1 + dive(n - 1, bad); }\nreturn dive(Depth, Bad);"
		case 1:
			script = "function leaf(n, bad) { local q; q = n; if (bad) { " + fault + " } return q; }\nfunction dive(n, bad) { if (n <= 0) { return leaf(n, bad); } foreach i in [1] { return i + dive(n - 1, bad); } return 0; }\nreturn dive(Depth, Bad);"
		default:
			script = "function a(n, bad) { if (n <= 0) { if (bad) { " + fault + " } return 0; } return 1 + b(n - 1, bad); }\nfunction b(n, bad) { if (n <= 0) { if (bad) { " + fault + " } return 0; } return 1 + a(n - 1, bad); }\nreturn a(Depth, Bad);"
		}
		c := &CrashCase{Prop: prop, Kind: "wear", Script: script, Wear: w}
		if err := runWear("wear", c); err != nil {
			if strings.HasPrefix(err.Error(), "harness:") {
				t.Fatalf("%v (%s)", err, script)
			}
			c.Msg = err.Error()
			violation(rt, prop, c, "%v", err)
		}
		col.Class(fmt.Sprintf("failing-runs:%d", w.BadRuns))
		col.Class("fault:" + fault)
		cc := c
		col.Case(fmt.Sprint(script, *w), w.BadRuns >= 3, func() interface{} { return cc })
	})
}

func init() {
	replayers["C07/wear"] = func(raw []byte) error {
		var c CrashCase
		if err := json.Unmarshal(raw, &c); err != nil {
			return err
		}
		return runWear("replay", &c)
	}
	replayers["C08"] = func(raw []byte) error {
		var c CrashCase
		if err := json.Unmarshal(raw, &c); err != nil {
			return err
		}
		if c.Wear != nil {
			return runWear("replay", &c)
		}
		if c.Obj != nil {
			c.Obj.Fix()
		}
		_, err := runCrashCase("replay", &c)
		return err
	}
}

// corpus of valid scripts to mutate
func c08Corpus() []string {
	var out []string
	files, _ := filepath.Glob(repoRoot() + "/_examples/scripts/*")
	for _, f := range files {
		if b, err := os.ReadFile(f); err == nil && len(b) < 20000 {
			out = append(out, string(b))
		}
	}
	out = append(out, `if ( Name ~= /steve/i ) { return true; } return false;`,
		`function sum(a) { local r; r = 0; foreach x in a { r = r + x; } return r; } return sum(1..10);`,
		`switch (Name) { case "a", "b" { return 1; } case /^c/ { return 2; } default { return 3; } }`,
		`x = Count > 3 ? "big" : "small"; return x + string(len(A0));`,
		`h = {"a": 1, 2: [1,2,3]}; foreach k, v in h { printf("%v %v\n", k, v); } return keys(h);`)
	return out
}

func mutate(rt *rapid.T, src string) string {
	toks := truncTokens(src)
	if len(toks) == 0 {
		return src
	}
	n := rapid.IntRange(1, 4).Draw(rt, "nmut")
	for i := 0; i < n && len(toks) > 0; i++ {
		p := gen.Uniform(rt, "pos", len(toks))
		if rapid.Bool().Draw(rt, "structural") {
			// half of the mutations hit the tokens that carry the structure
			var idx []int
			for j, tk := range toks {
				if structuralToken[tk] {
					idx = append(idx, j)
				}
			}
			if len(idx) > 0 {
				p = idx[gen.Uniform(rt, "spos", len(idx))]
			}
		}
		switch gen.Uniform(rt, "mut", 6) {
		case 0: // delete
			toks = append(toks[:p], toks[p+1:]...)
		case 1: // duplicate
			toks = append(toks[:p+1], toks[p:]...)
		case 2: // swap
			q := gen.Uniform(rt, "pos2", len(toks))
			toks[p], toks[q] = toks[q], toks[p]
		case 3: // replace by a hostile token
			toks[p] = rapid.SampledFrom([]string{"(", ")", "{", "}", "[", "]", "=", "==", "+=", "++", "?", ":", ";", "local", "return", "function", "foreach", "in", "case", "default", "/", "//", "\"", "√", "-", "!", ".", "..", "65535", "65536", "0", "null", "panic()"}).Draw(rt, "hostile")
		case 4: // truncate
			toks = toks[:p]
		default: // splice from another place
			q := gen.Uniform(rt, "from", len(toks))
			r := q + gen.Uniform(rt, "len", 6)
			if r > len(toks) {
				r = len(toks)
			}
			seg := append([]string{}, toks[q:r]...)
			toks = append(toks[:p], append(seg, toks[p:]...)...)
		}
	}
	return strings.Join(toks, " ")
}

var structuralToken = map[string]bool{"{": true, "}": true, "(": true, ")": true, "[": true, "]": true, ";": true, ",": true, "in": true, "foreach": true,
	"function": true, "if": true, "else": true, "while": true, "for": true, "switch": true, "case": true, "default": true, "return": true, "local": true, "=": true, "?": true, ":": true, "++": true, "--": true}

func truncTokens(src string) []string {
	var out []string
	for _, st := range lexSrcToks(src) {
		out = append(out, st)
	}
	return out
}

func TestC08Random(t *testing.T) {
	defer silenceAs("random")()
	col := evid.New("C08", "random", "executed in worker processes that journal every case before running it (a dying process still yields a replay); part wear: 1-400 failing runs 0-120 calls deep followed by a run needing up to 9000 nested calls must answer like a fresh evaluator; (a) raw byte strings, token soup and token-level mutations (delete, duplicate, swap, hostile replacement, truncation, splice) of the repository's example scripts; (b) generated valid programs with run-time faults (bad indexes, wrong types, /0, panic(), unknown functions, wrong arity, value-less calls) and unbounded recursion; (c) size/depth stressors of 44 shapes (nesting of ( [ { - ! if else-if while foreach function switch call index, operator chains, long literals, unterminated openers) up to 10^5 (thorough 2*10^6) repetitions, scripts <= 8 MiB; (d) host objects with fields of arbitrary kinds, maps with arbitrary values, nil, typed nil, scalars, channels; per case Prepare, then Dump/Run/Execute twice on each object, then the same on a good object; oracle: no panic leaves Prepare/Run/Execute/Dump, Execute never returns (nil, nil), the process survives; non-trivial = the case reaches the VM or is rejected by the parser below the top level; distinct by case digest")
	replayKnown(t, col, "C08")
	corpus := c08Corpus()
	defer clearJournal("random")
	rapidCheck(t, col, func(rt *rapid.T) {
		c := &CrashCase{Prop: "C08", Kind: "random"}
		kind := rapid.SampledFrom([]string{"bytes", "soup", "mutation", "mutation", "program", "program", "object", "transplanted"}).Draw(rt, "kind")
		switch kind {
		case "transplanted":
			c.Script = drawTransplanted(rt)
		case "bytes":
			b := rapid.SliceOfN(rapid.Byte(), 0, 80).Draw(rt, "bytes")
			c.Script = fmt.Sprintf("%x", b)
			c.Hex = true
		case "soup":
			toks := drawTokens(rt, rapid.IntRange(1, 25).Draw(rt, "ntok"))
			c.Script, _ = render(rt, toks, false)
		case "mutation":
			c.Script = mutate(rt, rapid.SampledFrom(corpus).Draw(rt, "base"))
		case "program", "object":
			pr := gen.Program(rt, gen.ProgOpts{Depth: 3, Block: 3, Funcs: 2, Clash: true, IncDec: true, Ternary: true, Switch: true, EarlyRet: true, ErrStmts: true, BigInts: true, OptBias: true})
			c.Script = lang.ProgramText(pr.P)
			if rapid.Bool().Draw(rt, "mutateprog") {
				c.Script = mutate(rt, c.Script)
			}
		}
		// the execution trace: switched on by the host, or by the script itself
		switch gen.Uniform(rt, "debug", 12) {
		case 0:
			c.Debug = true
			col.Class("debug-trace:host")
		case 1:
			if !c.Hex {
				c.Script = "DEBUG = true;\n" + c.Script
				col.Class("debug-trace:script")
			}
		}
		if kind == "object" || gen.Uniform(rt, "oddobj", 4) == 0 {
			if rapid.Bool().Draw(rt, "named") {
				names := make([]string, 0, len(oddObjects))
				for n := range oddObjects {
					names = append(names, n)
				}
				sortStrings(names)
				c.Odd = rapid.SampledFrom(names).Draw(rt, "odd")
			} else {
				o, _ := drawObject(rt, true)
				// use the names the generated programs refer to
				for i := range o.Fields {
					o.Fields[i].Name = rapid.SampledFrom([]string{"Name", "Count", "A0", "A1", "H0", "C0", "C1", "g0", "s0"}).Draw(rt, "fname")
				}
				o.Fields = dedupFields(o.Fields)
				c.Obj = &o
			}
		}
		if (c.Obj != nil || c.Odd != "") && gen.Uniform(rt, "elementscript", 3) == 0 {
			// hand a member of a (possibly unconvertible) field straight back
			f := rapid.SampledFrom([]string{"Name", "Count", "A0", "A1", "H0", "C0", "C1", "g0", "s0", "self"}).Draw(rt, "elfield")
			c.Script = rapid.SampledFrom([]string{"return F[0];", "x = F[1]; return x;", "foreach p in F { return p; }", "return F ? F[0] : F;", "return F.a;", "return [F[0], F];", "foreach k, p in F { if (k) { return p; } } return F;"}).Draw(rt, "elscript")
			c.Script = strings.ReplaceAll(c.Script, "F", f)
			c.Hex = false
		}
		outcome, err := runCrashCase("random", c)
		if err != nil {
			c.Msg = err.Error()
			violation(rt, "C08", c, "%v", err)
		}
		col.Class("kind:" + kind)
		col.Class("outcome:" + outcome)
		cc := c
		col.Case(fmt.Sprint(c.Script, c.Odd, c.Obj), outcome == "prepared" || strings.Count(c.text(), "{")+strings.Count(c.text(), "(") >= 2, func() interface{} {
			return map[string]interface{}{"script": fmt.Sprintf("%q", clip(cc.text(), 400)), "object": cc.Odd, "outcome": outcome}
		})
	})
}

func dedupFields(fs []eng.GoField) []eng.GoField {
	seen := map[string]bool{}
	var out []eng.GoField
	for _, f := range fs {
		if !seen[f.Name] {
			seen[f.Name] = true
			out = append(out, f)
		}
	}
	return out
}

func TestC08Stress(t *testing.T) {
	defer silenceAs("stress")()
	col := evid.New("C08", "stress", "")
	defer col.Flush()
	defer clearJournal("stress")
	sizes := []int{1000, 100000}
	if thorough() {
		sizes = []int{1000, 100000, 2000000}
	}
	si, sn := shardIndex()
	k := 0
	_ = 0
	deepQuick := map[string]bool{"comments": true, "paren": true, "minus": true, "bang": true, "open-paren": true, "prefix-mix": true, "elseif": true, "chain&&": true, "index": true, "call": true, "if": true,
		"grown-array-string": true, "grown-hash-string": true, "grown-array-return": true, "grown-array-print": true,
		"chain-in-hashkey": true, "chain-as-callee": true, "chain-as-member": true, "chains-nested-as-callee": true, "chains-nested-as-member": true}
	for _, shape := range stressShapes {
		ss := sizes
		if !thorough() && deepQuick[shape] {
			ss = append(append([]int{}, sizes...), 2000000)
		}
		for _, n := range ss {
			k++
			if k%sn != si {
				continue
			}
			g := &StressGen{Shape: shape, N: n}
			if len(g.Build()) > 8<<20 {
				g.N = n / 4
			}
			if shape == "comments" && n >= 2000000 {
				g.N = 6000000 // 30 MB of nothing but comments
			}
			if strings.HasPrefix(shape, "chain-in-hash") && n == 100000 {
				g.N = 20000 // sorting the pairs of a hash literal prints them: quadratic in the chain length
			}
			if strings.HasPrefix(shape, "chains-nested") {
				g.N = n
				if n >= 2000000 {
					g.N = 12000000 // 48 MB: a tree twelve million levels deep, if it is built
				}
			}
			if strings.HasPrefix(shape, "chain-") && n >= 2000000 {
				g.N = 6000000 // 24 MB of "+ 1": deep enough for a recursive walk to exhaust the stack
			}
			if strings.HasPrefix(shape, "grown-") && n >= 2000000 {
				g.N = 3000000 // a value nested three million deep costs ~150 MB, no more
			}
			c := &CrashCase{Prop: "C08", Kind: "stress", Gen: g}
			if strings.HasSuffix(shape, "-by-field") {
				c.Obj = &eng.GoObjSpec{Mode: "map", Fields: []eng.GoField{{Name: "Count", Kind: "int", V: lang.Int(0)}}}
			}
			start := time.Now()
			outcome, err := runCrashCase("stress", c)
			if err != nil {
				c.Msg = err.Error()
				violation(t, "C08", c, "%s x %d: %v", shape, g.N, err)
			}
			col.Class("outcome:" + outcome)
			col.Class("shape:" + shape)
			col.Case(fmt.Sprint(shape, g.N), true, func() interface{} {
				return map[string]interface{}{"shape": shape, "n": g.N, "script_bytes": len(g.Build()), "outcome": outcome, "seconds": time.Since(start).Seconds()}
			})
		}
	}
}
