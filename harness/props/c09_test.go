package props

import (
	"os"
	"context"
	"encoding/json"
	"fmt"
	"math"
	"strings"
	"sync/atomic"
	"testing"
	"time"

	"github.com/skx/evalfilter/v2/object"
	"pgregory.net/rapid"

	"verif/harness/eng"
	"verif/harness/evid"
	"verif/harness/gen"
	"verif/harness/lang"
)

// C09 — a deadline or cancellation stops any script promptly.

// DeadlineCase is an endless (or terminating control) script under a context.
type DeadlineCase struct {
	Prop    string `json:"prop"`
	Kind    string `json:"kind"`
	Script  string `json:"script"`
	Ctx     string `json:"context"` // cancelled | past | deadline | cancel-later | none-control | long-control
	Millis  int    `json:"millis"`
	UseRun  bool   `json:"use_run"`
	NoOpt   bool   `json:"noopt"`
	Endless bool   `json:"endless"`
	// FarDeadline: the cancellable contexts are derived from a parent whose
	// deadline lies ten minutes ahead (cancellation comes first). Derived: the
	// context handed over is a child (WithValue) of the one described.
	FarDeadline bool `json:"far_deadline,omitempty"`
	Derived     bool `json:"derived,omitempty"`
	// PrepHistory: what the evaluator went through before the context under
	// test was given to it: "" (nothing), "validate-first" (a Prepare without any
	// context, as hosts do to validate a script), "other-context-first" (a
	// Prepare under a context that stays alive), "expired-first" (a Prepare and
	// a run under a context that has already ended). Then SetContext + Prepare.
	PrepHistory string `json:"prep_history,omitempty"`
	// FaultFirst: before the judged run the evaluator has a run (under the
	// same, still living context) that ends in a recovered fault: the script
	// starts with "if ( Boom ) { <fault> }" and that run's object sets Boom.
	// TZ: value of the TZ variable during the case ("" = left alone): the time
	// built-ins consult it on every call
	TZ string `json:"tz,omitempty"`
	FaultFirst string `json:"fault_first,omitempty"`
	Msg        string `json:"message,omitempty"`
}

type c09Key struct{}

// c09Object: the object every run gets (the ends of the integers included).
func c09Object() map[string]interface{} {
	return map[string]interface{}{"N": 3, "Min": int64(math.MinInt64), "Max": int64(math.MaxInt64)}
}

// margin is how long after the deadline a return is still "prompt". Normal
// latency is microseconds; the bound is the subject of the property.
const c09Margin = 3 * time.Second

func runDeadline(c *DeadlineCase) error {
	if c.TZ != "" {
		old, had := os.LookupEnv("TZ")
		os.Setenv("TZ", c.TZ)
		defer func() {
			if had {
				os.Setenv("TZ", old)
			} else {
				os.Unsetenv("TZ")
			}
		}()
	}
	var traced int32
	mk := func(ctx context.Context) (*eng.Runner, error) {
		r := eng.NewRunner(c.Script)
		r.E.AddFunction("trace", func(args []object.Object) object.Object {
			atomic.AddInt32(&traced, 1)
			return &object.Void{}
		})
		if ctx != nil && c.PrepHistory != "" {
			switch c.PrepHistory {
			case "other-context-first":
				other, ocancel := context.WithTimeout(context.Background(), 10*time.Minute)
				_ = ocancel // stays alive as long as the evaluator
				r.E.SetContext(other)
			case "expired-first":
				dead, dcancel := context.WithCancel(context.Background())
				dcancel()
				r.E.SetContext(dead)
			}
			if err, pan := r.Prepare(c.NoOpt); err != nil || pan != nil {
				return nil, fmt.Errorf("first Prepare failed: %v %v", err, pan)
			}
			if c.PrepHistory == "expired-first" {
				if _, xerr := r.E.Execute(c09Object()); xerr == nil {
					return nil, fmt.Errorf("a run under an already-cancelled context (first Prepare) returned no error")
				}
				atomic.StoreInt32(&traced, 0)
			}
		}
		if ctx != nil {
			r.E.SetContext(ctx)
		}
		err, pan := r.Prepare(c.NoOpt)
		if pan != nil {
			return nil, fmt.Errorf("Prepare panicked: %v", pan)
		}
		return r, err
	}
	var ctx context.Context
	cancel := func() {}
	limit := c09Margin
	base := context.Background()
	if c.FarDeadline {
		var bcancel context.CancelFunc
		base, bcancel = context.WithTimeout(context.Background(), 10*time.Minute)
		defer bcancel()
	}
	switch c.Ctx {
	case "cancelled":
		var cf context.CancelFunc
		ctx, cf = context.WithCancel(base)
		cf()
	case "past":
		ctx, cancel = context.WithDeadline(context.Background(), time.Now().Add(-time.Second))
	case "deadline":
		ctx, cancel = context.WithTimeout(context.Background(), time.Duration(c.Millis)*time.Millisecond)
		limit += time.Duration(c.Millis) * time.Millisecond
	case "cancel-later":
		var cf context.CancelFunc
		ctx, cf = context.WithCancel(base)
		cancel = cf
		limit += time.Duration(c.Millis) * time.Millisecond
	case "long-control":
		ctx, cancel = context.WithTimeout(context.Background(), 30*time.Second)
		limit = 30 * time.Second
	case "cancel-after-runs":
		var cf context.CancelFunc
		ctx, cf = context.WithCancel(base)
		cancel = cf
	}
	defer cancel()
	if c.Derived {
		ctx = context.WithValue(ctx, c09Key{}, 1)
	}
	r, err := mk(ctx)
	if err != nil {
		return fmt.Errorf("Prepare rejected the script: %v", err)
	}
	if c.FaultFirst != "" && c.Ctx != "cancelled" && c.Ctx != "past" {
		boom := c09Object()
		boom["Boom"] = true
		fdone := make(chan error, 1)
		go func() {
			defer func() {
				if p := recover(); p != nil {
					fdone <- fmt.Errorf("panic: %v", p)
				}
			}()
			_, ferr := r.E.Execute(boom)
			fdone <- ferr
		}()
		select {
		case ferr := <-fdone:
			if ferr == nil {
				return fmt.Errorf("harness: the run that was meant to fail (%s) returned no error", c.FaultFirst)
			}
		case <-time.After(limit + 10*time.Second):
			return fmt.Errorf("the run that fails at once (%s) had not returned after %v", c.FaultFirst, limit+10*time.Second)
		}
		atomic.StoreInt32(&traced, 0)
	}
	if c.Ctx == "cancel-after-runs" {
		// the evaluator is used successfully first; then the context ends; the
		// next run must not execute anything
		for i := 0; i < c.Millis; i++ {
			if _, err := r.E.Execute(c09Object()); err != nil && c.Endless == false {
				return nil // the control script fails by itself: nothing to learn
			}
		}
		cancel()
		atomic.StoreInt32(&traced, 0)
		// not one run but several: each must come back at once, with an error
		for again := 0; again < 3; again++ {
			type res2t struct {
				err error
				pan interface{}
			}
			done2 := make(chan res2t, 1)
			useRun := c.UseRun || again == 1
			go func() {
				var res2 res2t
				defer func() {
					res2.pan = recover()
					done2 <- res2
				}()
				if useRun {
					_, res2.err = r.E.Run(c09Object())
				} else {
					_, res2.err = r.E.Execute(c09Object())
				}
			}()
			var res2 res2t
			select {
			case res2 = <-done2:
			case <-time.After(c09Margin):
				return fmt.Errorf("after %d successful run(s) the context was cancelled; run %d after that did not return within %v", c.Millis, again+1, c09Margin)
			}
			if res2.pan != nil {
				return fmt.Errorf("panic: %v", res2.pan)
			}
			if res2.err == nil {
				return fmt.Errorf("after %d successful run(s) the context was cancelled, yet run %d after that executed and returned no error", c.Millis, again+1)
			}
			if n := atomic.LoadInt32(&traced); n != 0 {
				return fmt.Errorf("after %d successful run(s) the context was cancelled, yet run %d after that made %d host call(s)", c.Millis, again+1, n)
			}
		}
		return nil
	}
	type result struct {
		val lang.Value
		ok  bool
		err error
		pan interface{}
	}
	done := make(chan result, 1)
	start := time.Now()
	go func() {
		var res result
		defer func() {
			if p := recover(); p != nil {
				res.pan = p
			}
			done <- res
		}()
		if c.UseRun {
			res.ok, res.err = r.E.Run(c09Object())
		} else {
			out, xerr := r.E.Execute(c09Object())
			res.err = xerr
			if xerr == nil {
				res.val, _ = eng.FromObject(out)
			}
		}
	}()
	if c.Ctx == "cancel-later" {
		go func() {
			time.Sleep(time.Duration(c.Millis) * time.Millisecond)
			cancel()
		}()
	}
	var res result
	select {
	case res = <-done:
	case <-time.After(limit):
		return fmt.Errorf("the script was still running %v after its context ended (context %s, %d ms)", c09Margin, c.Ctx, c.Millis)
	}
	elapsed := time.Since(start)
	if res.pan != nil {
		return fmt.Errorf("panic: %v", res.pan)
	}
	if c.Endless {
		if res.err == nil {
			return fmt.Errorf("an endless script returned without an error after %v (value %s)", elapsed, res.val.Describe())
		}
		if (c.Ctx == "cancelled" || c.Ctx == "past") && atomic.LoadInt32(&traced) != 0 {
			return fmt.Errorf("with an already-expired context the script still executed %d statement(s)", traced)
		}
		return nil
	}
	// control group: a terminating script is unaffected by a generous deadline
	if c.Ctx == "cancelled" || c.Ctx == "past" {
		if res.err == nil {
			return fmt.Errorf("an already-expired context did not prevent execution (value %s)", res.val.Describe())
		}
		if atomic.LoadInt32(&traced) != 0 {
			return fmt.Errorf("with an already-expired context the script executed %d host call(s)", traced)
		}
		return nil
	}
	ref, err := mk(nil)
	if err != nil {
		return nil
	}
	want := ref.Execute(c09Object())
	if (res.err == nil) != (want.Err == nil) {
		return fmt.Errorf("with a 30 s deadline err=%v, without context err=%v", res.err, want.Err)
	}
	if !c.UseRun && res.err == nil && res.val.Describe() != want.Val.Describe() {
		return fmt.Errorf("with a 30 s deadline the script returns %s, without context %s", res.val.Describe(), want.Val.Describe())
	}
	return nil
}

// lateOnly: the failure says that a call came back late (or had not come
// back when the wait ended), nothing else.
func lateOnly(err error) bool {
	m := err.Error()
	return strings.Contains(m, "still running") || strings.Contains(m, "had not returned") || strings.Contains(m, "did not return within")
}

func init() {
	replayers["C09"] = func(raw []byte) error {
		var c DeadlineCase
		if err := json.Unmarshal(raw, &c); err != nil {
			return err
		}
		return runDeadline(&c)
	}
}

// endlessScript draws a script that never terminates by construction.
func endlessScript(rt *rapid.T, fault string) (string, string) {
	loops := []string{"while (true) { BODY }", "for (1) { BODY }", "while (1 == 1) { BODY }", "while (2 > 1) { BODY }", "for (\"x\") { BODY }", "while (N) { BODY }", "while (!false) { BODY }"}
	bodies := []string{"", "x = 1;", "x = x + 1;", "foreach i in 1..20 { y = i; }", "if (x) { x = 0; } else { x = 1; }", "s = \"a\" + \"b\";", "y = len([1,2,3]) * 2;", "switch (x) { case 1 { x = 2; } default { x = 1; } }", "z = x ? 1 : 2;", "trace(1);"}
	loop := func() string {
		l := rapid.SampledFrom(loops).Draw(rt, "loop")
		b := rapid.SampledFrom(bodies).Draw(rt, "body")
		if rapid.Bool().Draw(rt, "nestedloop") {
			b = b + " " + strings.Replace(rapid.SampledFrom(loops).Draw(rt, "inner"), "BODY", rapid.SampledFrom(bodies).Draw(rt, "innerbody"), 1)
		}
		return strings.Replace(l, "BODY", b, 1)
	}
	shape := rapid.SampledFrom([]string{"top", "top", "function", "nested-functions", "function-in-loop", "recursion-with-loop", "foreach-endless", "after-work", "branching-recursion", "branching-recursion", "mutual-branching", "straight-line", "cheap-ops", "doubling"}).Draw(rt, "shape")
	pre := "trace(0); x = 0;\n"
	if fault != "" {
		pre = "if ( Boom ) { " + fault + " }\n" + pre
	}
	// statements whose value nobody uses, before the spinning part and inside it
	junk := []string{"", "", "len(\"abc\");", "1;", "x * 2;", "\"s\";", "[1, 2];", "N;", "junkf(1);", "x == 0;", "true ? 1 : 2;"}
	j := rapid.SampledFrom(junk).Draw(rt, "junk")
	if j == "junkf(1);" {
		pre += "function junkf(a) { return a + 1; }\n"
	}
	pre += j + "\n"
	if jb := rapid.SampledFrom(junk).Draw(rt, "junkbody"); jb != "" && jb != "junkf(1);" {
		bodies = append(bodies, jb, jb+" x = x + 1;", "x = 1; "+jb)
	}
	switch shape {
	case "top":
		return pre + loop(), shape
	case "function":
		return pre + "function spin(a) { " + rapid.SampledFrom(junk[:8]).Draw(rt, "junkfn") + " " + loop() + " return a; }\nspin(1);", shape
	case "nested-functions":
		d := rapid.IntRange(2, 4).Draw(rt, "calldepth")
		var b strings.Builder
		b.WriteString(pre)
		for i := 0; i < d; i++ {
			if i == d-1 {
				fmt.Fprintf(&b, "function f%d(a) { %s return a; }\n", i, loop())
			} else {
				fmt.Fprintf(&b, "function f%d(a) { return f%d(a + 1); }\n", i, i+1)
			}
		}
		b.WriteString("f0(0);")
		return b.String(), shape
	case "function-in-loop":
		return pre + "function spin(a) { " + loop() + " return a; }\nforeach q in 1..3 { if (q > 0) { spin(q); } }", shape
	case "recursion-with-loop":
		// (the name of the function is the author's to choose: one letter, or a
		// few hundred - what a failing call costs to report must not grow with
		// the depth times the name)
		rn := rapid.SampledFrom([]string{"r", "r", "recurse_" + strings.Repeat("deeper_and_", 55)}).Draw(rt, "rname")
		return pre + "function " + rn + "(n) { if (n <= 0) { " + loop() + " } return " + rn + "(n - 1); }\n" + rn + "(" + fmt.Sprint(rapid.SampledFrom([]int{0, 1, 2, 7, 50, 50, 3000, 9000, 9500}).Draw(rt, "rdepth")) + ");", shape
	case "branching-recursion":
		// no loop anywhere: 2^n calls at a call depth of only n
		n := rapid.IntRange(40, 70).Draw(rt, "burn")
		body := rapid.SampledFrom([]string{"return burn(n - 1) + burn(n - 1);", "x = burn(n - 1); return x + burn(n - 1);", "return (burn(n - 1) > 0) ? burn(n - 1) : 0;", "return burn(n - 1) && burn(n - 1) || burn(n - 1);"}).Draw(rt, "burnbody")
		call := fmt.Sprintf("burn(%d);", n)
		if rapid.Bool().Draw(rt, "burninloop") {
			call = "foreach q in [1] { " + call + " }"
		}
		return pre + "function burn(n) { if (n <= 0) { return 1; } " + body + " }\n" + call, shape
	case "mutual-branching":
		n := rapid.IntRange(40, 70).Draw(rt, "burn")
		return pre + "function ping(n) { if (n <= 0) { return 1; } return pong(n - 1) + pong(n - 1); }\nfunction pong(n) { if (n <= 0) { return 1; } return ping(n - 1) + ping(n - 1) + 1; }\n" + fmt.Sprintf("ping(%d);", n), shape
	case "straight-line":
		// a long stretch of straight-line code inside a (slowly) looping program
		var b strings.Builder
		b.WriteString(pre)
		b.WriteString("while (true) {\n")
		for i := 0; i < rapid.IntRange(200, 3000).Draw(rt, "linelen"); i++ {
			b.WriteString("x = x + 1;\n")
		}
		b.WriteString("}")
		return b.String(), shape
	case "cheap-ops":
		// single operations that are instantaneous however large their operands look
		op := rapid.SampledFrom([]string{"x = 1 ** 4000000000000000000;", "x = 0 ** 9223372036854775807;", "x = (0 - 1) ** 9223372036854775806;", "x = 2 ** 62;", "x = 1.0 ** 1000000000000.0;",
			"x = 9223372036854775807 % 3;", "x = 9223372036854775807 / 2;", "x = (0 - 9223372036854775807) * 3;", "x = \"a\" in \"abcabc\";", "x = len(\"狐犬\");", "x = [1, 2, 3][2];",
			"x = split(\"abc\", \"\");", "x = split(\"\", \"\");", "x = replace(\"abc\", \"\", \"-\");", "x = join([1, 2], \"\");", "x = hour(1700000000);", "x = weekday(N) + string(year(0));", "x = now() - minute(0);", "x = 2 ** Min;", "x = 1 ** Min;", "x = (0 - 1) ** Min;", "x = 3 ** Max;", "x = Min % 7;", "x = Min / 3;", "x = Max * Max;", "x = Min - 1;", "x = 2.0 ** Min;", "x = Min ** 2;"}).Draw(rt, "cheapop")
		return pre + "while (true) { " + op + " }", shape
	case "doubling":
		// values that mention themselves twice: cheap (the members are shared)
		// however large they would be written out; the loop ends in the
		// nesting limit or in the deadline, whichever comes first
		op := rapid.SampledFrom([]string{"a = [a, a];", "a = {\"l\": a, \"r\": a};", "a = [a, [x], a, a];", "a = [a, a]; b = len(a);", "a = [a, a]; b = [a, a];", "a = {1: a, 2: [a, a]};",
			"WIDE", "WIDE", "WIDE", "WIDEHASH"}).Draw(rt, "doubleop")
		if strings.HasPrefix(op, "WIDE") {
			// many mentions in one literal (any number: what one step costs grows
			// by that factor each time round, if it grows)
			w := rapid.SampledFrom([]int{3, 17, 40, 60, 70, 80, 90, 100, 110, 120}).Draw(rt, "mentions")
			if op == "WIDE" {
				op = "a = [" + strings.Repeat("a, ", w) + "a];"
			} else {
				op = "a = {x: a, \"k\": [" + strings.Repeat("a, ", w) + "a]};"
			}
		}
		return pre + "a = 1;\nwhile (true) { " + op + " }", shape
	case "foreach-endless":
		return pre + "while (true) { foreach i, v in 1.." + fmt.Sprint(rapid.IntRange(1, 10000).Draw(rt, "rangelen")) + " { x = v; } }", shape
	}
	return pre + "foreach i in 1..100 { x = x + i; }\n" + loop(), shape
}

func TestC09(t *testing.T) {
	defer silenceAs("deadlines")()
	col := evid.New("C09", "deadlines", "non-terminating scripts from a grammar of shapes (while(true), for(1), constant-folded and field-dependent conditions, nested loops, loops inside user functions at call depth 1-4, functions spinning inside loops, recursion ending in a loop, foreach over ranges of 1-10000 inside an endless while, busy bodies, endless loops around single cheap operations such as 1 ** 4*10^18) x context kinds (already cancelled, deadline in the past, deadlines of 1-300 ms, cancel() from another goroutine after 0-100 ms) x Run/Execute x optimizer on/off, plus a control group of terminating programs under a 30 s deadline; oracle: the call returns an error within deadline + 3 s (normal latency is microseconds), an already-expired context prevents the first statement from running, the control group returns what it returns without a context; non-trivial = the script is endless and the deadline lies in the future; distinct by (script, context kind, millis)")
	replayKnown(t, col, "C09")
	rapidCheck(t, col, func(rt *rapid.T) {
		c := &DeadlineCase{Prop: "C09", Kind: "deadline", UseRun: rapid.Bool().Draw(rt, "userun"), NoOpt: rapid.Bool().Draw(rt, "noopt")}
		shape := "control"
		if gen.Uniform(rt, "control", 6) == 0 {
			pr := gen.Program(rt, gen.ProgOpts{Depth: 2, Block: 3, Funcs: 1, Ternary: true, Switch: true, EarlyRet: true, NoSqrtFold: true})
			c.Script = lang.ProgramText(pr.P)
			c.Ctx = rapid.SampledFrom([]string{"long-control", "long-control", "cancelled", "past", "cancel-after-runs", "cancel-after-runs"}).Draw(rt, "cctx")
			c.PrepHistory = rapid.SampledFrom([]string{"", "", "validate-first", "other-context-first", "expired-first"}).Draw(rt, "cprephistory")
			c.FarDeadline = rapid.Bool().Draw(rt, "cfardeadline")
			c.Derived = gen.Uniform(rt, "cderived", 4) == 0
			if c.Ctx == "cancel-after-runs" {
				c.Millis = rapid.IntRange(1, 6).Draw(rt, "priorruns")
				if rapid.Bool().Draw(rt, "tinyscript") {
					c.Script = rapid.SampledFrom([]string{"trace(1); return true;", "x = N + 1; trace(x); return x > 2;", "foreach i in 1..3 { trace(i); } return 1;", "function f(a) { trace(a); return a; } return f(N);"}).Draw(rt, "tiny")
				}
			}
		} else {
			c.Endless = true
			c.PrepHistory = rapid.SampledFrom([]string{"", "", "", "validate-first", "other-context-first", "expired-first"}).Draw(rt, "prephistory")
			faults := map[string]string{"": "", "panic": "panic(\"boom\");", "mod0": "x = 1 % 0;", "arity": "len(1, 2, 3) % 0;", "index": "x = [1][\"a\"];", "in-function": "function boomf(q) { foreach z in [1] { return q / 0; } } boomf(1);",
				"runaway": "function boomr(q) { return boomr(q + 1); } boomr(0);", "runaway-in-loop": "function boomr(q) { local w; w = q; return 1 + boomr(w + 1); } foreach z in [1, 2] { x = boomr(0); }",
				"unknown-function": "x = nosuch(1);", "deep-fault": "function boomd(q) { if ( q <= 0 ) { return len(1, 2) % 0; } return boomd(q - 1); } boomd(300);",
				"value-too-deep": "bz = 1; bn = 0; while ( bn < 20000 ) { bz = [bz]; bn = bn + 1; } x = 1 % 0;"}
			c.FaultFirst = rapid.SampledFrom([]string{"", "", "", "", "panic", "mod0", "arity", "index", "in-function", "runaway", "runaway-in-loop", "unknown-function", "deep-fault", "value-too-deep"}).Draw(rt, "faultfirst")
			c.Script, shape = endlessScript(rt, faults[c.FaultFirst])
			if strings.Contains(c.Script, "hour(") || strings.Contains(c.Script, "weekday(") || strings.Contains(c.Script, "now()") {
				c.TZ = rapid.SampledFrom([]string{"", "UTC", "Europe/Helsinki", "Nowhere/Atlantis", ":/etc/localtime", "EST5EDT4,M3.2.0,M11.1.0"}).Draw(rt, "tz")
			}
			c.Ctx = rapid.SampledFrom([]string{"cancelled", "past", "deadline", "deadline", "deadline", "cancel-later", "cancel-later"}).Draw(rt, "ctx")
			c.FarDeadline = rapid.Bool().Draw(rt, "fardeadline")
			c.Derived = gen.Uniform(rt, "derived", 4) == 0
			switch c.Ctx {
			case "deadline":
				c.Millis = rapid.SampledFrom([]int{1, 2, 5, 10, 20, 50, 100, 200, 300}).Draw(rt, "ms")
				if shape == "doubling" && c.Millis < 100 {
					// a step that takes as long as everything before it taken
					// together is only seen late by a deadline that is not tiny
					c.Millis = rapid.SampledFrom([]int{100, 200, 300}).Draw(rt, "msdoubling")
				}
			case "cancel-later":
				c.Millis = rapid.IntRange(0, 100).Draw(rt, "cancelms")
			}
		}
		err := runDeadline(c)
		for again := 0; again < 2 && err != nil && lateOnly(err); again++ {
			// a late return is judged by the clock, and on a machine under heavy
			// load the clock can be wrong about anybody once: a defect of the
			// engine is late every time the case is run, a stalled process is not
			// (false alarm 33)
			col.Class("late-return-seen-once-and-not-again")
			time.Sleep(2 * time.Second)
			err = runDeadline(c)
		}
		if err != nil {
			c.Msg = err.Error()
			violation(rt, "C09", c, "%v", err)
		}
		col.Class("shape:" + shape)
		col.Class("context:" + c.Ctx)
		col.Class("prepare-history:" + c.PrepHistory)
		col.Class("fault-first:" + c.FaultFirst)
		cc := c
		col.Case(fmt.Sprint(c.Script, c.Ctx, c.Millis, c.UseRun, c.NoOpt, c.PrepHistory, c.FaultFirst), c.Endless && (c.Ctx == "deadline" || c.Ctx == "cancel-later"), func() interface{} {
			return map[string]interface{}{"script": cc.Script, "context": cc.Ctx, "millis": cc.Millis, "run": cc.UseRun, "noopt": cc.NoOpt, "prepare_history": cc.PrepHistory}
		})
	})
}
