package props

import (
	"encoding/json"
	"fmt"
	"strings"
	"testing"

	"pgregory.net/rapid"

	"verif/harness/eng"
	"verif/harness/evid"
	"verif/harness/gen"
	"verif/harness/lang"
)

// C04 — scripts see the host object's fields faithfully.

// ObjRun is one object of a sequence with what the script must return for it.
type ObjRun struct {
	Obj       eng.GoObjSpec `json:"obj"`
	JSON      string        `json:"json,omitempty"` // alternative: a JSON document decoded into a map
	Exp       Expect        `json:"expect"`
	NullOrErr bool          `json:"null_or_error,omitempty"` // the script names a field the engine cannot represent
	MayErr    bool          `json:"may_error,omitempty"`     // the object carries an unsupported field elsewhere
	// Fault: before this run the host sets the script variable "fault"; the
	// script's preamble then fails in the named way before it looks at the
	// field (0 = no fault; the run is judged normally).
	Fault int `json:"fault,omitempty"`
}

// faultPreamble makes a run fail on demand: inside nested calls, by runaway
// recursion, by a wrong argument count, by panic() inside a loop.
const faultPreamble = `function c4dive(n) { if ( n <= 0 ) { return 1 / 0; } return c4dive(n - 1) + 1; }
function c4runaway(n) { return c4runaway(n + 1); }
function c4two(p, q) { return p; }
if ( fault == 1 ) { c4dive(3); }
if ( fault == 2 ) { c4runaway(0); }
if ( fault == 3 ) { c4two(1); }
if ( fault == 4 ) { foreach c4q in [1, 2] { panic("x"); } }
if ( fault == 5 ) { c4r = c4dive(40) + c4nosuch(1); }
`

// ObjSeqCase runs one script over a sequence of different objects on one evaluator.
type ObjSeqCase struct {
	Prop   string                `json:"prop"`
	Kind   string                `json:"kind"`
	Script string                `json:"script"`
	Vars   map[string]lang.Value `json:"vars,omitempty"`
	NoOpt  bool                  `json:"noopt,omitempty"`
	Runs   []ObjRun              `json:"runs"`
	Msg    string                `json:"message,omitempty"`
}

func buildObjRun(o *ObjRun) (interface{}, error) {
	if o.JSON != "" {
		m := map[string]interface{}{}
		if err := json.Unmarshal([]byte(o.JSON), &m); err != nil {
			return nil, fmt.Errorf("harness: bad JSON document: %v", err)
		}
		return m, nil
	}
	return o.Obj.Build()
}

func runObjSeq(c *ObjSeqCase) error {
	r, err := prepared(c.Script, c.Vars, c.NoOpt)
	if err != nil {
		return fmt.Errorf("Prepare rejected a valid script: %v", err)
	}
	for i := range c.Runs {
		o := &c.Runs[i]
		obj, berr := buildObjRun(o)
		if berr != nil {
			return berr
		}
		if strings.HasPrefix(c.Script, faultPreamble) {
			r.E.SetVariable("fault", eng.ToObject(lang.Int(int64(o.Fault))))
		}
		res := r.Execute(obj)
		if res.Panic != nil {
			return fmt.Errorf("run %d: panic escaped Execute: %v", i, res.Panic)
		}
		if o.Fault != 0 {
			if res.Err == nil {
				return fmt.Errorf("harness: run %d was meant to fail (fault %d) but returned %s", i, o.Fault, res.Val.Describe())
			}
			continue
		}
		// Run must not panic either, and must agree on failing
		var runErr error
		var pan interface{}
		func() {
			defer func() { pan = recover() }()
			_, runErr = r.E.Run(obj)
		}()
		if pan != nil {
			return fmt.Errorf("run %d: Run panicked: %v", i, pan)
		}
		if (runErr == nil) != (res.Err == nil) && !res.NilObject {
			return fmt.Errorf("run %d: Execute err=%v but Run err=%v", i, res.Err, runErr)
		}
		switch {
		case o.NullOrErr:
			if res.NilObject {
				return fmt.Errorf("run %d: a field of an unrepresentable kind produced a nil object (neither null nor an error)", i)
			}
			if res.Err == nil && res.Val.K != lang.KNull {
				// naming only the unsupported field: must be null
				if !o.Exp.Unspec {
					return fmt.Errorf("run %d: a field of an unrepresentable kind yields %s, expected null or an error", i, res.Val.Describe())
				}
			}
		case o.MayErr && (res.Err != nil && !res.NilObject):
			// an unrepresentable field elsewhere in the object may poison the walk
		default:
			if e := checkResult(res, o.Exp); e != nil {
				return fmt.Errorf("run %d: %v", i, e)
			}
		}
	}
	return nil
}

func init() {
	replayers["C04"] = func(raw []byte) error {
		var c ObjSeqCase
		if err := json.Unmarshal(raw, &c); err != nil {
			return err
		}
		for k, v := range c.Vars {
			v.Fix()
			c.Vars[k] = v
		}
		for i := range c.Runs {
			c.Runs[i].Obj.Fix()
			c.Runs[i].Exp.Val.Fix()
		}
		return runObjSeq(&c)
	}
}

var fieldNames = []string{"Alpha", "Beta", "Count", "Data", "Name", "When", "X", "Tags", "Größe", "Part２", "Ver٣x", "Ünï_1"}

func drawFieldValue(rt *rapid.T, kind string) lang.Value {
	arr := func(k lang.Kind) lang.Value {
		n := rapid.IntRange(0, 4).Draw(rt, "slicelen")
		out := lang.Array()
		for i := 0; i < n; i++ {
			switch k {
			case lang.KInt:
				out.A = append(out.A, lang.Int(rapid.Int64Range(-2147483648, 2147483647).Draw(rt, "e")))
			case lang.KFloat:
				out.A = append(out.A, lang.Float(float64(rapid.Int64Range(-4000, 4000).Draw(rt, "e"))/8))
			case lang.KString:
				out.A = append(out.A, lang.Str(gen.Text(rt, "e")))
			case lang.KBool:
				out.A = append(out.A, lang.Bool(rapid.Bool().Draw(rt, "e")))
			}
		}
		if n == 0 && rapid.Bool().Draw(rt, "nilslice") {
			out.I = 1 // marks a nil slice / nil map
		}
		return out
	}
	switch kind {
	case "int", "int64":
		return lang.Int(gen.Int(rt, "iv"))
	case "float64":
		return lang.Float(gen.Float(rt, "fv"))
	case "float32":
		return lang.Float(float64(float32(gen.Float(rt, "fv"))))
	case "string":
		return lang.Str(gen.Text(rt, "sv"))
	case "bool":
		return lang.Bool(rapid.Bool().Draw(rt, "bv"))
	case "time":
		return lang.Int(rapid.Int64Range(-62135596800, 253402300799).Draw(rt, "tv"))
	case "[]string":
		return arr(lang.KString)
	case "[]bool":
		return arr(lang.KBool)
	case "[]float32", "[]float64":
		return arr(lang.KFloat)
	case "[]int", "[]int32", "[]int64":
		return arr(lang.KInt)
	case "[]time":
		v := arr(lang.KInt)
		return v
	case "[]interface":
		n := rapid.IntRange(0, 4).Draw(rt, "ilen")
		out := lang.Array()
		for i := 0; i < n; i++ {
			out.A = append(out.A, gen.Scalar(rt, "ie", lang.KInt, lang.KFloat, lang.KString, lang.KBool))
		}
		return out
	case "map":
		v := gen.HashValue(rt, "mv", gen.ValueOpts{Depth: 2, FieldSafe: true})
		if len(v.H) == 0 && rapid.Bool().Draw(rt, "nilmap") {
			v.I = 1
		}
		return v
	}
	// unsupported kinds only need a small number
	switch eng.ValueKindFor(kind) {
	case lang.KInt:
		return lang.Int(rapid.Int64Range(0, 100).Draw(rt, "uv"))
	case lang.KFloat:
		return lang.Float(1.5)
	}
	return lang.Null()
}

func drawObject(rt *rapid.T, allowBad bool) (eng.GoObjSpec, bool) {
	o := eng.GoObjSpec{Mode: rapid.SampledFrom([]string{"struct", "ptr", "map", "mapptr"}).Draw(rt, "objmode")}
	n := rapid.IntRange(0, 8).Draw(rt, "nfields")
	names := rapid.Permutation(fieldNames).Draw(rt, "fieldorder")
	bad := false
	for i := 0; i < n && i < len(names); i++ {
		kind := rapid.SampledFrom(eng.SupportedKinds).Draw(rt, "kind")
		if allowBad && gen.Uniform(rt, "badkind", 6) == 0 {
			if rapid.Bool().Draw(rt, "lossy") {
				kind = rapid.SampledFrom(eng.LossyKinds).Draw(rt, "lossykind")
			} else {
				kind = rapid.SampledFrom(eng.UnsupportedKinds).Draw(rt, "ukind")
			}
			bad = true
		}
		o.Fields = append(o.Fields, eng.GoField{Name: names[i], Kind: kind, V: drawFieldValue(rt, kind)})
	}
	return o, bad
}

func modelFieldsOf(o *eng.GoObjSpec) (map[string]lang.Value, map[string]bool, map[string]bool) {
	fields, unsupported, lossy := map[string]lang.Value{}, map[string]bool{}, map[string]bool{}
	for _, f := range o.Fields {
		switch {
		case eng.IsSupported(f.Kind):
			v := f.Expected()
			if v.K == lang.KArray || v.K == lang.KHash {
				v.I = 0 // the nil-slice / nil-map marker is not part of the value
			}
			fields[f.Name] = v
		default:
			isLossy := false
			for _, k := range eng.LossyKinds {
				if k == f.Kind {
					isLossy = true
				}
			}
			if isLossy {
				lossy[f.Name] = true
			} else {
				unsupported[f.Name] = true
			}
		}
	}
	return fields, unsupported, lossy
}

func TestC04(t *testing.T) {
	defer silenceAs("objects")()
	col := evid.New("C04", "objects", "struct types built at run time with reflect.StructOf (0-8 exported fields in random order; supported kinds int, int64, float32, float64, string, bool, time.Time, []string, []bool, []float32, []float64, []int, []int32, []int64, []time.Time, []interface{}, nested map[string]interface{}; unsupported kinds uint*, int8/16/32, complex, pointers, nested structs, arrays, chan, func, interfaces, map[string]string, map[int]..; slices/maps with unsupported elements), passed by value or pointer, the same contents as map[string]interface{} (also behind a pointer), and JSON documents decoded by encoding/json; sequences of 1-4 different objects on one evaluator, a same-named script variable, unknown names, the legacy $ prefix; scripts return F, type(F), len(F), F[i] for i in -1..len, A.B, [F, G]; oracle: expected (type, printed form, structure) computed from the Go value per run; unsupported field => null or error, never a panic or nil object, from Execute and from Run; non-trivial = the script reads a field that exists in the object; distinct by (objects, script)")
	replayKnown(t, col, "C04")
	rapidCheck(t, col, func(rt *rapid.T) {
		c := &ObjSeqCase{Prop: "C04", Kind: "objects", Vars: map[string]lang.Value{}, NoOpt: rapid.Bool().Draw(rt, "noopt")}
		nobj := rapid.IntRange(1, 4).Draw(rt, "nobj")
		// the field(s) the script is about
		f1 := rapid.SampledFrom(fieldNames).Draw(rt, "f1")
		f2 := rapid.SampledFrom(append([]string{"Missing"}, fieldNames...)).Draw(rt, "f2")
		ref := func(n string) lang.Expr {
			if rapid.Bool().Draw(rt, "dollar") {
				return lang.Name{N: "$" + n}
			}
			return lang.Name{N: n}
		}
		var expr lang.Expr
		named := map[string]bool{f1: true}
		form := rapid.SampledFrom([]string{"value", "value", "type", "len", "index", "dot", "pair", "in", "dollarlit"}).Draw(rt, "form")
		switch form {
		case "dollarlit":
			// the member under its legacy spelling next to string literals that
			// spell the same characters: a name is a name, a text is a text
			expr = lang.ArrayLit{Elems: []lang.Expr{lang.Lit{V: lang.Str("$" + f1)}, lang.Name{N: "$" + f1}, lang.Lit{V: lang.Str(f1)}, lang.Name{N: f1}, lang.Lit{V: lang.Str("$" + f1)}}}
		case "value":
			expr = ref(f1)
		case "type":
			expr = lang.Call{Fn: "type", Args: []lang.Expr{ref(f1)}}
		case "len":
			expr = lang.Call{Fn: "len", Args: []lang.Expr{ref(f1)}}
		case "index":
			expr = lang.Index{X: ref(f1), I: lang.Lit{V: lang.Int(rapid.Int64Range(-1, 5).Draw(rt, "i"))}}
		case "dot":
			expr = lang.Dot{X: ref(f1), N: rapid.SampledFrom([]string{"a", "b", "c", "Name", "k1"}).Draw(rt, "dotkey")}
		case "pair":
			expr = lang.ArrayLit{Elems: []lang.Expr{ref(f1), ref(f2)}}
			named[f2] = true
		case "in":
			expr = lang.Binary{Op: "in", L: lang.Lit{V: lang.Str("a")}, R: ref(f1)}
		}
		var before []lang.Stmt
		switch gen.Uniform(rt, "shadow", 12) {
		case 0, 1:
			c.Vars[f1] = gen.Scalar(rt, "shadowval", lang.KInt, lang.KString)
		case 2:
			// a variable that holds null is a variable all the same
			c.Vars[f1] = lang.Null()
			col.Class("member-hidden-by-a-null-variable:host")
		case 3:
			// ... also when the script itself made it so ("normalise in place")
			before = append(before, lang.Assign{N: f1, X: rapid.SampledFrom([]lang.Expr{
				lang.Call{Fn: "int", Args: []lang.Expr{lang.Lit{V: lang.Str("n/a")}}}, lang.Name{N: "NoSuchName"},
				lang.Call{Fn: "float", Args: []lang.Expr{lang.Lit{V: lang.Str("")}}}, lang.Index{X: lang.ArrayLit{}, I: lang.Lit{V: lang.Int(3)}}}).Draw(rt, "nullsource")})
			col.Class("member-hidden-by-a-null-variable:script")
		}
		prog := &lang.Program{Stmts: append(before, lang.Return{X: expr})}
		c.Script = lang.ProgramText(prog)
		reads := false
		for i := 0; i < nobj; i++ {
			var run ObjRun
			if gen.Uniform(rt, "jsondoc", 5) == 0 {
				// a JSON document: numbers arrive as float64
				doc := lang.Hash()
				for _, n := range rapid.Permutation(fieldNames).Draw(rt, "jsonfields")[:rapid.IntRange(0, 5).Draw(rt, "njson")] {
					v := gen.Value(rt, "jv", gen.ValueOpts{Depth: 2, FieldSafe: true})
					doc.H = append(doc.H, lang.Pair{K: lang.Str(n), V: v})
				}
				b, err := json.Marshal(eng.NaturalGo(doc))
				if err != nil {
					rt.Fatalf("harness: %v", err)
				}
				run.JSON = string(b)
				m := lang.NewMachine()
				for _, p := range doc.H {
					m.Fields[p.K.S] = jsonView(p.V)
				}
				for k, v := range c.Vars {
					m.Globals[k] = v
				}
				run.Exp = expectFromModel(m, prog)
				if _, ok := m.Fields[f1]; ok {
					reads = true
				}
			} else {
				o, _ := drawObject(rt, true)
				run.Obj = o
				fields, unsupported, lossy := modelFieldsOf(&o)
				m := lang.NewMachine()
				m.Fields = fields
				for k, v := range c.Vars {
					m.Globals[k] = v
				}
				run.Exp = expectFromModel(m, prog)
				for n := range named {
					if _, shadowed := c.Vars[n]; shadowed {
						continue
					}
					if unsupported[n] || lossy[n] {
						run.NullOrErr = true
						if lossy[n] || form != "value" {
							run.Exp.Unspec = true // only "no crash" is promised
						}
					}
				}
				if len(unsupported)+len(lossy) > 0 {
					run.MayErr = true
				}
				if _, ok := fields[f1]; ok {
					reads = true
				}
			}
			c.Runs = append(c.Runs, run)
		}
		// the evaluator still answers correctly afterwards
		good := eng.GoObjSpec{Mode: "struct", Fields: []eng.GoField{{Name: f1, Kind: "int", V: lang.Int(41)}}}
		gm := lang.NewMachine()
		gm.Fields[f1] = lang.Int(41)
		for k, v := range c.Vars {
			gm.Globals[k] = v
		}
		c.Runs = append(c.Runs, ObjRun{Obj: good, Exp: expectFromModel(gm, prog)})
		if gen.Uniform(rt, "faultruns", 3) == 0 {
			// between the records some runs fail (the host sets "fault" first):
			// the next record is still seen as it is
			c.Script = faultPreamble + c.Script
			var runs []ObjRun
			for _, rn := range c.Runs {
				if rapid.Bool().Draw(rt, "failfirst") {
					bad := rn
					bad.Fault = rapid.IntRange(1, 5).Draw(rt, "fault")
					runs = append(runs, bad)
				}
				runs = append(runs, rn)
			}
			c.Runs = runs
			col.Class("with-failing-runs-between")
		}
		if err := runObjSeq(c); err != nil {
			c.Msg = err.Error()
			violation(rt, "C04", c, "%v", err)
		}
		col.Class("form:" + form)
		col.Class(fmt.Sprintf("objects:%d", nobj))
		for _, r := range c.Runs {
			if r.JSON != "" {
				col.Class("json-document")
			} else {
				col.Class("mode:" + r.Obj.Mode)
			}
			if r.NullOrErr {
				col.Class("names-unsupported-field")
			} else if r.MayErr {
				col.Class("object-has-unsupported-field")
			}
		}
		cc := c
		col.Case(fmt.Sprint(c.Script, c.Vars, c.Runs), reads, func() interface{} {
			var objs []string
			for _, r := range cc.Runs {
				if r.JSON != "" {
					objs = append(objs, "json "+clip(r.JSON, 200))
					continue
				}
				s := r.Obj.Mode + "{"
				for _, f := range r.Obj.Fields {
					s += f.Name + " " + f.Kind + "=" + clip(f.V.Inspect(), 40) + "; "
				}
				objs = append(objs, s+"}")
			}
			return map[string]interface{}{"script": cc.Script, "objects": objs}
		})
	})
}

// jsonView: what a value looks like after a JSON round trip (ints become floats).
func jsonView(v lang.Value) lang.Value {
	switch v.K {
	case lang.KInt:
		return lang.Float(float64(v.I))
	case lang.KArray:
		out := lang.Array()
		for _, e := range v.A {
			out.A = append(out.A, jsonView(e))
		}
		return out
	case lang.KHash:
		out := lang.Hash()
		for _, p := range v.H {
			out.H = append(out.H, lang.Pair{K: p.K, V: jsonView(p.V)})
		}
		return out
	}
	return v
}

// TestC04Shared: the same nested map reachable along two paths of one
// object is a hash both times; a nil object after a real one shows nulls.
func TestC04Shared(t *testing.T) {
	defer silenceAs("shared")()
	col := evid.New("C04", "shared", "")
	rapidCheck(t, col, func(rt *rapid.T) {
		inner := gen.HashValue(rt, "inner", gen.ValueOpts{Depth: 1, FieldSafe: true})
		if len(inner.H) == 0 {
			inner = lang.Hash(lang.Pair{K: lang.Str("a"), V: lang.Int(1)})
		}
		shared := eng.NaturalGo(inner).(map[string]interface{})
		type twoMaps struct {
			Billing  map[string]interface{}
			Shipping map[string]interface{}
			Name     string
		}
		var obj interface{}
		mode := rapid.SampledFrom([]string{"map", "struct", "ptr", "nested"}).Draw(rt, "mode")
		switch mode {
		case "map":
			obj = map[string]interface{}{"Billing": shared, "Shipping": shared, "Name": "n"}
		case "struct":
			obj = twoMaps{shared, shared, "n"}
		case "ptr":
			obj = &twoMaps{shared, shared, "n"}
		default:
			obj = map[string]interface{}{"Billing": map[string]interface{}{"x": shared}, "Shipping": map[string]interface{}{"x": shared, "y": shared}, "Name": "n"}
		}
		want := inner
		script := rapid.SampledFrom([]string{"return [Billing, Shipping];", "return [Shipping, Billing];", "return [type(Billing), type(Shipping), len(Billing) == len(Shipping)];", "return string(Billing) == string(Shipping);"}).Draw(rt, "script")
		payload := map[string]interface{}{"prop": "C04", "kind": "shared-map", "script": script, "mode": mode, "inner": inner.Describe()}
		r, err := prepared(script, nil, rapid.Bool().Draw(rt, "noopt"))
		if err != nil {
			rt.Fatalf("harness: %v", err)
		}
		// a real object, then nil, then the real object again
		for round, o := range []interface{}{obj, nil, obj} {
			res := r.Execute(o)
			if res.Panic != nil || res.Err != nil {
				violation(rt, "C04", payload, "round %d: unexpected failure: %v %v", round, res.Panic, res.Err)
			}
			var exp lang.Value
			isNil := o == nil
			nested := func(v lang.Value) lang.Value { return v }
			if mode == "nested" {
				nested = func(v lang.Value) lang.Value { return lang.Null() } // placeholder, replaced below
			}
			b, sh := want, want
			if mode == "nested" {
				b = lang.Hash(lang.Pair{K: lang.Str("x"), V: want})
				sh = lang.Hash(lang.Pair{K: lang.Str("x"), V: want}, lang.Pair{K: lang.Str("y"), V: want})
			}
			_ = nested
			if isNil {
				b, sh = lang.Null(), lang.Null()
			}
			switch {
			case strings.HasPrefix(script, "return [Billing"):
				exp = lang.Array(b, sh)
			case strings.HasPrefix(script, "return [Shipping"):
				exp = lang.Array(sh, b)
			case strings.HasPrefix(script, "return [type"):
				tn := func(v lang.Value) lang.Value { return lang.Str(strings.ToLower(v.Type())) }
				ln := func(v lang.Value) int {
					if v.K == lang.KHash {
						return len(v.H)
					}
					return len([]rune(v.Inspect()))
				}
				exp = lang.Array(tn(b), tn(sh), lang.Bool(ln(b) == ln(sh)))
			default:
				exp = lang.Bool(b.Inspect() == sh.Inspect())
			}
			if !lang.DeepEqual(res.Val, exp) {
				violation(rt, "C04", payload, "round %d (object %v): expected %s, got %s", round, map[bool]string{true: "nil", false: mode}[isNil], exp.Describe(), res.Val.Describe())
			}
		}
		col.Class("mode:" + mode)
		col.Case(fmt.Sprint(script, mode, inner.Describe()), true, func() interface{} { return payload })
	})
}

type embeddedInner struct {
	Inner int
	Name  string
}

type oddUnexported struct {
	Name   string
	secret int
	when   struct{ x int }
}

type oddEmbedded struct {
	embeddedInner
	Count int
}

type oddExportedEmbedded struct {
	EmbeddedInner embeddedInner
	Count         int
}

// TestC04Odd: objects that are not what the documentation asks for must
// come back as an error or an ordinary result, from Execute and from Run.
func TestC04Odd(t *testing.T) {
	defer silenceAs("odd")()
	col := evid.New("C04", "odd", "")
	defer col.Flush()
	objects := oddHostObjects()
	scripts := []string{"return Name;", "return Count;", "return 1;", "return len(Name) + 1;", "if (Name) { return true; } return false;", "foreach k in Count { print(k); } return Name;"}
	for name, obj := range objects {
		for _, s := range scripts {
			r, err := prepared(s, nil, false)
			if err != nil {
				t.Fatalf("harness: %v", err)
			}
			for round := 0; round < 2; round++ {
				res := r.Execute(obj)
				c := &Case{Prop: "C04", Kind: "odd", Script: s, Msg: "object: " + name}
				if res.Panic != nil {
					violation(t, "C04", c, "object %s: Execute panicked: %v", name, res.Panic)
				}
				if res.NilObject {
					violation(t, "C04", c, "object %s: Execute returned neither a value nor an error", name)
				}
				var pan interface{}
				func() {
					defer func() { pan = recover() }()
					_, _ = r.E.Run(obj)
				}()
				if pan != nil {
					violation(t, "C04", c, "object %s: Run panicked: %v", name, pan)
				}
			}
			// still usable
			good := r.Execute(map[string]interface{}{"Name": "ok", "Count": []interface{}{"a"}})
			if good.Panic != nil || good.NilObject {
				c := &Case{Prop: "C04", Kind: "odd", Script: s}
				violation(t, "C04", c, "after object %s the evaluator is unusable: %v", name, good.Panic)
			}
			col.Class("odd-object:" + name)
			col.Case(name+"|"+s, true, func() interface{} { return map[string]string{"object": name, "script": s} })
		}
	}
}

// oddHostObjects: things a host may pass as the object that are not a struct or
// a string-keyed map of the documented kinds (also used by C10: whatever the
// engine says about them goes to standard output or into an error).
func oddHostObjects() map[string]interface{} {
	var nilStruct *oddEmbedded
	var nilMap map[string]interface{}
	one := 1
	pone := &one
	return map[string]interface{}{
		"nil": nil, "typed-nil-struct-pointer": nilStruct, "nil-map": nilMap, "int": 5, "string": "text", "slice": []int{1, 2},
		"chan": make(chan int), "func": func() {}, "unexported-fields": oddUnexported{Name: "n", secret: 1}, "pointer-to-unexported": &oddUnexported{Name: "n"},
		"embedded-struct": oddEmbedded{embeddedInner{1, "in"}, 2}, "exported-struct-field": oddExportedEmbedded{embeddedInner{1, "in"}, 2},
		"map[string]string": map[string]string{"Name": "x"}, "map[int]int": map[int]int{1: 2}, "pointer-to-pointer": &pone,
		"map-with-odd-values": map[string]interface{}{"Name": uint8(3), "Count": []interface{}{nil, map[string]interface{}{"a": nil}, [2]int{1, 2}}, "F": func() {}},
		"empty-struct":        struct{}{}, "bool": true, "float": 1.5,
	}
}

// ---- slices that share their store ----

// TestC04SharedSlices: fields that are views (prefix, suffix, middle, whole)
// of one backing array; each is its own array, "in the same order and length".
func TestC04SharedSlices(t *testing.T) {
	defer silenceAs("sharedslices")()
	col := evid.New("C04", "sharedslices", "")
	type views struct {
		A, B, C []string
		N       []int
		M       []int
		Name    string
	}
	rapidCheck(t, col, func(rt *rapid.T) {
		n := rapid.IntRange(1, 6).Draw(rt, "n")
		strs := make([]string, n)
		ints := make([]int, n)
		anys := make([]interface{}, n)
		for i := range strs {
			strs[i] = rapid.SampledFrom([]string{"a", "b", "c", "", "é"}).Draw(rt, "s") + fmt.Sprint(i)
			ints[i] = rapid.IntRange(-3, 70000).Draw(rt, "i")
			anys[i] = []interface{}{strs[i], ints[i], 1.5, true}[i%4]
		}
		cut := func(label string) (int, int) {
			lo := rapid.IntRange(0, n).Draw(rt, label+"lo")
			hi := rapid.IntRange(lo, n).Draw(rt, label+"hi")
			if gen.Uniform(rt, label+"prefix", 2) == 0 {
				lo = 0
			}
			return lo, hi
		}
		alo, ahi := cut("a")
		blo, bhi := cut("b")
		nlo, nhi := cut("n")
		var obj interface{}
		mode := rapid.SampledFrom([]string{"map", "struct", "ptr", "anymap"}).Draw(rt, "mode")
		conv := func(xs []string) lang.Value {
			out := lang.Array()
			for _, x := range xs {
				out.A = append(out.A, lang.Str(x))
			}
			return out
		}
		convI := func(xs []int) lang.Value {
			out := lang.Array()
			for _, x := range xs {
				out.A = append(out.A, lang.Int(int64(x)))
			}
			return out
		}
		wantA, wantB, wantC, wantN, wantM := conv(strs[alo:ahi]), conv(strs[blo:bhi]), conv(strs), convI(ints[nlo:nhi]), convI(ints)
		switch mode {
		case "map":
			obj = map[string]interface{}{"A": strs[alo:ahi], "B": strs[blo:bhi], "C": strs, "N": ints[nlo:nhi], "M": ints, "Name": "n"}
		case "struct":
			obj = views{strs[alo:ahi], strs[blo:bhi], strs, ints[nlo:nhi], ints, "n"}
		case "ptr":
			obj = &views{strs[alo:ahi], strs[blo:bhi], strs, ints[nlo:nhi], ints, "n"}
		default:
			// []interface{} views, as a JSON decoder would never produce but a host may
			obj = map[string]interface{}{"A": anys[alo:ahi], "B": anys[blo:bhi], "C": anys, "N": ints[nlo:nhi], "M": ints, "Name": "n"}
			cv := func(xs []interface{}) lang.Value {
				out := lang.Array()
				for _, x := range xs {
					switch y := x.(type) {
					case string:
						out.A = append(out.A, lang.Str(y))
					case int:
						out.A = append(out.A, lang.Int(int64(y)))
					case float64:
						out.A = append(out.A, lang.Float(y))
					case bool:
						out.A = append(out.A, lang.Bool(y))
					}
				}
				return out
			}
			wantA, wantB, wantC = cv(anys[alo:ahi]), cv(anys[blo:bhi]), cv(anys)
		}
		order := rapid.Permutation([]string{"A", "B", "C", "N", "M"}).Draw(rt, "order")
		wants := map[string]lang.Value{"A": wantA, "B": wantB, "C": wantC, "N": wantN, "M": wantM}
		script := "return [" + strings.Join(order, ", ") + "];"
		exp := lang.Array()
		for _, f := range order {
			exp.A = append(exp.A, wants[f])
		}
		if rapid.Bool().Draw(rt, "lens") {
			script = "return [len(" + strings.Join(order, "), len(") + ")];"
			exp = lang.Array()
			for _, f := range order {
				exp.A = append(exp.A, lang.Int(int64(len(wants[f].A))))
			}
		}
		payload := map[string]interface{}{"prop": "C04", "kind": "shared-slices", "script": script, "mode": mode,
			"views": fmt.Sprintf("A=[%d:%d] B=[%d:%d] C=all(%d) N=[%d:%d] M=all", alo, ahi, blo, bhi, n, nlo, nhi), "expect": exp.Describe()}
		r, err := prepared(script, nil, rapid.Bool().Draw(rt, "noopt"))
		if err != nil {
			rt.Fatalf("harness: %v", err)
		}
		for round := 0; round < 2; round++ {
			res := r.Execute(obj)
			if res.Panic != nil || res.Err != nil {
				violation(rt, "C04", payload, "round %d: unexpected failure: %v %v", round, res.Panic, res.Err)
			}
			if !lang.DeepEqual(res.Val, exp) {
				violation(rt, "C04", payload, "round %d: the script sees %s; the fields hold %s", round, res.Val.Describe(), exp.Describe())
			}
		}
		col.Class("mode:" + mode)
		col.Case(fmt.Sprint(payload), (ahi-alo != n) || (bhi-blo != n), func() interface{} { return payload })
	})
}

// ---- distinct types that print alike ----

func eventA(name string, size int, tag string) interface{} {
	type Event struct {
		Name string
		Size int
		Tag  string
	}
	return Event{name, size, tag}
}

func eventB(name string, size int, tag string) interface{} {
	type Event struct {
		Tag  string
		Name string
	}
	return Event{tag, name}
}

func eventC(name string, size int, tag string) interface{} {
	type Event struct {
		Size float64
		Tag  []string
		Name string
		More bool
	}
	return &Event{float64(size) + 0.5, []string{tag}, name, true}
}

// TestC04SameNamedTypes: one evaluator sees objects of different struct types
// whose printed type names coincide ("props.Event"): each run sees the fields
// of the object passed to that run.
func TestC04SameNamedTypes(t *testing.T) {
	defer silenceAs("samenamed")()
	col := evid.New("C04", "samenamed", "")
	rapidCheck(t, col, func(rt *rapid.T) {
		script := rapid.SampledFrom([]string{"return [Name, Tag, Size];", "return [type(Size), type(Tag), Name];", "return Name + \"/\" + string(Tag);", "return [More, Name];"}).Draw(rt, "script")
		r, err := prepared(script, nil, rapid.Bool().Draw(rt, "noopt"))
		if err != nil {
			rt.Fatalf("harness: %v", err)
		}
		n := rapid.IntRange(2, 6).Draw(rt, "nobj")
		var hist []string
		for i := 0; i < n; i++ {
			kind := rapid.SampledFrom([]string{"A", "B", "C"}).Draw(rt, "kind")
			name, size, tag := rapid.SampledFrom([]string{"n1", "n2", ""}).Draw(rt, "name"), rapid.IntRange(0, 9).Draw(rt, "size"), rapid.SampledFrom([]string{"t1", "t2"}).Draw(rt, "tag")
			mk := map[string]func(string, int, string) interface{}{"A": eventA, "B": eventB, "C": eventC}[kind]
			hist = append(hist, fmt.Sprintf("%s(%s,%d,%s)", kind, name, size, tag))
			used := r.Execute(mk(name, size, tag))
			fresh, _ := prepared(script, nil, false)
			ref := fresh.Execute(mk(name, size, tag))
			payload := map[string]interface{}{"prop": "C04", "kind": "same-named-types", "script": script, "objects": hist}
			if used.Panic != nil || ref.Panic != nil {
				violation(rt, "C04", payload, "panic: %v %v", used.Panic, ref.Panic)
			}
			if (used.Err == nil) != (ref.Err == nil) || (used.Err == nil && (!lang.DeepEqual(used.Val, ref.Val) || used.Val.Inspect() != ref.Val.Inspect())) {
				violation(rt, "C04", payload, "object %d (%s): the evaluator that saw the earlier objects gives (%s, err=%v); a fresh evaluator gives (%s, err=%v)", i, hist[i], used.Val.Describe(), used.Err, ref.Val.Describe(), ref.Err)
			}
			// and the fresh evaluator's answer is the object's own content
			if ref.Err == nil && script == "return [Name, Tag, Size];" && kind == "A" {
				want := lang.Array(lang.Str(name), lang.Str(tag), lang.Int(int64(size)))
				if !lang.DeepEqual(ref.Val, want) {
					violation(rt, "C04", payload, "object %d: expected %s, got %s", i, want.Describe(), ref.Val.Describe())
				}
			}
		}
		col.Case(fmt.Sprint(script, hist), true, func() interface{} { return map[string]interface{}{"script": script, "objects": hist} })
	})
}
