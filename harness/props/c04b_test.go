package props

import (
	"encoding/json"
	"fmt"
	"reflect"
	"strings"
	"testing"
	"time"

	"pgregory.net/rapid"

	"verif/harness/eng"
	"verif/harness/evid"
	"verif/harness/gen"
	"verif/harness/lang"
)

// C04, part "graphs": host maps that refer to each other.
//
// Hosts build documents out of maps that know their parents, their siblings,
// themselves; the same map hangs under several keys. A map met again while it
// is being converted (a back-reference to an ancestor, or to itself) is "a
// field the engine cannot represent": it yields null - every such reference,
// however many there are - and the conversion ends. A map that is merely
// shared (reachable twice, not through itself) is converted each time. Keys
// of nested maps are any Go strings, also ones that are not valid UTF-8 and
// differ only in such bytes.

// GraphCase describes a graph of maps reproducibly.
type GraphCase struct {
	Prop   string      `json:"prop"`
	Kind   string      `json:"kind"`
	Script string      `json:"script"`
	Nodes  []GraphNode `json:"nodes"`
	Root   []GraphRef  `json:"root"` // the fields of the object
	NoOpt  bool        `json:"noopt,omitempty"`
	Msg    string      `json:"message,omitempty"`
}

// GraphNode is one map: scalar entries and references to nodes. (Maps inside
// slices are not among the kinds the statement lists - the engine drops such
// elements - so InSlice stays false here; C08 has them for "no crash".)
type GraphNode struct {
	Scalars []GraphScalar `json:"scalars,omitempty"`
	Refs    []GraphRef    `json:"refs,omitempty"`
}

type GraphScalar struct {
	KeyHex string `json:"key_hex"` // hex, so that keys that are not valid UTF-8 survive the replay file
	V      int64  `json:"v"`
}

type GraphRef struct {
	Key     string `json:"key"`
	Node    int    `json:"node"`
	InSlice bool   `json:"in_slice,omitempty"`
}

func hexKey(s string) string { return fmt.Sprintf("%x", s) }
func unhexKey(h string) string {
	var b []byte
	fmt.Sscanf(h, "%x", &b)
	return string(b)
}

// build makes the Go maps.
func (c *GraphCase) build() map[string]interface{} {
	maps := make([]map[string]interface{}, len(c.Nodes))
	for i := range maps {
		maps[i] = map[string]interface{}{}
	}
	for i, n := range c.Nodes {
		for _, s := range n.Scalars {
			maps[i][unhexKey(s.KeyHex)] = s.V
		}
		for _, r := range n.Refs {
			if r.InSlice {
				maps[i][r.Key] = []interface{}{1, maps[r.Node]}
			} else {
				maps[i][r.Key] = maps[r.Node]
			}
		}
	}
	root := map[string]interface{}{}
	for _, r := range c.Root {
		if r.InSlice {
			root[r.Key] = []interface{}{1, maps[r.Node]}
		} else {
			root[r.Key] = maps[r.Node]
		}
	}
	return root
}

// expect is the script's view of node i met below the ancestors given.
func (c *GraphCase) expect(i int, ancestors map[int]bool, budget *int) lang.Value {
	*budget--
	if ancestors[i] || *budget < 0 {
		return lang.Null()
	}
	ancestors[i] = true
	defer delete(ancestors, i)
	out := lang.Hash()
	for _, s := range c.Nodes[i].Scalars {
		out.H = append(out.H, lang.Pair{K: lang.Str(unhexKey(s.KeyHex)), V: lang.Int(s.V)})
	}
	for _, r := range c.Nodes[i].Refs {
		v := c.expect(r.Node, ancestors, budget)
		if r.InSlice {
			v = lang.Array(lang.Int(1), v)
		}
		out.H = append(out.H, lang.Pair{K: lang.Str(r.Key), V: v})
	}
	return out
}

func runGraph(c *GraphCase) error {
	budget := 200000
	want := lang.Array()
	for _, r := range c.Root {
		v := c.expect(r.Node, map[int]bool{}, &budget)
		if r.InSlice {
			v = lang.Array(lang.Int(1), v)
		}
		want.A = append(want.A, v)
	}
	if budget < 0 {
		return nil // too large to write down
	}
	r, err := prepared(c.Script, nil, c.NoOpt)
	if err != nil {
		return fmt.Errorf("Prepare rejected a valid script: %v", err)
	}
	obj := c.build()
	for round := 0; round < 2; round++ {
		done := make(chan eng.Result, 1)
		go func() { done <- r.Execute(obj) }()
		var res eng.Result
		select {
		case res = <-done:
		case <-time.After(60 * time.Second):
			return fmt.Errorf("round %d: the conversion of the object had not ended after 60 s", round)
		}
		if res.Panic != nil {
			return fmt.Errorf("round %d: panic: %v", round, res.Panic)
		}
		if res.TooBig {
			return nil
		}
		if err := checkResult(res, Expect{Val: want}); err != nil {
			return fmt.Errorf("round %d: %v", round, err)
		}
	}
	return nil
}

func init() {
	replayers["C04/graph"] = func(raw []byte) error {
		var c GraphCase
		if err := json.Unmarshal(raw, &c); err != nil {
			return err
		}
		return runGraph(&c)
	}
}

func TestC04Graphs(t *testing.T) {
	defer silenceAs("graphs")()
	col := evid.New("C04", "graphs", "graphs of 1-5 host maps referring to each other, to themselves and to their ancestors up to four references per map, several fields of the object pointing into the graph; keys of nested maps include strings that are not valid UTF-8 and differ only in such bytes; oracle: a map met again while it is being converted is null (every such reference), a merely shared map is converted each time, the conversion ends; each object is run twice; non-trivial = the graph has a back-reference or a shared map; distinct by graph")
	keyPool := []string{"a", "b", "k1", "Name", "caf\xe9", "caf\xe8", "\xff", "\xfe", "é", "è", "x\x80", "x\x81"}
	rapidCheck(t, col, func(rt *rapid.T) {
		c := &GraphCase{Prop: "C04", Kind: "graph", NoOpt: rapid.Bool().Draw(rt, "noopt")}
		nn := rapid.IntRange(1, 5).Draw(rt, "nodes")
		back, shared := false, false
		seenTarget := map[int]int{}
		for i := 0; i < nn; i++ {
			var n GraphNode
			used := map[string]bool{}
			for k := rapid.IntRange(0, 4).Draw(rt, "nscalars"); k > 0; k-- {
				key := keyPool[gen.Uniform(rt, "skey", len(keyPool))]
				if used[key] {
					continue
				}
				used[key] = true
				n.Scalars = append(n.Scalars, GraphScalar{KeyHex: hexKey(key), V: rapid.Int64Range(0, 99).Draw(rt, "sval")})
			}
			for k := rapid.IntRange(0, 4).Draw(rt, "nrefs"); k > 0; k-- {
				key := fmt.Sprintf("r%d", k)
				target := rapid.IntRange(0, nn-1).Draw(rt, "target")
				n.Refs = append(n.Refs, GraphRef{Key: key, Node: target, InSlice: false})
				if target <= i {
					back = true // to itself or to an earlier map: possibly an ancestor
				}
				seenTarget[target]++
				if seenTarget[target] > 1 {
					shared = true
				}
			}
			c.Nodes = append(c.Nodes, n)
		}
		nf := rapid.IntRange(1, 3).Draw(rt, "fields")
		names := []string{"Alpha", "Beta", "Gamma"}
		script := "return ["
		for f := 0; f < nf; f++ {
			c.Root = append(c.Root, GraphRef{Key: names[f], Node: rapid.IntRange(0, nn-1).Draw(rt, "fieldnode"), InSlice: false})
			if f > 0 {
				script += ", "
			}
			script += names[f]
		}
		c.Script = script + "];"
		if err := runGraph(c); err != nil {
			c.Msg = err.Error()
			violation(rt, "C04", c, "%v", err)
		}
		if back {
			col.Class("graph-with-back-reference")
		}
		if shared {
			col.Class("graph-with-shared-map")
		}
		cc := c
		col.Case(fmt.Sprint(*c), back || shared, func() interface{} { return cc })
	})
}

// ---- embedded structs whose fields are named like the outer ones ----

type embInner struct {
	Name  string
	Count int
	Only  string
}
type embFirst struct {
	embInner
	Name string
	Size int
}
type embLast struct {
	Name string
	Size int
	embInner
}
type embPointer struct {
	*embInner
	Name string
	Size int
}
type EmbExportedInner struct {
	Name  string
	Count int
	Only  string
}
type embExportedFirst struct {
	EmbExportedInner
	Name string
	Size int
}
type embExportedLast struct {
	Name string
	Size int
	EmbExportedInner
}
type embExportedPointer struct {
	*EmbExportedInner
	Name string
	Size int
}
type EmbExportedFirst struct {
	EmbExportedInner
	Name string
	Size int
}
type embExportedTwice struct {
	EmbExportedFirst
	Count int
	Name  string
}
type embTwice struct {
	embFirst
	Count int
	Name  string
}
type embNamed struct {
	Inner embInner
	Name  string
	Size  int
}

// TestC04Embedded: "it receives that field's current value": the struct's own
// field, whatever an embedded struct (before it, after it, behind a pointer,
// exported or not, two levels down) calls its fields. A name that only the
// embedded struct has is not laid down (null, or the promoted field's value);
// it is never anything else and never a crash.
// embeddedTypes: constructors by name.
func embeddedTypes() map[string]func(outer, inner string, n int) interface{} {
	return map[string]func(o, i string, n int) interface{}{
		"embedded-first":       func(o, i string, n int) interface{} { return embFirst{embInner{i, n + 100, "only-" + i}, o, n} },
		"embedded-last":        func(o, i string, n int) interface{} { return embLast{o, n, embInner{i, n + 100, "only-" + i}} },
		"embedded-pointer":     func(o, i string, n int) interface{} { return embPointer{&embInner{i, n + 100, "only-" + i}, o, n} },
		"embedded-nil-pointer": func(o, i string, n int) interface{} { return embPointer{nil, o, n} },
		"embedded-exported": func(o, i string, n int) interface{} {
			return embExportedFirst{EmbExportedInner{i, n + 100, "only-" + i}, o, n}
		},
		"embedded-exported-last": func(o, i string, n int) interface{} {
			return embExportedLast{o, n, EmbExportedInner{i, n + 100, "only-" + i}}
		},
		"embedded-exported-pointer": func(o, i string, n int) interface{} {
			return embExportedPointer{&EmbExportedInner{i, n + 100, "only-" + i}, o, n}
		},
		"embedded-exported-nil-pointer": func(o, i string, n int) interface{} { return embExportedPointer{nil, o, n} },
		"embedded-exported-twice": func(o, i string, n int) interface{} {
			return embExportedTwice{EmbExportedFirst{EmbExportedInner{i, n + 100, "only-" + i}, "middle-" + o, n}, n, o}
		},
		"embedded-twice": func(o, i string, n int) interface{} {
			return embTwice{embFirst{embInner{i, n + 100, "only-" + i}, "middle-" + o, n}, n, o}
		},
		"named-struct-field": func(o, i string, n int) interface{} { return embNamed{embInner{i, n + 100, "only-" + i}, o, n} },
	}
}

// EmbeddedCase is the replayable case.
type EmbeddedCase struct {
	Prop    string `json:"prop"`
	Kind    string `json:"kind"` // embedded
	Type    string `json:"type"`
	Pointer bool   `json:"pointer"`
	NoOpt   bool   `json:"noopt"`
	Msg     string `json:"message,omitempty"`
}

// runEmbedded: three runs with other values on one evaluator. failed counts
// the runs that ended in an error ("null or an error": an embedded struct is
// a field of a kind the engine cannot represent).
func runEmbedded(c *EmbeddedCase) (failed int, err error) {
	mkObj, ok := embeddedTypes()[c.Type]
	if !ok {
		return 0, fmt.Errorf("unknown type %q", c.Type)
	}
	r, perr := prepared("return [Name, Size, Count, Only];", nil, c.NoOpt)
	if perr != nil {
		return 0, fmt.Errorf("harness: %v", perr)
	}
	tn := c.Type
	for run, vals := range [][2]string{{"outer", "inner"}, {"", "x"}, {"outer2", ""}} {
		n := 3 + run
		obj := mkObj(vals[0], vals[1], n)
		if c.Pointer {
			pv := reflect.New(reflect.TypeOf(obj))
			pv.Elem().Set(reflect.ValueOf(obj))
			obj = pv.Interface()
		}
		res := r.Execute(obj)
		if res.Panic != nil {
			return failed, fmt.Errorf("%s: Execute panicked: %v", tn, res.Panic)
		}
		if res.Err != nil {
			failed++
			continue
		}
		if res.Val.K != lang.KArray || len(res.Val.A) != 4 {
			return failed, fmt.Errorf("%s: unexpected result %s", tn, res.Val.Describe())
		}
		got := res.Val.A
		if want := lang.Str(vals[0]); !lang.DeepEqual(got[0], want) {
			return failed, fmt.Errorf("%s (run %d): the struct's own field Name is %s, the script received %s", tn, run, want.Describe(), got[0].Describe())
		}
		if !strings.HasSuffix(tn, "-twice") {
			if want := lang.Int(int64(n)); !lang.DeepEqual(got[1], want) {
				return failed, fmt.Errorf("%s (run %d): the struct's own field Size is %s, the script received %s", tn, run, want.Describe(), got[1].Describe())
			}
		}
		if strings.HasSuffix(tn, "-twice") {
			if want := lang.Int(int64(n)); !lang.DeepEqual(got[2], want) {
				return failed, fmt.Errorf("%s (run %d): the struct's own field Count is %s, the script received %s", tn, run, want.Describe(), got[2].Describe())
			}
		} else if got[2].K != lang.KNull && !lang.DeepEqual(got[2], lang.Int(int64(n+100))) {
			return failed, fmt.Errorf("%s (run %d): Count is a field of the embedded struct only (value %d): the script received %s", tn, run, n+100, got[2].Describe())
		}
		if got[3].K != lang.KNull && !lang.DeepEqual(got[3], lang.Str("only-"+vals[1])) {
			return failed, fmt.Errorf("%s (run %d): Only is a field of the embedded struct only: the script received %s", tn, run, got[3].Describe())
		}
	}
	return failed, nil
}

func init() {
	replayers["C04/embedded"] = func(raw []byte) error {
		var c EmbeddedCase
		if err := json.Unmarshal(raw, &c); err != nil {
			return err
		}
		_, err := runEmbedded(&c)
		return err
	}
}

func TestC04Embedded(t *testing.T) {
	defer silenceAs("embedded")()
	col := evid.New("C04", "embedded", "hand-written struct types with an embedded struct (declared before or after the outer fields, behind a pointer or a nil pointer, exported or not, two levels deep, or as a named field) whose fields are named like the outer ones, by value and by pointer, optimizer on and off, three runs with other values on one evaluator; oracle: a name of the outer struct gives the outer field's value; a name only the embedded struct has gives null or that field's value; a run may fail (an embedded struct is a field of a kind the engine cannot represent), it never panics and never gives another value; non-trivial = every case; distinct by type, passing mode and optimizer setting")
	defer col.Flush()
	var names []string
	for n := range embeddedTypes() {
		names = append(names, n)
	}
	sortStrings(names)
	for _, tn := range names {
		for _, byPtr := range []bool{false, true} {
			for _, noOpt := range []bool{false, true} {
				c := &EmbeddedCase{Prop: "C04", Kind: "embedded", Type: tn, Pointer: byPtr, NoOpt: noOpt}
				failed, err := runEmbedded(c)
				if err != nil {
					c.Msg = err.Error()
					violation(t, "C04", c, "%v", err)
				}
				if failed > 0 {
					col.Class("embedded-runs-failed:" + tn)
				} else {
					col.Class("embedded-runs-gave-values:" + tn)
				}
				cc := *c
				col.Case(fmt.Sprint(tn, byPtr, noOpt), true, func() interface{} { return cc })
			}
		}
	}
	col.Set("embedded_types_exhaustive", true)
}
