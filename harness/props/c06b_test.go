package props

import (
	"encoding/json"
	"fmt"
	"strings"
	"testing"

	"github.com/skx/evalfilter/v2/object"
	"pgregory.net/rapid"

	"verif/harness/eng"
	"verif/harness/evid"
	"verif/harness/gen"
	"verif/harness/lang"
)

// C06, last clause: "a built-in wins over a user-defined function of the same
// name" - whether the built-in is one of the stock ones or was added by the
// host, before Prepare, after it, or after the first run.

// WinsCase: which names the script defines, and when the host registers them.
type WinsCase struct {
	Prop   string            `json:"prop"`
	Kind   string            `json:"kind"`
	Names  []string          `json:"names"`
	When   map[string]string `json:"when"`            // never | stock | before | after | after-run
	Plain  map[string]bool   `json:"plain,omitempty"` // the script's function takes no argument and returns a small number
	NoOpt  bool              `json:"noopt"`
	Script string            `json:"script"`
	Msg    string            `json:"message,omitempty"`
}

func runWins(c *WinsCase) error {
	r := eng.NewRunner(c.Script)
	reg := func(moment string) {
		for _, n := range c.Names {
			if c.When[n] == moment {
				name := n
				r.E.AddFunction(name, func(args []object.Object) object.Object { return &object.String{Value: "host-" + name} })
			}
		}
	}
	expect := func(registered map[string]bool) lang.Value {
		out := lang.Array()
		for _, n := range c.Names {
			switch {
			case c.When[n] == "stock":
				out.A = append(out.A, lang.Str("string")) // type("x")
			case registered[n]:
				out.A = append(out.A, lang.Str("host-"+n))
			case c.Plain[n]:
				out.A = append(out.A, lang.Int(int64(len(n))))
			default:
				out.A = append(out.A, lang.Str("user-"+n))
			}
		}
		return out
	}
	reg("before")
	if err, pan := r.Prepare(c.NoOpt); err != nil || pan != nil {
		return fmt.Errorf("Prepare failed: %v %v", err, pan)
	}
	reg("after")
	registered := map[string]bool{}
	for _, n := range c.Names {
		registered[n] = c.When[n] == "before" || c.When[n] == "after"
	}
	for run := 0; run < 3; run++ {
		if run == 1 {
			reg("after-run")
			for _, n := range c.Names {
				if c.When[n] == "after-run" {
					registered[n] = true
				}
			}
		}
		res := r.Execute(nil)
		if res.Panic != nil || res.Err != nil {
			return fmt.Errorf("run %d failed: %v %v", run, res.Panic, res.Err)
		}
		if want := expect(registered); !lang.DeepEqual(res.Val, want) {
			return fmt.Errorf("run %d: the calls gave %s; with a built-in (stock or host-registered at that moment) winning over the script's function of the same name they give %s", run, res.Val.Describe(), want.Describe())
		}
	}
	return nil
}

func init() {
	replayers["C06/builtin-wins"] = func(raw []byte) error {
		var c WinsCase
		if err := json.Unmarshal(raw, &c); err != nil {
			return err
		}
		return runWins(&c)
	}
}

func TestC06BuiltinWins(t *testing.T) {
	defer silenceAs("builtinwins")()
	col := evid.New("C06", "builtinwins", "")
	rapidCheck(t, col, func(rt *rapid.T) {
		c := &WinsCase{Prop: "C06", Kind: "builtin-wins", When: map[string]string{}, Plain: map[string]bool{}, NoOpt: rapid.Bool().Draw(rt, "noopt")}
		pool := []string{"classify", "score", "type", "helper", "check", "fmtname"}
		n := rapid.IntRange(1, 5).Draw(rt, "n")
		var defs, calls []string
		for i := 0; i < n; i++ {
			name := pool[i]
			when := rapid.SampledFrom([]string{"never", "before", "after", "after-run"}).Draw(rt, "when")
			if name == "type" {
				when = "stock"
			}
			c.Names = append(c.Names, name)
			c.When[name] = when
			if name != "type" && rapid.Bool().Draw(rt, "plain") {
				// nothing to pass, a constant to return: the simplest function there is
				c.Plain[name] = true
				defs = append(defs, fmt.Sprintf("function %s() { return %d; }", name, len(name)))
				calls = append(calls, name+"()")
				continue
			}
			defs = append(defs, fmt.Sprintf("function %s(v) { return \"user-%s\"; }", name, name))
			calls = append(calls, name+"(\"x\")")
		}
		// definitions before or after the calls
		if rapid.Bool().Draw(rt, "defsfirst") {
			c.Script = strings.Join(defs, "\n") + "\nreturn [" + strings.Join(calls, ", ") + "];"
		} else {
			c.Script = "r = [" + strings.Join(calls, ", ") + "];\n" + strings.Join(defs, "\n") + "\nreturn r;"
		}
		if err := runWins(c); err != nil {
			c.Msg = err.Error()
			violation(rt, "C06", c, "%v", err)
		}
		for _, nme := range c.Names {
			col.Class("registered:" + c.When[nme])
		}
		cc := c
		col.Case(fmt.Sprint(c.Script, c.When, c.NoOpt), gen.Uniform(rt, "nt", 1) == 0, func() interface{} { return cc })
	})
}
