package props

import (
	"fmt"
	"os"
	"strings"
	"testing"
	"time"

	"verif/harness/eng"
	"verif/harness/evid"
	"verif/harness/lang"
)

// Scripts at the limits of the implementation.
//
// The engine limits nesting (10000 in the parser, 100000 in the compiler and
// for operator chains), call depth (10000), value nesting (10000), program
// and function size (65535 bytes) and the number of constants (65536). Near
// such a limit a script is either translated and run faithfully - its value
// is known by construction - or refused with an error (by Prepare or by the
// run). A wrong value, a missing element, a silently dropped tail are
// violations of C01 (expressions) / C02 (statements); a crash is C08's.
// Sizes are taken on both sides of every limit and of the powers of two
// where 8- and 16-bit quantities wrap.

type limitShape struct {
	name  string
	stmt  bool // statement shape (C02) or expression shape (C01)
	sizes []int
	build func(n int) (script string, want lang.Value)
}

// runtimeLimited: shapes that may meet a limit of the running machine (call
// depth, nesting depth of values); for them a run-time error is an answer.
// The number is the size from which on that is so: the documented limits are
// 10000, and nine tenths of a limit is not the limit.
var runtimeLimited = map[string]int{"recursion-depth": 9000, "recursion-depth-inside-loops": 9000, "recursion-depth-inside-function-scopes": 9000,
	"value-nesting-built-at-run-time": 9000, "array-literal-nesting": 9000, "index-chain": 5000}

func rep(s string, n int) string { return strings.Repeat(s, n) }

var nestSizes = []int{1, 2, 254, 255, 256, 257, 9997, 9998, 9999, 10000, 10001, 10002}
var chainSizes = []int{1, 2, 255, 256, 257, 65534, 65535, 65536, 65537, 99998, 99999, 100000, 100001}
var countSizes = []int{0, 1, 2, 254, 255, 256, 257, 258, 65534, 65535, 65536, 65537}
var callSizes = []int{0, 1, 2, 9996, 9997, 9998, 9999, 10000, 10001, 10002}

// byteBoundarySizes: statement counts at which a body of statements of 7 to
// 13 bytes each crosses 65535 bytes (and twice that), one either side.
func byteBoundarySizes() []int {
	out := []int{1, 2, 255, 256, 257}
	for b := 7; b <= 13; b++ {
		for _, limit := range []int{65535, 131070} {
			for d := -2; d <= 1; d++ {
				out = append(out, limit/b+d)
			}
		}
	}
	return out
}

// constSizes: the constant pool is searched linearly for every literal, so
// 65536 distinct constants cost minutes; the quick tier stays below.
func constSizes() []int {
	if thorough() {
		return countSizes[1:]
	}
	return []int{1, 2, 254, 255, 256, 257, 258, 4095, 4096, 4097}
}

func limitShapes() []limitShape {
	nestedArray := func(n int) lang.Value {
		v := lang.Int(7)
		for i := 0; i < n; i++ {
			v = lang.Array(v)
		}
		return v
	}
	return []limitShape{
		{"parentheses", false, nestSizes, func(n int) (string, lang.Value) {
			return "return " + rep("(", n) + "7" + rep(")", n) + ";", lang.Int(7)
		}},
		{"unary-minus", false, nestSizes, func(n int) (string, lang.Value) {
			w := int64(7)
			if n%2 == 1 {
				w = -7
			}
			return "return " + rep("- ", n) + "x;", lang.Int(w)
		}},
		{"bang", false, nestSizes, func(n int) (string, lang.Value) {
			return "return " + rep("! ", n) + "t;", lang.Bool(n%2 == 0)
		}},
		{"array-literal-nesting", false, []int{1, 2, 255, 256, 257, 9997, 9998, 9999}, func(n int) (string, lang.Value) {
			return "return " + rep("[", n) + "7" + rep("]", n) + ";", nestedArray(n)
		}},
		{"index-chain", false, []int{1, 2, 255, 256, 257, 5000}, func(n int) (string, lang.Value) {
			return "a = " + rep("[", n) + "7" + rep("]", n) + ";\nreturn a" + rep("[0]", n) + ";", lang.Int(7)
		}},
		{"call-nesting", false, []int{1, 2, 255, 256, 257, 4999, 5000, 9998, 9999, 10000}, func(n int) (string, lang.Value) {
			return "function inc(v) { return v + 1; }\nreturn " + rep("inc(", n) + "0" + rep(")", n) + ";", lang.Int(int64(n))
		}},
		{"sum-chain", false, chainSizes, func(n int) (string, lang.Value) {
			return "return x" + rep(" + 1", n) + ";", lang.Int(int64(7 + n))
		}},
		{"sum-chain-of-variables", false, chainSizes, func(n int) (string, lang.Value) {
			return "return x" + rep(" + one", n) + ";", lang.Int(int64(7 + n))
		}},
		{"and-chain", false, chainSizes, func(n int) (string, lang.Value) {
			return "return t" + rep(" && t", n) + " && (x == 7);", lang.Bool(true)
		}},
		{"concat-chain", false, []int{1, 2, 255, 256, 257, 65535, 65536}, func(n int) (string, lang.Value) {
			return "return len(\"\"" + rep(" + \"ab\"", n) + ");", lang.Int(int64(2 * n))
		}},
		{"array-elements", false, countSizes, func(n int) (string, lang.Value) {
			return "a = [" + strings.TrimSuffix(rep("x, ", n), ", ") + "];\nreturn [len(a), a[" + fmt.Sprint(n-1) + "], a[" + fmt.Sprint(n) + "]];",
				lang.Array(lang.Int(int64(n)), map[bool]lang.Value{true: lang.Int(7), false: lang.Null()}[n > 0], lang.Null())
		}},
		{"distinct-constants", false, constSizes(), func(n int) (string, lang.Value) {
			var b strings.Builder
			b.WriteString("a = [")
			for i := 0; i < n; i++ {
				if i > 0 {
					b.WriteString(", ")
				}
				fmt.Fprintf(&b, "%d", 70000+i)
			}
			last := lang.Null()
			if n > 0 {
				last = lang.Int(int64(70000 + n - 1))
			}
			// ... and behind them constants still are what they were written as:
			// a literal equals itself (met before, or new), differs from its neighbour
			fmt.Fprintf(&b, "];\nreturn [len(a), a[%d], a[0] == 70000 || len(a) == 0, \"tail\", 123456 == 123456, \"tail\" == \"tail\", 2.5 == 2.5, 123456 != 123456, 70000 == 70000, 70000 == 70001, \"70000\" == \"70000\", 123456 < 123457, 0.5 + 0.5];", n-1)
			return b.String(), lang.Array(lang.Int(int64(n)), last, lang.Bool(true), lang.Str("tail"), lang.Bool(true), lang.Bool(true), lang.Bool(true), lang.Bool(false),
				lang.Bool(true), lang.Bool(false), lang.Bool(true), lang.Bool(true), lang.Float(1))
		}},
		{"hash-pairs", false, []int{0, 1, 2, 255, 256, 257, 4095, 4096, 4097}, func(n int) (string, lang.Value) {
			var b strings.Builder
			b.WriteString("h = {")
			for i := 0; i < n; i++ {
				if i > 0 {
					b.WriteString(", ")
				}
				fmt.Fprintf(&b, "\"k%d\": %d", i, i)
			}
			last := lang.Null()
			if n > 0 {
				last = lang.Int(int64(n - 1))
			}
			fmt.Fprintf(&b, "};\nreturn [len(h), h[\"k%d\"], h[\"k%d\"]];", n-1, n)
			return b.String(), lang.Array(lang.Int(int64(n)), last, lang.Null())
		}},
		{"call-arguments", false, []int{0, 1, 2, 254, 255, 256, 257, 258, 1000}, func(n int) (string, lang.Value) {
			params := make([]string, n)
			args := make([]string, n)
			for i := range params {
				params[i] = fmt.Sprintf("p%d", i)
				args[i] = fmt.Sprint(i + 1)
			}
			ret := "0"
			want := lang.Int(0)
			if n > 0 {
				ret = fmt.Sprintf("p0 * 1000000 + p%d", n-1)
				want = lang.Int(int64(1000000 + n))
			}
			return "function many(" + strings.Join(params, ", ") + ") { return " + ret + "; }\nreturn many(" + strings.Join(args, ", ") + ");", want
		}},
		{"builtin-arguments", false, []int{0, 1, 255, 256, 257, 1000}, func(n int) (string, lang.Value) {
			// sprintf takes any number of arguments
			return "return len(sprintf(\"" + rep("%d", n) + "\"" + rep(", 5", n) + "));", lang.Int(int64(n))
		}},
		{"recursion-depth", false, callSizes, func(n int) (string, lang.Value) {
			return fmt.Sprintf("function down(n) { if ( n <= 0 ) { return 0; } return 1 + down(n - 1); }\nreturn down(%d);", n), lang.Int(int64(n))
		}},
		{"recursion-depth-inside-loops", false, []int{0, 1, 2, 4998, 4999, 5000, 5001, 6000, 8999, 9996, 9998, 10000, 10002}, func(n int) (string, lang.Value) {
			// the limit is on calls: scopes opened by loops around the call do not count
			return fmt.Sprintf("function down(n) { if ( n <= 0 ) { return 0; } return 1 + down(n - 1); }\nr = 0;\nforeach v in [1] { foreach i, w in \"a\" { k = 0; while ( k < 1 ) { k = k + 1; r = down(%d); } } }\nreturn r;", n), lang.Int(int64(n))
		}},
		{"recursion-depth-inside-function-scopes", false, []int{0, 1, 2, 3332, 3333, 3334, 4999, 5000, 5001, 8990}, func(n int) (string, lang.Value) {
			// every level of the recursion sits in a loop body and holds locals
			return fmt.Sprintf("function down(n) { local a; local b; a = n; if ( n <= 0 ) { return 0; } foreach v in [1] { b = 1 + down(n - 1); } return b + a - n; }\nreturn down(%d);", n), lang.Int(int64(n))
		}},
		{"value-nesting-built-at-run-time", false, []int{1, 2, 9997, 9998, 9999, 10000, 10001, 10002}, func(n int) (string, lang.Value) {
			return fmt.Sprintf("a = 7; n = 0; while ( n < %d ) { a = [a]; n = n + 1; }\nd = 0; while ( type(a) == \"array\" ) { a = a[0]; d = d + 1; }\nreturn [d, a];", n),
				lang.Array(lang.Int(int64(n)), lang.Int(7))
		}},
		// ---- statements ----
		{"if-nesting", true, nestSizes, func(n int) (string, lang.Value) {
			return rep("if ( t ) { ", n) + "return x;" + rep(" }", n) + "\nreturn \"fell through\";", lang.Int(7)
		}},
		{"while-nesting", true, []int{1, 2, 255, 256, 257, 3000}, func(n int) (string, lang.Value) {
			return rep("while ( t ) { ", n) + "return x;" + rep(" }", n) + "\nreturn \"fell through\";", lang.Int(7)
		}},
		{"foreach-nesting", true, []int{1, 2, 255, 256, 257, 3000}, func(n int) (string, lang.Value) {
			return "c = 0;\n" + rep("foreach v in [1] { ", n) + "c = c + x;" + rep(" }", n) + "\nreturn c;", lang.Int(7)
		}},
		{"else-if-chain", true, []int{1, 2, 255, 256, 257, 5000, 9999, 10000, 10001}, func(n int) (string, lang.Value) {
			var b strings.Builder
			b.WriteString("if ( x == 0 ) { return 0; }")
			for i := 1; i <= n; i++ {
				fmt.Fprintf(&b, " else if ( x == %d ) { return %d; }", 7+n-i, 100+i)
			}
			b.WriteString(" else { return \"else\"; }\nreturn \"fell through\";")
			return b.String(), lang.Int(int64(100 + n))
		}},
		{"switch-arms", true, []int{1, 2, 255, 256, 257, 5000}, func(n int) (string, lang.Value) {
			var b strings.Builder
			b.WriteString("switch ( x ) {\n")
			for i := 1; i <= n; i++ {
				fmt.Fprintf(&b, "case %d { return %d; }\n", 7+n-i, 100+i)
			}
			b.WriteString("default { return \"default\"; }\n}\nreturn \"fell through\";")
			return b.String(), lang.Int(int64(100 + n))
		}},
		{"statements", true, []int{1, 2, 255, 256, 257, 5000, 9361, 9362, 9363, 13106, 13107, 13108, 21844, 21845, 21846}, func(n int) (string, lang.Value) {
			// program size around 65535 bytes for several statement lengths
			return "c = 0;\n" + rep("c = c + 1;\n", n) + "return c;", lang.Int(int64(n))
		}},
		{"statements-in-function", true, byteBoundarySizes(), func(n int) (string, lang.Value) {
			// jumps at the end of a body of about 65535 bytes (whatever a
			// statement costs: 7 to 13 bytes), forwards and backwards
			return "function big(c) {\n" + rep("c = c + 1;\n", n) + fmt.Sprintf("if ( c == %d ) { c = c + 0; } else { return \"else\"; }\nk = 0; while ( k < 2 ) { k = k + 1; }\nforeach v in [1, 2] { c = c + v; }\nreturn c;\n}\nreturn big(0);", n), lang.Int(int64(n + 3))
		}},
		{"statements-then-jumps", true, byteBoundarySizes(), func(n int) (string, lang.Value) {
			return "c = 0;\n" + rep("c = c + 1;\n", n) + fmt.Sprintf("if ( c == %d ) { c = c + 0; } else { return \"else\"; }\nk = 0; while ( k < 2 ) { k = k + 1; }\nforeach v in [1, 2] { c = c + v; }\nreturn c;", n), lang.Int(int64(n + 3))
		}},
		{"functions", true, []int{1, 2, 255, 256, 257, 3000}, func(n int) (string, lang.Value) {
			var b strings.Builder
			for i := 0; i < n; i++ {
				fmt.Fprintf(&b, "function f%d(v) { return v + %d; }\n", i, i)
			}
			fmt.Fprintf(&b, "return [f0(1), f%d(1)];", n-1)
			return b.String(), lang.Array(lang.Int(1), lang.Int(int64(n)))
		}},
		{"jump-over-long-block", true, []int{9361, 9362, 13106, 13107, 13108, 21845}, func(n int) (string, lang.Value) {
			// a forward jump across (almost) 65535 bytes, taken and not taken
			return "c = 0;\nif ( x == 0 ) {\n" + rep("c = c + 1;\n", n) + "}\nif ( x == 7 ) { c = c + 5; }\nwhile ( c < 6 ) { c = c + 1; }\nreturn c;", lang.Int(6)
		}},
	}
}

// alsoC06: shapes about calling functions, run under C06 as well.
var alsoC06 = map[string]bool{"recursion-depth": true, "recursion-depth-inside-loops": true, "recursion-depth-inside-function-scopes": true, "call-nesting": true,
	"call-arguments": true, "functions": true, "statements-in-function": true}

func runLimits(t *testing.T, prop string, stmt bool) {
	defer silenceAs("limits")()
	col := evid.New(prop, "limits", "scripts at the limits of the implementation (nesting 10000, operator chains and compile depth 100000, call depth 10000, value nesting 10000, 65535 bytes of code, 65536 constants) and at the sizes where 8- and 16-bit quantities wrap: deterministic shapes (parentheses, prefix chains, array/call/index nesting, operator chains, element/constant/pair/argument counts, recursion depth, values nested at run time; if/while/foreach nesting, else-if chains, switch arms, statement and function counts, long jumps) at sizes on both sides of each limit, optimizer on and off; oracle: the value known by construction, or an error from Prepare or the run - never another value; non-trivial = size >= 255; distinct by shape and size")
	defer col.Flush()
	si, sn := shardIndex()
	k := 0
	vars := map[string]lang.Value{"x": lang.Int(7), "t": lang.Bool(true), "one": lang.Int(1)}
	for _, sh := range limitShapes() {
		if prop == "C06" {
			if !alsoC06[sh.name] {
				continue
			}
		} else if sh.stmt != stmt {
			continue
		}
		for _, n := range sh.sizes {
			k++
			if k%sn != si {
				continue
			}
			script, want := sh.build(n)
			outcomes := []string{}
			for _, noOpt := range []bool{false, true} {
				c := &Case{Prop: prop, Kind: "limit", Script: script, Vars: vars, NoOpt: noOpt, Obj: &eng.ObjSpec{Mode: "map"}, History: "none",
					Exp: Expect{Val: want, Quirk: true, Why: fmt.Sprintf("shape %s at size %d", sh.name, n)}}
				t0 := time.Now()
				if os.Getenv("VERIF_LIMITS_TRACE") != "" {
					fmt.Fprintf(os.Stderr, "LIMIT CASE %s %d noopt=%v (%d bytes)\n", sh.name, n, noOpt, len(script))
				}
				res := eng.Quick(script, map[string]interface{}{}, vars, noOpt)
				if d := time.Since(t0); d > 2*time.Second {
					fmt.Fprintf(os.Stderr, "SLOW LIMIT CASE %s %d noopt=%v: %v\n", sh.name, n, noOpt, d)
				}
				out := "value"
				switch {
				case res.Panic != nil:
					violation(t, prop, c, "shape %s at size %d: panic: %v", sh.name, n, res.Panic)
				case res.PrepareErr != nil:
					out = "rejected"
				case isTimeout(res.Err):
					// every shape ends by construction after a few milliseconds
					violation(t, prop, c, "shape %s at size %d (optimizer off: %v): the script was still running when its 20 s deadline expired", sh.name, n, noOpt)
				case res.Err != nil:
					out = "run-time error"
					if from, limited := runtimeLimited[sh.name]; !limited || n < from {
						// nothing in this shape meets a limit while it runs: it is
						// refused by Prepare or it runs to its value
						violation(t, prop, c, "shape %s at size %d (optimizer off: %v): accepted by Prepare, then the run failed: %v", sh.name, n, noOpt, res.Err)
					}
				default:
					if err := checkResult(res, Expect{Val: want}); err != nil {
						violation(t, prop, c, "shape %s at size %d (optimizer off: %v): %v", sh.name, n, noOpt, clip(err.Error(), 600))
					}
				}
				outcomes = append(outcomes, out)
				col.Class("limit-outcome:" + out)
				col.Case(fmt.Sprint(sh.name, n, noOpt), n >= 255, func() interface{} {
					return map[string]interface{}{"shape": sh.name, "size": n, "noopt": noOpt, "outcome": out, "script": clipMiddle(script, 300)}
				})
			}
			col.Class("limit-shape:" + sh.name)
			_ = outcomes
		}
	}
	col.Set("limits_exhaustive_over_listed_sizes", true)
}

func clipMiddle(s string, n int) string {
	if len(s) <= n {
		return s
	}
	return s[:n/2] + fmt.Sprintf(" ...(%d bytes)... ", len(s)-n) + s[len(s)-n/2:]
}

func TestC01Limits(t *testing.T) { runLimits(t, "C01", false) }
func TestC02Limits(t *testing.T) { runLimits(t, "C02", true) }
func TestC06Limits(t *testing.T) { runLimits(t, "C06", false) }
