package props

import (
	"fmt"
	"testing"

	"pgregory.net/rapid"

	"verif/harness/eng"
	"verif/harness/evid"
	"verif/harness/gen"
	"verif/harness/lang"
)

// C16, part "stepped": keys, indexes and needles with a history.
//
// A number that is used as a hash key, array index, range bound or `in`
// needle may have been used the same way before, and stepped (++ -- += -= *=)
// since. "A hash returns for each key the value stored under it" speaks about
// the key's value now, not about what the object once was. The programs are
// built on the reference interpreter's AST, so the expectation is the model's.

func TestC16Stepped(t *testing.T) {
	defer silenceAs("stepped")()
	col := evid.New("C16", "stepped", "programs in which a number variable is used as hash key / array index / `in` needle / range bound (pre-use), then stepped with ++ -- += -= *= (1-3 times, directly, in a loop or inside a function), possibly copied before, and then used again as key, index, needle and bound next to literals of its old and new value; integers around the inline-constant limit and floats; oracle: reference interpreter (result and resulting variables); non-trivial = there was a pre-use and the value changed; distinct by script")
	rapidCheck(t, col, func(rt *rapid.T) {
		c := &Case{Prop: "C16", Kind: "stepped", Vars: map[string]lang.Value{}, Obj: &eng.ObjSpec{Mode: "map"}, NoOpt: rapid.Bool().Draw(rt, "noopt")}
		m := lang.NewMachine()
		eng.ModelHost(m)
		isFloat := rapid.Bool().Draw(rt, "float")
		var start lang.Value
		if isFloat {
			start = lang.Float(rapid.SampledFrom([]float64{0.5, 1.5, 2.5, -0.5, 65534.5, 3, 1e15, 0.25}).Draw(rt, "fstart"))
		} else {
			start = lang.Int(rapid.SampledFrom([]int64{0, 1, 2, 5, -1, 65533, 65534, 65535, 70000, 1 << 40}).Draw(rt, "istart"))
		}
		x := lang.Name{N: "x"}
		lit := func(v lang.Value) lang.Expr { return lang.ValueExpr(v) }
		var body []lang.Stmt
		switch gen.Uniform(rt, "origin", 3) {
		case 0:
			body = append(body, lang.Assign{N: "x", X: lit(start)})
		case 1:
			c.Vars["x"] = start
			m.Globals["x"] = start
		default:
			// copied from another variable that keeps the start value
			body = append(body, lang.Assign{N: "orig", X: lit(start)}, lang.Assign{N: "x", X: lang.Name{N: "orig"}})
		}
		// pre-use
		pre := gen.Uniform(rt, "pre", 7)
		switch pre {
		case 1:
			body = append(body, lang.Assign{N: "h0", X: lang.HashLit{Keys: []lang.Expr{x}, Vals: []lang.Expr{lit(lang.Str("old"))}}})
		case 2:
			body = append(body, lang.Assign{N: "h0", X: lang.HashLit{Keys: []lang.Expr{lit(start), lit(lang.Str("k"))}, Vals: []lang.Expr{lit(lang.Int(1)), lit(lang.Int(2))}}},
				lang.Assign{N: "t0", X: lang.Index{X: lang.Name{N: "h0"}, I: x}})
		case 3:
			body = append(body, lang.Assign{N: "s0", X: lang.Call{Fn: "string", Args: []lang.Expr{x}}})
		case 4:
			body = append(body, lang.Assign{N: "b0", X: lang.Binary{Op: "in", L: x, R: lang.ArrayLit{Elems: []lang.Expr{lit(lang.Int(7)), x}}}})
		case 5:
			body = append(body, lang.Assign{N: "k0", X: lang.Call{Fn: "keys", Args: []lang.Expr{lang.HashLit{Keys: []lang.Expr{x}, Vals: []lang.Expr{x}}}}})
		case 6:
			body = append(body, lang.Assign{N: "y", X: x}) // a copy that must keep the old value
		}
		// steps
		nsteps := rapid.IntRange(1, 3).Draw(rt, "nsteps")
		var steps []lang.Stmt
		for i := 0; i < nsteps; i++ {
			switch gen.Uniform(rt, "step", 6) {
			case 0, 1:
				steps = append(steps, lang.IncDec{N: "x", Op: "++"})
			case 2:
				steps = append(steps, lang.IncDec{N: "x", Op: "--"})
			case 3:
				steps = append(steps, lang.Compound{N: "x", Op: "+", X: lit(lang.Int(rapid.Int64Range(1, 3).Draw(rt, "inc")))})
			case 4:
				steps = append(steps, lang.Compound{N: "x", Op: "-", X: lit(lang.Int(1))})
			default:
				steps = append(steps, lang.Compound{N: "x", Op: "*", X: lit(lang.Int(2))})
			}
		}
		switch gen.Uniform(rt, "where", 3) {
		case 0:
			body = append(body, steps...)
		case 1:
			body = append(body, lang.Foreach{Var: "i", Iter: lang.Binary{Op: "..", L: lit(lang.Int(1)), R: lit(lang.Int(int64(rapid.IntRange(1, 2).Draw(rt, "loops"))))}, Body: steps})
		default:
			body = append(body, lang.FuncDef{N: "bump", Params: nil, Body: append(append([]lang.Stmt{}, steps...), lang.Return{X: x})},
				lang.Assign{N: "r0", X: lang.Call{Fn: "bump"}})
		}
		// what x is now, according to the model (run the prefix)
		prefix := &lang.Program{Stmts: append(append([]lang.Stmt{}, body...), lang.Return{X: x})}
		pm := lang.NewMachine()
		eng.ModelHost(pm)
		for k, v := range m.Globals {
			pm.Globals[k] = v
		}
		now, err := pm.Run(prefix)
		if err != nil {
			rt.Skip("the steps themselves are an error") // not expected: all steps are defined on numbers
		}
		changed := !lang.DeepEqual(now, start)
		// post-use
		keys := []lang.Expr{x, lit(lang.Str("k"))}
		vals := []lang.Expr{lit(lang.Str("new")), lit(lang.Str("other"))}
		if changed {
			keys = append(keys, lit(start))
			vals = append(vals, lit(lang.Str("old")))
		}
		body = append(body, lang.Assign{N: "H", X: lang.HashLit{Keys: keys, Vals: vals}})
		H := lang.Name{N: "H"}
		out := []lang.Expr{
			lang.Index{X: H, I: x},
			lang.Index{X: H, I: lit(now)},
			lang.Index{X: H, I: lit(start)},
			lang.Call{Fn: "len", Args: []lang.Expr{H}},
			lang.Call{Fn: "keys", Args: []lang.Expr{H}},
			lang.Binary{Op: "in", L: x, R: lang.ArrayLit{Elems: []lang.Expr{lit(lang.Int(-7)), lit(now)}}},
			lang.Binary{Op: "in", L: x, R: lang.ArrayLit{Elems: []lang.Expr{lit(lang.Int(-7)), lit(start)}}},
			lang.Binary{Op: "in", L: lit(now), R: lang.ArrayLit{Elems: []lang.Expr{x}}},
			lang.Call{Fn: "string", Args: []lang.Expr{x}},
			lang.Binary{Op: "==", L: x, R: lit(now)},
			lang.Call{Fn: "string", Args: []lang.Expr{H}},
		}
		if pre == 6 {
			out = append(out, lang.Index{X: H, I: lang.Name{N: "y"}}, lang.Name{N: "y"})
		}
		if pre == 1 || pre == 2 {
			out = append(out, lang.Index{X: lang.Name{N: "h0"}, I: x}, lang.Index{X: lang.Name{N: "h0"}, I: lit(start)}, lang.Call{Fn: "string", Args: []lang.Expr{lang.Name{N: "h0"}}})
		}
		if now.K == lang.KInt && now.I >= -2 && now.I <= 6 {
			arr := lang.ArrayLit{Elems: []lang.Expr{lit(lang.Str("e0")), lit(lang.Str("e1")), lit(lang.Str("e2")), lit(lang.Str("e3"))}}
			out = append(out, lang.Index{X: arr, I: x}, lang.Index{X: lit(lang.Str("狐b犬d")), I: x},
				lang.Binary{Op: "..", L: x, R: lang.Binary{Op: "+", L: x, R: lit(lang.Int(2))}})
		}
		body = append(body, lang.Return{X: lang.ArrayLit{Elems: out}})
		prog := &lang.Program{Stmts: body}
		c.Script = lang.ProgramText(prog)
		c.Exp = expectFromModel(m, prog)
		c.Exp.CheckGlobals = true
		if e := runCase(c); e != nil {
			violation(rt, "C16", c, "%v", e)
		}
		col.Class(fmt.Sprintf("stepped-pre-use:%d", pre))
		if c.Exp.Unspec {
			col.Excluded("unspecified: " + clip(c.Exp.Why, 50))
		}
		cc := c
		col.Case(fmt.Sprint(c.Script, c.Vars, c.NoOpt), !c.Exp.Unspec && pre != 0 && changed, func() interface{} { return sampleOf(cc) })
	})
}
