package props

import (
	"context"
	"encoding/json"
	"fmt"
	"strings"
	"sync"
	"testing"
	"time"

	"pgregory.net/rapid"

	"verif/harness/eng"
	"verif/harness/evid"
	"verif/harness/gen"
	"verif/harness/lang"
)

// Prepare histories (C19: "the same script text ... always give the same
// compiled program ... across repeated Prepare calls"; C13: a script that is
// rejected is rejected whatever the evaluator compiled before).
//
// An evaluator's Script field is the host's to change; the evaluator is then
// prepared again. What it answers for the last script - accepted or refused,
// the program, the result of running it - must be what a fresh evaluator
// answers for that script alone. The histories are made of drafts that are
// refused at every stage (lexer/parser, compiler - at the surface, deep inside
// parentheses and blocks, at the far end of an operator chain tens of
// thousands long -, size limits, nesting limits) and of accepted scripts that
// define functions and constants (run or not, to the end or into a fault).
// The last script sits on either side of a limit of the implementation (the
// largest size a fresh evaluator accepts, found by bisection, and its
// neighbours), or asks for things an earlier script defined.

type prepStep struct {
	Kind string `json:"kind"`
	N    int    `json:"n"`
	Run  bool   `json:"run,omitempty"`
}

// PrepHistCase is the replayable case.
type PrepHistCase struct {
	Prop       string     `json:"prop"`
	Kind       string     `json:"kind"` // prephist
	Steps      []prepStep `json:"steps"`
	FinalShape string     `json:"final_shape"`
	FinalSize  int        `json:"final_size"`
	NoOpt      bool       `json:"noopt"`
	// DeadContext: the context of the evaluator with the history has ended
	// (cancelled, or used up by an endless run) before the last Prepare: what
	// Prepare says about a script does not depend on that
	DeadContext string `json:"dead_context,omitempty"`
	Msg         string `json:"message,omitempty"`
}

// draft builds the script of a history step.
func draft(kind string, n int) string {
	switch kind {
	case "parse-rejected":
		return "zq = " + rep("(", n) + " 1 + ; return zq;"
	case "parse-rejected-function-header":
		return []string{"function zf(a, b", "function (a) { return a; }", "function zf(a) return 1;", "function zf(a { return a; }", "function zf(a, ) { local b; }", "zq = 1; function zf("}[n%6]
	case "parse-rejected-in-ternary":
		return []string{"zq = t ? 1 ;", "zq = t ? (1 + ) : 2;", "zq = t ? (t ? 1 : 2) : 3;", "zq = t ? 1 : ;", "function zf(a) { return a ? [1, : 2; }", "zq = t ? " + rep("(", 50) + "1 : 2;"}[n%6]
	case "lexer-rejected":
		return "zq = 1; " + rep("if ( t ) { ", n) + "zr = \"unterminated" + rep(" }", n)
	case "compile-rejected":
		return "zq = 1;\nfunction zf(a) { return a + 1; }\nzr = " + rep("(", n) + "1 += 2" + rep(")", n) + ";\nreturn zq;"
	case "compile-rejected-in-blocks":
		return "zq = [1, 2.5, \"zq\", 70001];\n" + rep("if ( t ) { ", n) + "foreach v in zq { zr = 3; zr.(2 += 3); }" + rep(" }", n) + "\nreturn zq;"
	case "compile-rejected-in-function":
		return "function zf(a) { " + rep("while ( a < 0 ) { ", n) + "a = len(a)(1);" + rep(" }", n) + " return a; }\nfunction zg() { return \"zg\"; }\nreturn zf(1);"
	case "compile-rejected-end-of-chain":
		// the offending node is the left-most leaf of a left-deep tree
		return "return (1 += 2)" + rep(" + 1", n) + ";"
	case "too-large":
		return rep("1;", 22000+n)
	case "too-deep":
		return "return " + rep("(", 10001+n) + "7" + rep(")", 10001+n) + ";"
	case "chain-too-long":
		return "return 1" + rep(" + 1", 100001+n) + ";"
	case "accepted":
		return fmt.Sprintf("zq = [1, 2.5, \"a\", \"zq\", %d];\nfunction zf(a) { return a + %d; }\nfunction zg() { return \"zg\"; }\nfunction zh(a, b) { local c; c = a; foreach v in zq { c = c + 1; } return c + b; }\nif ( zq ) { return zf(1) + zh(2, 3); }\nreturn 0;", 70000+n, n)
	case "accepted-reads-members":
		return fmt.Sprintf("return [Name, Logins + %d, \"lit\", 70000, len(Name)];", n)
	case "compile-rejected-naming-members":
		return "if ( Secret == \"x\" ) { return [Logins, Secret, \"other\", 80000, 2.5]; }\n" + rep("(", n) + "3 += 1" + rep(")", n) + ";\nreturn Secret;"
	case "accepted-fault":
		return fmt.Sprintf("function zf(d) { if ( d <= 0 ) { foreach v in [1, 2] { return 1 %% 0; } } return zf(d - 1); }\nfunction zg() { return \"stale\"; }\nreturn zf(%d);", n)
	}
	return "return 1;"
}

var prepStepKinds = []string{"parse-rejected", "parse-rejected-in-ternary", "parse-rejected-function-header", "lexer-rejected", "compile-rejected", "compile-rejected-in-blocks", "compile-rejected-in-function",
	"compile-rejected-end-of-chain", "too-large", "too-deep", "chain-too-long", "accepted", "accepted-fault", "accepted-reads-members", "accepted-reads-members",
	"compile-rejected-naming-members"}

// prepObject is the record every run of a history is made on.
func prepObject() interface{} {
	return map[string]interface{}{"Name": "alice", "Secret": "hunter2", "Logins": 3}
}

// finals: shapes of the last script, by size.
var prepFinals = map[string]func(n int) string{
	"parentheses": func(n int) string { return "return " + rep("(", n) + "x" + rep(")", n) + ";" },
	"unary-minus": func(n int) string { return "return " + rep("- ", n) + "x;" },
	"if-nesting": func(n int) string {
		return rep("if ( t ) { ", n) + "return x;" + rep(" }", n) + "\nreturn \"fell through\";"
	},
	"array-nesting": func(n int) string { return "return len(" + rep("[", n) + "x" + rep("]", n) + ");" },
	"sum-chain":     func(n int) string { return "return x" + rep(" + one", n) + ";" },
	"and-chain":     func(n int) string { return "return t" + rep(" && t", n) + ";" },
	"statements":    func(n int) string { return "c = 0;\n" + rep("c = c + 1;\n", n) + "return c;" },
	"function-body": func(n int) string {
		return "function big(c) {\n" + rep("c = c + 1;\n", n) + "return c;\n}\nreturn big(0);"
	},
	"else-if-chain": func(n int) string {
		var b strings.Builder
		b.WriteString("if ( x == 0 ) { return 0; }")
		for i := 1; i <= n; i++ {
			fmt.Fprintf(&b, " else if ( x == %d ) { return %d; }", 7+n-i, 100+i)
		}
		b.WriteString(" else { return \"else\"; }")
		return b.String()
	},
	"constants": func(n int) string {
		var b strings.Builder
		b.WriteString("a = [")
		for i := 0; i < n; i++ {
			if i > 0 {
				b.WriteString(", ")
			}
			fmt.Fprintf(&b, "%d", 70000+i)
		}
		fmt.Fprintf(&b, "];\nreturn [len(a), a[%d]];", n-1)
		return b.String()
	},
	// small scripts that ask for what an earlier script defined (n is ignored)
	"calls-leftover-function": func(n int) string { return "return zg();" },
	"redefines-function":      func(n int) string { return "function zf(a) { return \"new\"; }\nreturn [zf(1), zf(2)];" },
	"compile-rejected-small": func(n int) string {
		return "zq = 1;\nfunction zf(a) { foreach v in [a] { switch ( v ) { case 1 { return [1, 2, 3 += 4]; } } } }\nreturn zf(1);"
	},
	"compile-rejected-callee": func(n int) string { return "if ( t ) { zr = {\"k\": len(x)(1)}; }\nreturn 1;" },
	"uses-ternary": func(n int) string {
		return "function zt(a) { local b; b = a ? 1 : 2; return b; }\nreturn [t ? x : 0, zt(t), (x == 7) ? \"y\" : \"n\"];"
	},
	"local-outside-function": func(n int) string { return "local zl; return true;" },
	"nested-ternary":         func(n int) string { return "return t ? (t ? 1 : 2) : 3;" },
	"reads-members":          func(n int) string { return "return [Name, Logins, Secret, \"lit\", \"other\", 70000, 80000];" },
	"same-constants":         func(n int) string { return "return [1, 2.5, \"a\", \"zq\", 70000, 70001, \"zg\", \"stale\"];" },
}

var prepFinalNames = []string{"parentheses", "unary-minus", "if-nesting", "array-nesting", "sum-chain", "and-chain", "statements", "function-body",
	"else-if-chain", "constants", "calls-leftover-function", "redefines-function", "same-constants", "reads-members", "uses-ternary", "local-outside-function", "nested-ternary", "compile-rejected-small", "compile-rejected-callee"}

// upper bounds for the bisection (a fresh evaluator refuses these sizes)
var prepFinalMax = map[string]int{"parentheses": 10400, "unary-minus": 10400, "if-nesting": 10400, "array-nesting": 10400, "sum-chain": 40000,
	"and-chain": 40000, "statements": 22000, "function-body": 22000, "else-if-chain": 10400, "constants": 3000}

var groupingFinals = map[string]bool{"parentheses": true, "unary-minus": true, "sum-chain": true, "and-chain": true, "uses-ternary": true, "nested-ternary": true}

var prepVars = map[string]lang.Value{"x": lang.Int(7), "t": lang.Bool(true), "one": lang.Int(1)}

func prepRunner(script string) (*eng.Runner, context.CancelFunc) {
	r := eng.NewRunner(script)
	ctx, cancel := context.WithTimeout(context.Background(), 60*time.Second)
	r.E.SetContext(ctx)
	for _, k := range sortedKeys(prepVars) {
		r.E.SetVariable(k, eng.ToObject(prepVars[k]))
	}
	return r, cancel
}

func freshAccepts(script string, noOpt bool) bool {
	r, cancel := prepRunner(script)
	defer cancel()
	err, pan := r.Prepare(noOpt)
	return err == nil && pan == nil
}

var (
	boundaryMu    sync.Mutex
	boundaryCache = map[string]int{}
)

// boundary: the largest size of the shape a fresh evaluator accepts (0 if it
// accepts none, the listed maximum if it accepts that too), by bisection.
func boundary(shape string, noOpt bool) int {
	hi, limited := prepFinalMax[shape]
	if !limited {
		return 0
	}
	key := fmt.Sprint(shape, noOpt)
	boundaryMu.Lock()
	defer boundaryMu.Unlock()
	if b, ok := boundaryCache[key]; ok {
		return b
	}
	build := prepFinals[shape]
	lo := 0
	if freshAccepts(build(hi), noOpt) {
		lo = hi
	}
	for hi-lo > 1 && lo != hi {
		mid := (lo + hi) / 2
		if freshAccepts(build(mid), noOpt) {
			lo = mid
		} else {
			hi = mid
		}
	}
	boundaryCache[key] = lo
	return lo
}

var (
	verdictMu    sync.Mutex
	verdictCache = map[string]bool{}
)

// freshVerdict: accepted or refused, as a fresh evaluator said when the
// process met this script for the first time.
func freshVerdict(shape string, size int, noOpt bool, script string) bool {
	key := fmt.Sprint(shape, size, noOpt)
	verdictMu.Lock()
	defer verdictMu.Unlock()
	if v, ok := verdictCache[key]; ok {
		return v
	}
	v := freshAccepts(script, noOpt)
	verdictCache[key] = v
	return v
}

type prepAnswer struct {
	accepted bool
	program  string
	result   string
}

func prepAnswerOf(r *eng.Runner, noOpt bool) (a prepAnswer, pan interface{}) {
	err, p := r.Prepare(noOpt)
	if p != nil {
		return a, p
	}
	if err != nil {
		return a, nil
	}
	a.accepted = true
	a.program = programDigest(r)
	res := r.Execute(prepObject())
	switch {
	case res.Panic != nil:
		return a, res.Panic
	case isTimeout(res.Err):
		a.result = "timeout"
	case res.Err != nil:
		a.result = "error"
	case res.TooBig:
		a.result = "too big to compare"
	default:
		a.result = res.Val.Describe() + " trace=" + strings.Join(res.Trace, ";")
	}
	return a, nil
}

// dumpPanics calls Dump (output silenced) and reports a panic.
func dumpPanics(r *eng.Runner) (pan interface{}) {
	defer func() { pan = recover() }()
	_ = r.E.Dump()
	return nil
}

func runPrepHist(c *PrepHistCase) (classes []string, err error) {
	build, ok := prepFinals[c.FinalShape]
	if !ok {
		return nil, fmt.Errorf("unknown final shape %q", c.FinalShape)
	}
	final := build(c.FinalSize)
	fr, cancelF := prepRunner(final)
	defer cancelF()
	// what a fresh evaluator says about the last script before anything else
	// happens (bisection included) ...
	early := freshVerdict(c.FinalShape, c.FinalSize, c.NoOpt, final)
	want, pan := prepAnswerOf(fr, c.NoOpt)
	if pan != nil {
		return nil, fmt.Errorf("a fresh evaluator panicked on the last script: %v", pan)
	}
	_ = early
	first := "return 1;"
	if len(c.Steps) > 0 {
		first = draft(c.Steps[0].Kind, c.Steps[0].N)
	}
	r, cancel := prepRunner(first)
	defer cancel()
	lastAccepted := ""
	stateful := false
	_ = stateful
	for i, st := range c.Steps {
		r.E.Script = draft(st.Kind, st.N)
		perr, pan := r.Prepare(c.NoOpt)
		if pan != nil {
			return classes, fmt.Errorf("step %d (%s %d): Prepare panicked: %v", i, st.Kind, st.N, pan)
		}
		if dp := dumpPanics(r); dp != nil {
			return classes, fmt.Errorf("step %d (%s %d): Dump after Prepare (error: %v) panicked: %v", i, st.Kind, st.N, perr, dp)
		}
		if perr != nil {
			classes = append(classes, "history-step-refused:"+st.Kind)
			// a host that does not look at the error runs what it has: that
			// fails, or it runs the script accepted last - as that script runs
			// anywhere else
			if st.Run && lastAccepted != "" {
				res := r.Execute(prepObject())
				if res.Panic != nil {
					return classes, fmt.Errorf("step %d (%s %d): the run after the refused Prepare panicked: %v", i, st.Kind, st.N, res.Panic)
				}
				if res.Err == nil && !res.TooBig {
					fr, cancelL := prepRunner(lastAccepted)
					want, _ := prepAnswerOf(fr, c.NoOpt)
					cancelL()
					got := res.Val.Describe() + " trace=" + strings.Join(res.Trace, ";")
					if want.accepted && want.result != "timeout" && want.result != "error" && got != want.result {
						return classes, fmt.Errorf("step %d (%s %d): Prepare refused the script; the run that followed neither failed nor gave what the script accepted before gives (%s): it gave %s", i, st.Kind, st.N, clip(want.result, 300), clip(got, 300))
					}
					classes = append(classes, "run-after-refused-prepare:value")
				} else {
					classes = append(classes, "run-after-refused-prepare:error")
				}
			}
		} else {
			classes = append(classes, "history-step-accepted:"+st.Kind)
			lastAccepted = r.E.Script
			stateful = stateful || st.Run
			if st.Run {
				if res := r.Execute(prepObject()); res.Panic != nil {
					return classes, fmt.Errorf("step %d (%s %d): the run panicked: %v", i, st.Kind, st.N, res.Panic)
				}
			}
		}
	}
	// ... is what a fresh evaluator says after the history (the process as a
	// whole has no memory of refused scripts either)
	if late := freshAccepts(final, c.NoOpt); late != early {
		return classes, fmt.Errorf("last script (%s, size %d): a fresh evaluator's Prepare said accepted=%v when this process first met the script and says accepted=%v after the history on another evaluator", c.FinalShape, c.FinalSize, early, late)
	}
	if c.DeadContext != "" {
		dctx, dcancel := context.WithCancel(context.Background())
		r.E.SetContext(dctx)
		if c.DeadContext == "used-up" {
			// an endless script first, stopped by a deadline of its own
			tctx, tcancel := context.WithTimeout(context.Background(), 30*time.Millisecond)
			r.E.SetContext(tctx)
			r.E.Script = "function zw(a) { foreach v in [1, 2] { while ( true ) { a = a + 1; } } }\nswitch ( 1 ) { case 1 { zw(0); } }"
			if perr, _ := r.Prepare(c.NoOpt); perr == nil {
				_ = r.Execute(prepObject())
			}
			tcancel()
		} else {
			dcancel()
		}
		defer dcancel()
		r.E.Script = final
		perr, pan := r.Prepare(c.NoOpt)
		if pan != nil {
			return classes, fmt.Errorf("Prepare under a context that has ended (%s) panicked: %v", c.DeadContext, pan)
		}
		if (perr == nil) != want.accepted {
			return classes, fmt.Errorf("last script (%s, size %d): a fresh evaluator's Prepare says accepted=%v; under a context that has ended (%s) Prepare says accepted=%v", c.FinalShape, c.FinalSize, want.accepted, c.DeadContext, perr == nil)
		}
		return append(classes, "last-prepare-under-ended-context:"+c.DeadContext), nil
	}
	r.E.Script = final
	got, pan := prepAnswerOf(r, c.NoOpt)
	if pan != nil {
		return classes, fmt.Errorf("the evaluator with a history panicked on the last script: %v", pan)
	}
	if dp := dumpPanics(r); dp != nil {
		return classes, fmt.Errorf("Dump after the last Prepare panicked: %v", dp)
	}
	if want.result == "timeout" || got.result == "timeout" {
		return append(classes, "inconclusive:timeout"), nil
	}
	switch {
	case want.accepted && !got.accepted:
		return classes, fmt.Errorf("a fresh evaluator accepts the last script (%s, size %d), the evaluator with the history refuses it", c.FinalShape, c.FinalSize)
	case !want.accepted && got.accepted:
		return classes, fmt.Errorf("a fresh evaluator refuses the last script (%s, size %d), the evaluator with the history accepts it", c.FinalShape, c.FinalSize)
	case want.accepted && want.program != got.program:
		return classes, fmt.Errorf("last script (%s, size %d): the evaluator with the history holds another program than a fresh one: %s", c.FinalShape, c.FinalSize, clip(firstDiff(want.program, got.program), 600))
	case want.accepted && want.result != got.result:
		return classes, fmt.Errorf("last script (%s, size %d): a fresh evaluator gives %s, the evaluator with the history %s", c.FinalShape, c.FinalSize, clip(want.result, 300), clip(got.result, 300))
	}
	if want.accepted {
		classes = append(classes, "last-script:accepted")
	} else {
		classes = append(classes, "last-script:refused")
	}
	return classes, nil
}

func init() {
	for _, p := range []string{"C19", "C13", "C08", "C04", "C12"} {
		replayers[p+"/prephist"] = func(raw []byte) error {
			var c PrepHistCase
			if err := json.Unmarshal(raw, &c); err != nil {
				return err
			}
			_, err := runPrepHist(&c)
			return err
		}
	}
}

func runPrepareHistories(t *testing.T, prop string) {
	defer silenceAs("prephist")()
	col := evid.New(prop, "prephist", "Prepare histories on one evaluator (Script replaced, Prepare called again): 0-6 drafts refused by the lexer, the parser, the compiler (at the surface, inside up to 9000 parentheses or blocks, in a function body, at the far end of an operator chain of up to 99000 links), by the size, nesting and chain limits, or accepted (defining functions and constants; run to the end or into a fault); then a last script on either side of the largest size a fresh evaluator accepts (bisection; parentheses, prefix chains, if/array nesting, operator chains, statement count of program and function body, else-if chain, constants) or asking for what an earlier script defined; oracle: a fresh evaluator given the last script alone (accepted or refused, program through the hook, result and host calls of a run on a record with three members); Dump after every Prepare must not panic; a run made although Prepare refused the script fails or gives what the script accepted last gives on a fresh evaluator (never the members or constants of the refused one); non-trivial = at least one history step; distinct by steps and last script")
	si, sn := shardIndex()
	// the bisections cost seconds: each process looks after some of the shapes
	var mine []string
	for i, n := range prepFinalNames {
		if prop == "C12" && !groupingFinals[n] {
			continue // grouping: parentheses, prefix chains, operator chains, ternaries
		}
		if i%sn == si%sn || prepFinalMax[n] == 0 {
			mine = append(mine, n)
		}
	}
	rapidCheck(t, col, func(rt *rapid.T) {
		c := &PrepHistCase{Prop: prop, Kind: "prephist", NoOpt: rapid.Bool().Draw(rt, "noopt")}
		ns := rapid.IntRange(0, 6).Draw(rt, "steps")
		for i := 0; i < ns; i++ {
			st := prepStep{Kind: rapid.SampledFrom(prepStepKinds).Draw(rt, "kind")}
			switch st.Kind {
			case "compile-rejected-end-of-chain":
				st.N = rapid.SampledFrom([]int{0, 1, 300, 20000, 50000, 99000}).Draw(rt, "n")
			case "compile-rejected", "compile-rejected-in-blocks", "compile-rejected-in-function", "parse-rejected", "lexer-rejected", "compile-rejected-naming-members":
				st.N = rapid.SampledFrom([]int{0, 1, 2, 40, 3000, 9000}).Draw(rt, "n")
				st.Run = rapid.Bool().Draw(rt, "run")
			case "parse-rejected-in-ternary", "parse-rejected-function-header":
				st.N = rapid.IntRange(0, 5).Draw(rt, "n")
			case "accepted-fault":
				st.N = rapid.SampledFrom([]int{0, 1, 50, 9000, 20000}).Draw(rt, "n")
				st.Run = true
			default:
				st.N = rapid.IntRange(0, 3).Draw(rt, "n")
				st.Run = rapid.Bool().Draw(rt, "run")
			}
			c.Steps = append(c.Steps, st)
		}
		c.FinalShape = rapid.SampledFrom(mine).Draw(rt, "final")
		if prepFinalMax[c.FinalShape] > 0 {
			b := boundary(c.FinalShape, c.NoOpt)
			c.FinalSize = b + rapid.SampledFrom([]int{0, 1, -1, 2, -2, -3, -5, -17, 5}).Draw(rt, "delta")
			if c.FinalSize < 1 {
				c.FinalSize = 1
			}
		}
		if gen.Uniform(rt, "deadcontext", 5) == 0 {
			c.DeadContext = rapid.SampledFrom([]string{"cancelled", "used-up"}).Draw(rt, "deadkind")
		}
		classes, err := runPrepHist(c)
		if err != nil {
			c.Msg = err.Error()
			violation(rt, prop, c, "%v", err)
		}
		for _, cl := range classes {
			col.Class(cl)
		}
		col.Class("last-shape:" + c.FinalShape)
		cc := *c
		col.Case(fmt.Sprint(c.Steps, c.FinalShape, c.FinalSize, c.NoOpt), len(c.Steps) > 0, func() interface{} { return cc })
	})
}

func TestC19PrepareHistories(t *testing.T) { runPrepareHistories(t, "C19") }
func TestC13PrepareHistories(t *testing.T) { runPrepareHistories(t, "C13") }
func TestC08PrepareHistories(t *testing.T) { runPrepareHistories(t, "C08") }
func TestC04PrepareHistories(t *testing.T) { runPrepareHistories(t, "C04") }
func TestC12PrepareHistories(t *testing.T) { runPrepareHistories(t, "C12") }
