package props

import (
	"encoding/json"
	"fmt"
	"strings"
	"testing"

	"github.com/skx/evalfilter/v2/object"
	"pgregory.net/rapid"

	"verif/harness/eng"
	"verif/harness/evid"
	"verif/harness/gen"
	"verif/harness/lang"
)

// C15 — numbers, strings and booleans are values, not shared cells.

// MultiCase is one script run several times on one evaluator, with the
// model's expectation for every run.
type MultiCase struct {
	Prop   string                `json:"prop"`
	Kind   string                `json:"kind"`
	Script string                `json:"script"`
	Obj    *eng.ObjSpec          `json:"obj,omitempty"`
	Vars   map[string]lang.Value `json:"vars,omitempty"`
	NoOpt  bool                  `json:"noopt,omitempty"`
	Exps   []Expect              `json:"expects"`
	Msg    string                `json:"message,omitempty"`
}

func runMulti(c *MultiCase) error {
	r, err := prepared(c.Script, c.Vars, c.NoOpt)
	if err != nil {
		return fmt.Errorf("Prepare rejected a valid script: %v", err)
	}
	type kept struct {
		run int
		raw object.Object
		exp lang.Value
	}
	var keep []kept
	defer func() {}()
	for i, exp := range c.Exps {
		var obj interface{}
		if c.Obj != nil {
			obj = c.Obj.Build()
		}
		res := r.Execute(obj)
		if e := checkResult(res, exp); e != nil {
			return fmt.Errorf("run %d: %v", i, e)
		}
		if e := checkEffects(res, exp); e != nil {
			return fmt.Errorf("run %d: %v", i, e)
		}
		if exp.Unspec || (exp.Quirk && res.Err != nil) {
			return nil
		}
		if res.Raw != nil && !exp.Err {
			keep = append(keep, kept{i, res.Raw, exp.Val})
		}
		// ... and so is what GetVariable handed out
		if exp.CheckGlobals && !exp.Err {
			for _, name := range sortedKeys(exp.Globals) {
				if o := r.E.GetVariable(name); o != nil {
					keep = append(keep, kept{i, o, exp.Globals[name]})
				}
			}
		}
		// what the host was handed by earlier runs is not changed by later ones
		for _, k := range keep {
			v, err := eng.FromObject(k.raw)
			if err != nil || !lang.DeepEqual(v, k.exp) || v.Inspect() != k.exp.Inspect() {
				return fmt.Errorf("an object handed to the host by run %d (result or GetVariable) was %s; after run %d the same object reads %s", k.run, k.exp.Describe(), i, v.Describe())
			}
		}
	}
	return nil
}

func init() {
	replayers["C15"] = func(raw []byte) error {
		var c MultiCase
		if err := json.Unmarshal(raw, &c); err != nil {
			return err
		}
		c.Obj.Fix()
		for k, v := range c.Vars {
			v.Fix()
			c.Vars[k] = v
		}
		for i := range c.Exps {
			c.Exps[i].Val.Fix()
			for k, v := range c.Exps[i].Globals {
				v.Fix()
				c.Exps[i].Globals[k] = v
			}
		}
		return runMulti(&c)
	}
}

func TestC15(t *testing.T) {
	defer silenceAs("aliases")()
	col := evid.New("C15", "aliases", "programs that copy a number/string/boolean along a random data-flow shape (variable -> variable, argument -> parameter, element of an array literal, object field -> variable, one literal -> two variables, loop variable, the same argument to two parameters, a returned value waiting on the caller's stack while another call steps its source, foreach index/element copied out of an iteration) interleaved with ++ -- += -= *= /= on one copy at a time, inside a 1-5 iteration loop and over 3 consecutive runs of one evaluator; source values: integer literals on both sides of 65534, floats, strings, fields, SetVariable values; oracle: reference interpreter with value semantics for every run (result observes every copy, the field, and the literal re-evaluated) plus all variables; objects returned to the host by earlier runs are re-read after later runs; non-trivial = >=2 names hold the same value when the mutation happens; distinct by script + inputs")
	replayKnown(t, col, "C15")
	rapidCheck(t, col, func(rt *rapid.T) {
		c := &MultiCase{Prop: "C15", Kind: "aliases", Vars: map[string]lang.Value{}, Obj: &eng.ObjSpec{Mode: rapid.SampledFrom([]string{"map", "struct", "ptr"}).Draw(rt, "mode")}}
		c.NoOpt = rapid.Bool().Draw(rt, "noopt")
		m := lang.NewMachine()
		eng.ModelHost(m)
		// the source value
		var src lang.Value
		switch gen.Uniform(rt, "srckind", 6) {
		case 0, 1:
			src = lang.Int(rapid.SampledFrom([]int64{0, 1, 7, 24, 65533, 65534, 65535, 65536, 70000, 4294967296}).Draw(rt, "srcint"))
		case 2:
			src = lang.Int(rapid.Int64Range(-5, 100).Draw(rt, "srcsmall"))
		case 3, 4:
			src = lang.Float(float64(rapid.Int64Range(-20, 300000).Draw(rt, "srcfloat")) / 4)
		default:
			src = lang.Int(rapid.Int64Range(65530, 65540).Draw(rt, "srcedge"))
		}
		srcProv := rapid.SampledFrom([]string{"literal", "literal", "field", "setvar"}).Draw(rt, "srcprov")
		var srcExpr lang.Expr = lang.ValueExpr(src)
		switch srcProv {
		case "field":
			c.Obj.Fields = append(c.Obj.Fields, eng.Field{Name: "Src", V: src})
			m.Fields["Src"] = src
			srcExpr = lang.Name{N: "Src"}
		case "setvar":
			c.Vars["sv"] = src
			m.Globals["sv"] = src
			srcExpr = lang.Name{N: "sv"}
		}
		if c.Obj.Mode != "map" && !c.Obj.StructOK() {
			c.Obj.Mode = "map"
		}
		var stmts, defs []lang.Stmt
		var inner []lang.Stmt
		inner = append(inner, lang.Assign{N: "x", X: srcExpr})
		if srcProv == "literal" && (src.K == lang.KInt || src.K == lang.KFloat) && gen.Uniform(rt, "calcwithliteral", 3) == 0 {
			// the literal also stands in a calculation made of literals only: what
			// is worked out there is not what the literal is
			op := rapid.SampledFrom([]string{"*", "+", "-"}).Draw(rt, "calcop")
			inner = append(inner, lang.Assign{N: "calc", X: lang.Binary{Op: op, L: srcExpr, R: lang.Lit{V: lang.Int(rapid.SampledFrom([]int64{7, 1, 65535, 70000}).Draw(rt, "calck"))}}})
		}
		names := []string{"x"}
		aliases := 1
		if srcProv != "literal" && rapid.Bool().Draw(rt, "stepsource") {
			// the name the value came in under (a member of the host object, a
			// variable the host set) is itself copied from and stepped: from then
			// on it is a variable of the script, the copies made before are not touched
			names = append(names, srcExpr.(lang.Name).N)
			aliases++
			col.Class("source-name-among-the-stepped:" + srcProv)
		}
		ncopy := rapid.IntRange(1, 3).Draw(rt, "ncopy")
		observe := []lang.Expr{}
		useFunc := false
		useBump, useBoth, useSame, useGlob, useOuter := false, false, false, false, false
		for i := 0; i < ncopy; i++ {
			from := rapid.SampledFrom(names).Draw(rt, "from")
			switch gen.Uniform(rt, "copykind", 5) {
			case 0, 1:
				n := fmt.Sprintf("y%d", i)
				inner = append(inner, lang.Assign{N: n, X: lang.Name{N: from}})
				names = append(names, n)
				aliases++
			case 2:
				n := fmt.Sprintf("arr%d", i)
				inner = append(inner, lang.Assign{N: n, X: lang.ArrayLit{Elems: []lang.Expr{lang.Name{N: from}, lang.Lit{V: lang.Int(7)}, lang.Name{N: from}}}})
				observe = append(observe, lang.Name{N: n})
				aliases++
			case 3:
				// the same literal assigned to a second variable
				if srcProv == "literal" {
					n := fmt.Sprintf("z%d", i)
					inner = append(inner, lang.Assign{N: n, X: srcExpr})
					names = append(names, n)
					aliases++
				}
			case 4:
				useFunc = true
				n := fmt.Sprintf("r%d", i)
				inner = append(inner, lang.Assign{N: n, X: lang.Call{Fn: "bump", Args: []lang.Expr{lang.Name{N: from}}}})
				observe = append(observe, lang.Name{N: n})
				aliases++
			}
		}
		if useFunc {
			op := rapid.SampledFrom([]string{"++", "--"}).Draw(rt, "fop")
			defs = append(defs, lang.FuncDef{N: "bump", Params: []string{"p"}, Body: []lang.Stmt{
				lang.IncDec{N: "p", Op: op}, lang.Compound{N: "p", Op: "+", X: lang.Lit{V: lang.Int(2)}}, lang.Return{X: lang.Name{N: "p"}}}})
		}
		// mutations, possibly interleaved with further copies: step, copy,
		// step again on the same variable must leave the copy alone
		nmut := rapid.IntRange(1, 4).Draw(rt, "nmut")
		target := rapid.SampledFrom(names).Draw(rt, "target")
		for i := 0; i < nmut; i++ {
			if gen.Uniform(rt, "switchtarget", 4) == 0 {
				target = rapid.SampledFrom(names).Draw(rt, "target2")
			}
			switch gen.Uniform(rt, "mutkind", 3) {
			case 0, 1:
				inner = append(inner, lang.IncDec{N: target, Op: rapid.SampledFrom([]string{"++", "--"}).Draw(rt, "mop")})
			default:
				inner = append(inner, lang.Compound{N: target, Op: rapid.SampledFrom([]string{"+", "-", "*", "/"}).Draw(rt, "cop"),
					X: lang.Lit{V: lang.Int(rapid.Int64Range(1, 5).Draw(rt, "k"))}})
			}
			if i < nmut-1 && gen.Uniform(rt, "copybetween", 2) == 0 {
				n := fmt.Sprintf("m%d", i)
				switch gen.Uniform(rt, "betweenkind", 9) {
				case 7:
					// ... passed through a function whose parameter has the very name
					// of the parameter that the inner function steps
					useBump, useOuter = true, true
					inner = append(inner, lang.Assign{N: n, X: lang.Call{Fn: "outer", Args: []lang.Expr{lang.Name{N: target}}}})
					observe = append(observe, lang.Name{N: n})
				case 8:
					// ... stepped in a loop scope that re-uses the name of an enclosing loop variable
					useOuter = true
					inner = append(inner, lang.Assign{N: n, X: lang.Call{Fn: "looped", Args: []lang.Expr{lang.Name{N: target}}}})
					observe = append(observe, lang.Name{N: n})
				case 3:
					// the stepped variable is passed to a function that steps its parameter
					useBump = true
					inner = append(inner, lang.Assign{N: n, X: lang.Call{Fn: "bump2", Args: []lang.Expr{lang.Name{N: target}}}})
					observe = append(observe, lang.Name{N: n})
				case 4:
					// ... passed twice: the two parameters are separate copies
					useBoth = true
					inner = append(inner, lang.Assign{N: n, X: lang.Call{Fn: "both", Args: []lang.Expr{lang.Name{N: target}, lang.Name{N: target}}}})
					observe = append(observe, lang.Name{N: n})
				case 5:
					// ... returned by one call while a second call steps it
					useBump, useSame = true, true
					inner = append(inner, lang.Assign{N: n, X: lang.ArrayLit{Elems: []lang.Expr{lang.Call{Fn: "same", Args: []lang.Expr{lang.Name{N: target}}}, lang.Call{Fn: "bump2", Args: []lang.Expr{lang.Name{N: target}}}, lang.Name{N: target}}}})
					observe = append(observe, lang.Name{N: n})
				case 6:
					// ... stepped inside a function through the global name
					useGlob = true
					inner = append(inner, lang.Assign{N: "gl", X: lang.Name{N: target}}, lang.Assign{N: n, X: lang.Call{Fn: "stepgl", Args: []lang.Expr{lang.Name{N: "gl"}}}})
					names = append(names, "gl")
					observe = append(observe, lang.Name{N: n})
				case 0:
					inner = append(inner, lang.Assign{N: n, X: lang.Name{N: target}})
					names = append(names, n)
				case 1:
					inner = append(inner, lang.Assign{N: n, X: lang.ArrayLit{Elems: []lang.Expr{lang.Name{N: target}}}})
					observe = append(observe, lang.Name{N: n})
				default:
					inner = append(inner, lang.Assign{N: n, X: lang.HashLit{Keys: []lang.Expr{lang.Lit{V: lang.Str("k")}}, Vals: []lang.Expr{lang.Name{N: target}}}})
					observe = append(observe, lang.Name{N: n})
				}
				aliases++
			}
		}
		if useBump || useOuter {
			defs = append(defs, lang.FuncDef{N: "bump2", Params: []string{"p"}, Body: []lang.Stmt{
				lang.IncDec{N: "p", Op: rapid.SampledFrom([]string{"++", "--"}).Draw(rt, "b2op")}, lang.Return{X: lang.Name{N: "p"}}}})
		}
		if useOuter {
			defs = append(defs, lang.FuncDef{N: "outer", Params: []string{"p"}, Body: []lang.Stmt{
				lang.Local{N: "r"}, lang.Assign{N: "r", X: lang.Call{Fn: "bump2", Args: []lang.Expr{lang.Name{N: "p"}}}},
				lang.Return{X: lang.ArrayLit{Elems: []lang.Expr{lang.Name{N: "p"}, lang.Name{N: "r"}}}}}})
			// foreach p in [q, 7] { foreach p in [p] { p++; } acc = acc + [p] }: the inner
			// loop variable shadows the outer one
			defs = append(defs, lang.FuncDef{N: "looped", Params: []string{"q"}, Body: []lang.Stmt{
				lang.Local{N: "seen"}, lang.Assign{N: "seen", X: lang.Lit{V: lang.Int(0)}},
				lang.Foreach{Var: "p", Iter: lang.ArrayLit{Elems: []lang.Expr{lang.Name{N: "q"}, lang.Lit{V: lang.Int(7)}}}, Body: []lang.Stmt{
					lang.Foreach{Var: "p", Iter: lang.ArrayLit{Elems: []lang.Expr{lang.Name{N: "p"}}}, Body: []lang.Stmt{lang.IncDec{N: "p", Op: "++"}}},
					lang.Assign{N: "seen", X: lang.Name{N: "p"}}}},
				lang.Return{X: lang.ArrayLit{Elems: []lang.Expr{lang.Name{N: "q"}, lang.Name{N: "seen"}}}}}})
		}
		if useBoth {
			defs = append(defs, lang.FuncDef{N: "both", Params: []string{"a", "b"}, Body: []lang.Stmt{
				lang.IncDec{N: "a", Op: "++"}, lang.Return{X: lang.ArrayLit{Elems: []lang.Expr{lang.Name{N: "a"}, lang.Name{N: "b"}}}}}})
		}
		if useSame {
			defs = append(defs, lang.FuncDef{N: "same", Params: []string{"q"}, Body: []lang.Stmt{lang.Return{X: lang.Name{N: "q"}}}})
		}
		if useGlob {
			// the parameter was bound from gl; stepping gl leaves the parameter alone
			defs = append(defs, lang.FuncDef{N: "stepgl", Params: []string{"q"}, Body: []lang.Stmt{
				lang.IncDec{N: "gl", Op: "++"}, lang.Return{X: lang.ArrayLit{Elems: []lang.Expr{lang.Name{N: "q"}, lang.Name{N: "gl"}}}}}})
		}
		if rapid.Bool().Draw(rt, "idxcopy") {
			// index and element of one iteration are copied out; later
			// iterations (and stepping the loop variables) leave the copies alone
			el := make([]lang.Expr, 0, 4)
			for _, n := range names {
				el = append(el, lang.Name{N: n})
			}
			el = append(el, lang.Lit{V: lang.Int(65536)}, lang.Lit{V: lang.Float(2.5)})
			var iter lang.Expr = lang.ArrayLit{Elems: el}
			switch gen.Uniform(rt, "idxiter", 3) {
			case 1:
				iter = lang.Binary{Op: "..", L: lang.Lit{V: lang.Int(3)}, R: lang.Lit{V: lang.Int(6)}}
			case 2:
				iter = lang.Lit{V: lang.Str("aé狐b")}
			}
			at := int64(gen.Uniform(rt, "idxat", 3))
			body := []lang.Stmt{lang.If{C: lang.Binary{Op: "==", L: lang.Name{N: "ix"}, R: lang.Lit{V: lang.Int(at)}},
				Then: []lang.Stmt{lang.Assign{N: "ki", X: lang.Name{N: "ix"}}, lang.Assign{N: "kv", X: lang.Name{N: "iv"}}}}}
			if rapid.Bool().Draw(rt, "idxstep") {
				body = append(body, lang.IncDec{N: "ix", Op: "++"})
			}
			inner = append(inner, lang.Assign{N: "ki", X: lang.Lit{V: lang.Int(-1)}}, lang.Assign{N: "kv", X: lang.Lit{V: lang.Int(-1)}},
				lang.Foreach{Idx: "ix", Var: "iv", Iter: iter, Body: body})
			names = append(names, "ki", "kv")
			aliases++
		}
		if rapid.Bool().Draw(rt, "loopvar") {
			// a loop variable taken from an array holding the copies is mutated
			el := make([]lang.Expr, len(names))
			for i, n := range names {
				el[i] = lang.Name{N: n}
			}
			inner = append(inner, lang.Foreach{Var: "lv", Iter: lang.ArrayLit{Elems: el}, Body: []lang.Stmt{lang.IncDec{N: "lv", Op: "++"},
				lang.ExprStmt{X: lang.Call{Fn: "trace", Args: []lang.Expr{lang.Name{N: "lv"}}}}}})
			aliases++
		}
		// a counter that lives in the evaluator across runs and is only ever
		// stepped, never read by the script: the host reads it
		if rapid.Bool().Draw(rt, "counter") {
			var start lang.Value = lang.Int(rapid.SampledFrom([]int64{0, 65533, 65534, 65535, -1}).Draw(rt, "cntstart"))
			if gen.Uniform(rt, "cntfloat", 4) == 0 {
				start = lang.Float(0.5)
			}
			c.Vars["cnt"] = start
			m.Globals["cnt"] = start
			for k := rapid.IntRange(1, 3).Draw(rt, "cntsteps"); k > 0; k-- {
				at := gen.Uniform(rt, "cntat", len(inner)+1)
				step := lang.Stmt(lang.IncDec{N: "cnt", Op: rapid.SampledFrom([]string{"++", "++", "--"}).Draw(rt, "cntop")})
				inner = append(inner[:at], append([]lang.Stmt{step}, inner[at:]...)...)
			}
			aliases++
		}
		// observe everything, including the source re-evaluated
		for _, n := range names {
			observe = append(observe, lang.Name{N: n})
		}
		observe = append(observe, srcExpr, lang.Name{N: "calc"})
		inner = append(inner, lang.ExprStmt{X: lang.Call{Fn: "trace", Args: observe}})
		iters := rapid.IntRange(1, 5).Draw(rt, "iters")
		stmts = append(stmts, defs...)
		if iters > 1 {
			body := append(inner, lang.Assign{N: "n", X: lang.Binary{Op: "+", L: lang.Name{N: "n"}, R: lang.Lit{V: lang.Int(1)}}})
			stmts = append(stmts, lang.Assign{N: "n", X: lang.Lit{V: lang.Int(0)}}, lang.While{C: lang.Binary{Op: "<", L: lang.Name{N: "n"}, R: lang.Lit{V: lang.Int(int64(iters))}}, Body: body})
		} else {
			stmts = append(stmts, inner...)
		}
		stmts = append(stmts, lang.Return{X: lang.ArrayLit{Elems: observe}})
		prog := &lang.Program{Stmts: stmts}
		if gen.Uniform(rt, "longnames", 4) == 0 {
			// the same program with names that agree in their first 64 (or 300)
			// characters and differ only after that: every name is its own variable
			prefix := strings.Repeat("a_rather_long_name_", rapid.SampledFrom([]int{4, 16}).Draw(rt, "prefixlen"))
			long := func(n string) string {
				if n == "Src" {
					return n // the field of the host object keeps its name
				}
				return prefix + n
			}
			prog = lang.Rename(prog, long)
			for _, mp := range []map[string]lang.Value{c.Vars, m.Globals} {
				for k, v := range mp {
					delete(mp, k)
					mp[long(k)] = v
				}
			}
			col.Class("names-sharing-a-long-prefix")
		}
		c.Script = lang.ProgramText(prog)
		for i := 0; i < 3; i++ {
			m.Trace = nil
			e := expectFromModel(m, prog)
			e.CheckTrace = true
			e.CheckGlobals = true
			c.Exps = append(c.Exps, e)
		}
		if err := runMulti(c); err != nil {
			c.Msg = err.Error()
			violation(rt, "C15", c, "%v", err)
		}
		col.Class("source:" + srcProv + ":" + src.Type())
		col.Class(fmt.Sprintf("iterations:%d", iters))
		cc := c
		col.Case(fmt.Sprint(c.Script, c.Vars, c.Obj, c.NoOpt), aliases >= 2, func() interface{} {
			return map[string]interface{}{"script": cc.Script, "runs": 3, "expect_first_run": cc.Exps[0].Val.Describe(), "expect_third_run": cc.Exps[2].Val.Describe()}
		})
	})
}
