package props

import (
	"github.com/skx/evalfilter/v2/object"
	"context"
	"encoding/json"
	"errors"
	"fmt"
	"reflect"
	"strings"
	"testing"

	"pgregory.net/rapid"

	"verif/harness/eng"
	"verif/harness/evid"
	"verif/harness/gen"
	"verif/harness/lang"
)

// C07 — a prepared script carries no hidden state from one run to the next.

// HistStep is one action of a history.
type HistStep struct {
	Op   string     `json:"op"` // "run" | "set"
	Obj  int        `json:"obj,omitempty"`
	Name string     `json:"name,omitempty"`
	V    lang.Value `json:"v"`
}

// HistCase is a script, its inputs and a sequence of actions on one evaluator.
type HistCase struct {
	Prop   string                `json:"prop"`
	Kind   string                `json:"kind"`
	Script string                `json:"script"`
	NoOpt  bool                  `json:"noopt,omitempty"`
	Vars   map[string]lang.Value `json:"vars,omitempty"`
	Objs   []*eng.ObjSpec        `json:"objs"`
	Steps  []HistStep            `json:"steps"`
	// Shared: "" = a new object per run; "map" / "ptr" = ONE map / struct
	// pointer is handed to every run and changed in place between runs.
	Shared string `json:"shared,omitempty"`
	// Cancelable: the evaluators are prepared with a context that a
	// "cancel" step cancels (deterministic, no clocks involved).
	Cancelable bool   `json:"cancelable,omitempty"`
	Msg        string `json:"message,omitempty"`
}

func constPool(r *eng.Runner) string {
	consts, _, _ := r.E.VerifProgram()
	var b strings.Builder
	for _, c := range consts {
		b.WriteString(string(c.Type()) + ":" + c.Inspect() + ";")
	}
	return b.String()
}

// preparedCtx is prepared() with a caller-supplied context.
func preparedCtx(ctx context.Context, script string, vars map[string]lang.Value, noOpt bool) (*eng.Runner, error) {
	r := eng.NewRunner(script)
	r.E.SetContext(ctx)
	for _, k := range sortedKeys(vars) {
		r.E.SetVariable(k, eng.ToObject(vars[k]))
	}
	err, pan := r.Prepare(noOpt)
	if pan != nil {
		return nil, fmt.Errorf("Prepare panicked: %v", pan)
	}
	return r, err
}

// sharedObject hands out one object that is changed in place.
type sharedObject struct {
	kind string
	m    map[string]interface{}
	ptr  interface{}
}

func (s *sharedObject) set(o *eng.ObjSpec) interface{} {
	switch s.kind {
	case "map":
		if s.m == nil {
			s.m = map[string]interface{}{}
		}
		for k := range s.m {
			delete(s.m, k)
		}
		c := *o
		c.Mode = "map"
		for k, v := range c.Build().(map[string]interface{}) {
			s.m[k] = v
		}
		return s.m
	case "ptr":
		c := *o
		c.Mode = "ptr"
		fresh := c.Build()
		if s.ptr == nil || reflect.TypeOf(s.ptr) != reflect.TypeOf(fresh) {
			s.ptr = fresh
			return s.ptr
		}
		reflect.ValueOf(s.ptr).Elem().Set(reflect.ValueOf(fresh).Elem())
		return s.ptr
	}
	return o.Build()
}

// registerStep registers the host function an "addfn" step describes: it
// leaves its mark in the trace, hands its first argument back (so "id" keeps
// its meaning) or, without arguments, the step's value.
func registerStep(r *eng.Runner, s HistStep) {
	name, mark, val := s.Name, fmt.Sprintf("%s#%s", s.Name, s.V.Inspect()), s.V
	r.E.AddFunction(name, func(args []object.Object) object.Object {
		parts := make([]string, len(args))
		for i, a := range args {
			parts[i] = string(a.Type()) + ":" + a.Inspect()
		}
		r.Trace = append(r.Trace, mark+"("+strings.Join(parts, ",")+")")
		if name == "trace" {
			return &object.Void{}
		}
		if len(args) > 0 {
			return args[0]
		}
		return eng.ToObject(val)
	})
}

type histStats struct {
	runs, abnormal, followUps int
}

// runHistory replays the history on a used evaluator and, for every run,
// on a fresh evaluator holding the same variables.
func runHistory(c *HistCase) (histStats, error) {
	var st histStats
	mk := func(vars map[string]lang.Value) (*eng.Runner, error) { return preparedShort(c.Script, vars, c.NoOpt) }
	cancel := func() {}
	if c.Cancelable {
		ctx, cf := context.WithCancel(context.Background())
		cancel = cf
		defer cf()
		mk = func(vars map[string]lang.Value) (*eng.Runner, error) {
			return preparedCtx(ctx, c.Script, vars, c.NoOpt)
		}
	}
	shared := &sharedObject{kind: c.Shared}
	used, err := mk(c.Vars)
	if err != nil {
		return st, nil // rejected script: nothing to compare
	}
	pool0 := constPool(used)
	sawAbnormal := false
	var regs []HistStep
	for si, s := range c.Steps {
		switch s.Op {
		case "set":
			used.Give(s.Name, eng.ToObject(s.V))
		case "addfn":
			// the host registers a function (again, or for the first time under
			// the name of one of the script's own): from the next run on it is
			// the one that is called
			registerStep(used, s)
			regs = append(regs, s)
		case "cancel":
			cancel()
		case "run":
			before, gerr := used.Globals()
			if errors.Is(gerr, eng.ErrTooBig) {
				return st, nil // a variable too large to write down: inconclusive from here on
			}
			if gerr != nil {
				return st, fmt.Errorf("step %d: %v", si, gerr)
			}
			delete(before, "OPTIMIZE")
			fresh, ferr := mk(before)
			if ferr != nil {
				return st, fmt.Errorf("step %d: fresh evaluator rejected the script: %v", si, ferr)
			}
			for _, rs := range regs {
				registerStep(fresh, rs)
			}
			obj := c.Objs[s.Obj%len(c.Objs)]
			var oa, ob interface{}
			if obj.Mode == "nil" {
				oa, ob = nil, nil
			} else if c.Shared != "" {
				oa = shared.set(obj)
				ob = oa
			} else {
				oa, ob = obj.Build(), obj.Build()
			}
			a := used.Execute(oa)
			b := fresh.Execute(ob)
			st.runs++
			if sawAbnormal {
				st.followUps++
			}
			if a.Panic != nil || b.Panic != nil {
				return st, fmt.Errorf("step %d: panic escaped: used=%v fresh=%v", si, a.Panic, b.Panic)
			}
			if a.TooBig || b.TooBig {
				return st, nil
			}
			if !c.Cancelable && (isTimeout(a.Err) || isTimeout(b.Err)) {
				return st, nil // the 2 s safety deadline: inconclusive
			}
			if (a.Err == nil) != (b.Err == nil) {
				return st, fmt.Errorf("step %d (run on object %d): used evaluator err=%v value=%s; fresh evaluator with the same variables err=%v value=%s", si, s.Obj, a.Err, a.Val.Describe(), b.Err, b.Val.Describe())
			}
			if a.Err != nil {
				st.abnormal++
				sawAbnormal = true
			} else if !lang.DeepEqual(a.Val, b.Val) || a.Val.Inspect() != b.Val.Inspect() {
				return st, fmt.Errorf("step %d (run on object %d): used evaluator returns %s, fresh evaluator with the same variables returns %s", si, s.Obj, a.Val.Describe(), b.Val.Describe())
			}
			if strings.Join(a.Trace, "|") != strings.Join(b.Trace, "|") {
				return st, fmt.Errorf("step %d: host calls differ: used %s, fresh %s", si, clip(fmt.Sprint(a.Trace), 1200), clip(fmt.Sprint(b.Trace), 1200))
			}
			if a.Globals != nil && b.Globals != nil {
				delete(a.Globals, "OPTIMIZE")
				delete(b.Globals, "OPTIMIZE")
				if ga, gb := describeGlobals(a.Globals), describeGlobals(b.Globals); ga != gb {
					return st, fmt.Errorf("step %d: variables after the run differ: used {%s}, fresh {%s}", si, clip(ga, 1200), clip(gb, 1200))
				}
			}
			// hidden state that makes later runs dearer or different
			if a.ScopeDepth != b.ScopeDepth {
				return st, fmt.Errorf("step %d: %d scope(s) open on the used evaluator after the run, %d on a fresh one", si, a.ScopeDepth, b.ScopeDepth)
			}
			if a.StackDepth != b.StackDepth {
				return st, fmt.Errorf("step %d: %d value(s) left on the used evaluator's stack, %d on a fresh one", si, a.StackDepth, b.StackDepth)
			}
			if p := constPool(used); p != pool0 {
				return st, fmt.Errorf("step %d: the constant pool changed during runs: %s -> %s", si, clip(pool0, 600), clip(p, 600))
			}
		}
	}
	return st, nil
}

func init() {
	replayers["C07"] = func(raw []byte) error {
		var c HistCase
		if err := json.Unmarshal(raw, &c); err != nil {
			return err
		}
		for _, o := range c.Objs {
			o.Fix()
		}
		for k, v := range c.Vars {
			v.Fix()
			c.Vars[k] = v
		}
		for i := range c.Steps {
			c.Steps[i].V.Fix()
		}
		_, err := runHistory(&c)
		return err
	}
}

func TestC07(t *testing.T) {
	defer silence()()
	col := evid.New("C07", "histories", "stateful: one prepared evaluator receives a generated history of run(object_i) and SetVariable actions (scripts with user functions, name clashes, ++/--, literals around 65534, early returns from nested loops, run-time errors, panic(), arity mismatches at top level and inside functions); after every run a FRESH evaluator is prepared from the same text, given deep copies of the variables the used one held before the run, and run on the same object: result/error-ness, host calls, variables afterwards, open scopes, residual stack depth and the printed constant pool must agree; non-trivial = a run that ended abnormally (error/panic) is followed by >=1 further run; distinct by script + history")
	replayKnown(t, col, "C07")
	maxSteps := scale(8, 20)
	rapidCheck(t, col, func(rt *rapid.T) {
		pr := gen.Program(rt, gen.ProgOpts{Depth: 3, Block: 3, Funcs: 2, Clash: true, IncDec: true, Ternary: true, Switch: true,
			EarlyRet: true, ErrStmts: true, BigInts: true, NoSqrtFold: true})
		mode := rapid.SampledFrom([]string{"map", "struct", "ptr"}).Draw(rt, "objmode")
		c := &HistCase{Prop: "C07", Kind: "history", Script: lang.ProgramText(pr.P), Vars: map[string]lang.Value{}, NoOpt: rapid.Bool().Draw(rt, "noopt")}
		for _, b := range pr.In.Vars {
			c.Vars[b.Name] = b.V
		}
		c.Objs = append(c.Objs, objSpecOf(pr.In.Fields, mode))
		for i := 0; i < 2; i++ {
			c.Objs = append(c.Objs, objSpecOf(gen.VaryFields(rt, pr.In.Fields), mode))
		}
		n := rapid.IntRange(2, maxSteps).Draw(rt, "nsteps")
		for i := 0; i < n; i++ {
			if gen.Uniform(rt, "addfn", 12) == 0 {
				names := []string{"id", "trace", "id"}
				for _, m := range funcNameRe.FindAllStringSubmatch(c.Script, -1) {
					names = append(names, m[1])
				}
				c.Steps = append(c.Steps, HistStep{Op: "addfn", Name: rapid.SampledFrom(names).Draw(rt, "fnname"), V: lang.Int(int64(100 + i))})
				col.Class("history-with-host-function-registered-between-runs")
				continue
			}
			if gen.Uniform(rt, "stepkind", 5) == 0 {
				name := rapid.SampledFrom([]string{"g0", "g1", "a", "b", "C0", "s0", "x1"}).Draw(rt, "setname")
				c.Steps = append(c.Steps, HistStep{Op: "set", Name: name, V: gen.Scalar(rt, "setval", lang.KInt, lang.KInt, lang.KString, lang.KBool, lang.KFloat)})
			} else {
				c.Steps = append(c.Steps, HistStep{Op: "run", Obj: gen.Uniform(rt, "objidx", 3)})
			}
		}
		st, err := runHistory(c)
		if err != nil {
			c.Msg = err.Error()
			violation(rt, "C07", c, "%v", err)
		}
		col.ClassN("runs", int64(st.runs))
		col.ClassN("abnormal-runs", int64(st.abnormal))
		if st.followUps > 0 {
			col.Class("history-with-run-after-abnormal-run")
		}
		cc := c
		col.Case(c.Script+fmt.Sprint(c.Steps, c.NoOpt), st.followUps > 0, func() interface{} {
			var steps []string
			for _, s := range cc.Steps {
				if s.Op == "run" {
					steps = append(steps, fmt.Sprintf("run(obj%d)", s.Obj))
				} else if s.Op == "addfn" {
					steps = append(steps, fmt.Sprintf("AddFunction(%s)", s.Name))
				} else {
					steps = append(steps, fmt.Sprintf("set(%s=%s)", s.Name, s.V.Describe()))
				}
			}
			return map[string]interface{}{"script": cc.Script, "history": steps, "abnormal_runs": st.abnormal}
		})
	})
}

// ---- fault histories ----

var faultModes = []string{"ok", "ok", "ok", "ok", "panic", "mod0", "div0", "type", "arity", "unknown", "index", "loopret", "deep-panic", "deep-mod0", "void", "panic", "mod0", "loopret", "ok", "ok", "type", "arity", "deep-panic", "runaway", "dive-panic", "dive-ok", "dive-ok"}

const faultScript = `
function helper(a) { return a + 1; }
function nothing() { seen = Name; }
function spin(n) { return spin(n + 1); }
function dive(n, bad) { if ( n <= 0 ) { if ( bad ) { panic("bottom"); } return 0; } return 1 + dive(n - 1, bad); }
function work(v, mode) {
  if ( mode == "runaway" ) { return spin(0); }
  if ( mode == "dive-panic" ) { return dive(Big, true); }
  if ( mode == "dive-ok" ) { return dive(Small, false); }
  local acc;
  acc = 0;
  foreach it in Items { acc = acc + len(string(it)); }
  if ( mode == "panic" ) { panic("boom"); }
  if ( mode == "mod0" ) { return v % Zero; }
  if ( mode == "div0" ) { return v / Zero; }
  if ( mode == "type" ) { return v + "s"; }
  if ( mode == "arity" ) { return helper(); }
  if ( mode == "unknown" ) { return nosuch(v); }
  if ( mode == "index" ) { return Items[0][0][0]; }
  if ( mode == "void" ) { return nothing(); }
  if ( mode == "loopret" ) {
    foreach x in Items { foreach i, y in Items { if ( y == Pick ) { return [x, i, acc]; } } }
  }
  if ( mode == "deep-panic" ) { return outer(v, "panic"); }
  if ( mode == "deep-mod0" ) { return [1, outer(v, "mod0")]; }
  return [v * 2, acc];
}
function outer(v, mode) {
  foreach lv in [1] {
    if ( Depth > 1 ) { return ["o", work(v, mode)]; }
  }
  return work(v, mode);
}
count = count + 1;
r = outer(Value, Mode);
last = Name;
return [r, Name, len(Items), count, Extra, Flag ? "set" : "unset"];
`

func drawFaultObject(rt *rapid.T) *eng.ObjSpec {
	items := lang.Array()
	for i := 0; i < rapid.IntRange(0, 4).Draw(rt, "nitems"); i++ {
		items.A = append(items.A, gen.Scalar(rt, "item", lang.KInt, lang.KString))
	}
	pick := lang.Value(lang.Int(rapid.Int64Range(0, 3).Draw(rt, "pick")))
	if len(items.A) > 0 && rapid.Bool().Draw(rt, "pickpresent") {
		pick = items.A[gen.Uniform(rt, "pickidx", len(items.A))]
	}
	o := &eng.ObjSpec{Mode: "map", Fields: []eng.Field{
		{Name: "Mode", V: lang.Str(rapid.SampledFrom(faultModes).Draw(rt, "mode"))},
		{Name: "Value", V: lang.Int(rapid.Int64Range(-3, 40).Draw(rt, "value"))},
		{Name: "Name", V: lang.Str(rapid.SampledFrom([]string{"ann", "bob", "cy", "", "狐"}).Draw(rt, "name"))},
		{Name: "Items", V: items},
		{Name: "Zero", V: lang.Int(0)},
		{Name: "Pick", V: pick},
		{Name: "Depth", V: lang.Int(rapid.Int64Range(1, 3).Draw(rt, "depth"))},
		{Name: "Extra", V: gen.Scalar(rt, "extra", lang.KInt, lang.KString, lang.KBool)},
		{Name: "Flag", V: lang.Bool(rapid.Bool().Draw(rt, "flag"))},
		{Name: "Big", V: lang.Int(rapid.SampledFrom([]int64{9985, 9990, 9993, 9995, 9996, 9997, 5000, 100}).Draw(rt, "big"))},
		{Name: "Small", V: lang.Int(rapid.Int64Range(0, 60).Draw(rt, "small"))},
	}}
	return o
}

func TestC07Faults(t *testing.T) {
	defer silenceAs("faults")()
	col := evid.New("C07", "faults", "")
	maxSteps := scale(10, 24)
	rapidCheck(t, col, func(rt *rapid.T) {
		c := &HistCase{Prop: "C07", Kind: "history", Script: faultScript, Vars: map[string]lang.Value{"count": lang.Int(0)}, NoOpt: rapid.Bool().Draw(rt, "noopt")}
		c.Shared = rapid.SampledFrom([]string{"", "", "map", "ptr"}).Draw(rt, "shared")
		c.Cancelable = gen.Uniform(rt, "cancelable", 4) == 0
		mode := "map"
		if c.Shared == "" {
			mode = rapid.SampledFrom([]string{"map", "struct", "ptr"}).Draw(rt, "objmode")
		}
		nobj := rapid.IntRange(2, 5).Draw(rt, "nobj")
		for i := 0; i < nobj; i++ {
			o := drawFaultObject(rt)
			o.Mode = mode
			if i > 0 && gen.Uniform(rt, "nilobj", 6) == 0 {
				o = &eng.ObjSpec{Mode: "nil", Fields: []eng.Field{{Name: "Mode", V: lang.Str("nil-object")}}}
			}
			c.Objs = append(c.Objs, o)
		}
		n := rapid.IntRange(2, maxSteps).Draw(rt, "nsteps")
		cancelled := false
		for i := 0; i < n; i++ {
			switch {
			case c.Cancelable && !cancelled && gen.Uniform(rt, "cancelnow", 5) == 0:
				c.Steps = append(c.Steps, HistStep{Op: "cancel"})
				cancelled = true
			case gen.Uniform(rt, "setstep", 8) == 0:
				c.Steps = append(c.Steps, HistStep{Op: "set", Name: rapid.SampledFrom([]string{"count", "last", "seen", "acc", "v"}).Draw(rt, "setname"), V: lang.Int(rapid.Int64Range(0, 99).Draw(rt, "setval"))})
			default:
				c.Steps = append(c.Steps, HistStep{Op: "run", Obj: gen.Uniform(rt, "objidx", nobj)})
			}
		}
		st, err := runHistory(c)
		if err != nil {
			c.Msg = err.Error()
			violation(rt, "C07", c, "%v", err)
		}
		col.ClassN("runs", int64(st.runs))
		col.ClassN("abnormal-runs", int64(st.abnormal))
		col.Class("shared:" + c.Shared)
		if c.Cancelable {
			col.Class("cancelable-context")
		}
		cc := c
		col.Case(fmt.Sprint(c.Objs, c.Steps, c.NoOpt, c.Shared, c.Cancelable), st.followUps > 0, func() interface{} {
			var steps []string
			for _, s := range cc.Steps {
				switch s.Op {
				case "run":
					steps = append(steps, fmt.Sprintf("run(obj%d mode=%s)", s.Obj, cc.Objs[s.Obj].Fields[0].V.S))
				case "set":
					steps = append(steps, fmt.Sprintf("set(%s=%s)", s.Name, s.V.Describe()))
				default:
					steps = append(steps, s.Op)
				}
			}
			return map[string]interface{}{"script": "fault template (see harness/props/c07_test.go faultScript)", "history": steps, "shared_object": cc.Shared, "cancelable": cc.Cancelable}
		})
	})
}

// ---- object conversion faults between runs ----

// ReflectCase: runs on objects whose nested maps fail to convert at some
// depth, then a run on a deeply nested good object.
type ReflectCase struct {
	Prop     string `json:"prop"`
	Kind     string `json:"kind"`
	Script   string `json:"script"`
	BadRuns  int    `json:"bad_runs"`
	BadDepth int    `json:"bad_depth"`
	BadLeaf  string `json:"bad_leaf"`
	Good     int    `json:"good_depth"`
	// Repair: the failing object is one object, handed to every failing run;
	// afterwards the host repairs it in place (the offending leaf is replaced)
	// and hands the very same maps over again.
	Repair bool   `json:"repair,omitempty"`
	Msg    string `json:"message,omitempty"`
}

const reflectScript = `x = Deep; n = 0; while ( type(x) == "hash" ) { x = x["next"]; n = n + 1; } return [n, Name, type(x)];`

func nestedMap(depth int, leaf interface{}) interface{} {
	var cur interface{} = leaf
	for i := 0; i < depth; i++ {
		cur = map[string]interface{}{"next": cur, "level": i}
	}
	return cur
}

func badLeaf(kind string) interface{} {
	switch kind {
	case "too-deep-300", "too-deep-1500":
		// nothing is wrong with this one except its depth: 300 (1500) further
		// maps below the chosen depth; beyond the engine's limit for nested maps
		// the rest is seen as null, which is no error
		n := 300
		if kind == "too-deep-1500" {
			n = 1500
		}
		return nestedMap(n, 1)
	case "map[string]int":
		return map[string]interface{}{"next": map[string]int{"x": 1}}
	case "map[bool]any":
		return map[string]interface{}{"next": map[bool]interface{}{true: 1}}
	case "map[int]any":
		return map[string]interface{}{"next": map[int]interface{}{1: 1}}
	case "chan":
		return map[string]interface{}{"next": make(chan int)}
	}
	return map[string]interface{}{"next": struct{ X int }{1}}
}

func runReflect(c *ReflectCase) error {
	used, err := prepared(c.Script, nil, false)
	if err != nil {
		return fmt.Errorf("Prepare rejected a valid script: %v", err)
	}
	observe := func(r *eng.Runner, obj interface{}) string {
		res := r.Execute(obj)
		if res.Panic != nil {
			return fmt.Sprintf("panic:%v", res.Panic)
		}
		if res.Err != nil {
			return "error"
		}
		return res.Val.Describe()
	}
	bad := func() interface{} {
		return map[string]interface{}{"Name": "bad", "Deep": nestedMap(c.BadDepth, badLeaf(c.BadLeaf))}
	}
	good := func() interface{} {
		return map[string]interface{}{"Name": "good", "Deep": nestedMap(c.Good, 1)}
	}
	if c.Repair {
		one := bad().(map[string]interface{})
		for i := 0; i < c.BadRuns; i++ {
			got := observe(used, one)
			fresh, _ := prepared(c.Script, nil, false)
			if want := observe(fresh, one); got != want {
				return fmt.Errorf("run %d on the object that fails %d maps deep: used evaluator %s, fresh evaluator %s", i, c.BadDepth, clip(got, 300), clip(want, 300))
			}
		}
		// the repair: the innermost "next" (the offending value) becomes a number
		cur := one["Deep"].(map[string]interface{})
		for {
			nx, ok := cur["next"].(map[string]interface{})
			if !ok {
				break
			}
			cur = nx
		}
		cur["next"] = 7
		one["Name"] = "repaired"
		got := observe(used, one)
		fresh, _ := prepared(c.Script, nil, false)
		if want := observe(fresh, one); got != want {
			return fmt.Errorf("after %d failing runs on one object (it fails %d maps deep) the host repaired that object in place: the used evaluator now gives %s, a fresh evaluator %s", c.BadRuns, c.BadDepth, clip(got, 300), clip(want, 300))
		}
	}
	for i := 0; i < c.BadRuns && !c.Repair; i++ {
		got := observe(used, bad())
		fresh, _ := prepared(c.Script, nil, false)
		if want := observe(fresh, bad()); got != want {
			return fmt.Errorf("run %d on the object that fails %d maps deep: used evaluator %s, fresh evaluator %s", i, c.BadDepth, clip(got, 300), clip(want, 300))
		}
	}
	got := observe(used, good())
	fresh, _ := prepared(c.Script, nil, false)
	if want := observe(fresh, good()); got != want {
		return fmt.Errorf("after %d runs on an object that fails %d maps deep, a good object nested %d deep gives %s; a fresh evaluator gives %s", c.BadRuns, c.BadDepth, c.Good, clip(got, 300), clip(want, 300))
	}
	return nil
}

func init() {
	replayers["C04/reflect"] = func(raw []byte) error {
		var c ReflectCase
		if err := json.Unmarshal(raw, &c); err != nil {
			return err
		}
		return runReflect(&c)
	}
	replayers["C08/reflect"] = func(raw []byte) error {
		var c ReflectCase
		if err := json.Unmarshal(raw, &c); err != nil {
			return err
		}
		return runReflect(&c)
	}
	replayers["C07/reflect"] = func(raw []byte) error {
		var c ReflectCase
		if err := json.Unmarshal(raw, &c); err != nil {
			return err
		}
		return runReflect(&c)
	}
}

func TestC07Reflect(t *testing.T) {
	defer silenceAs("reflect")()
	col := evid.New("C07", "reflect", "")
	rapidCheck(t, col, func(rt *rapid.T) {
		c := &ReflectCase{Prop: "C07", Kind: "reflect", Script: reflectScript,
			BadRuns:  rapid.SampledFrom([]int{1, 2, 5, 20}).Draw(rt, "badruns"),
			BadDepth: rapid.SampledFrom([]int{0, 1, 10, 100, 400, 900, 995, 999, 1000}).Draw(rt, "baddepth"),
			BadLeaf:  rapid.SampledFrom([]string{"map[string]int", "map[bool]any", "map[int]any", "chan", "struct", "too-deep-300", "too-deep-1500"}).Draw(rt, "badleaf"),
			Good:     rapid.SampledFrom([]int{0, 3, 50, 600, 950, 990, 996, 997, 998, 999, 1000, 1001, 1002, 1100}).Draw(rt, "good"),
			Repair:   rapid.Bool().Draw(rt, "repair")}
		if err := runReflect(c); err != nil {
			c.Msg = err.Error()
			violation(rt, "C07", c, "%v", err)
		}
		col.Class("bad-leaf:" + c.BadLeaf)
		cc := c
		col.Case(fmt.Sprint(*c), c.BadRuns*c.BadDepth > 0, func() interface{} { return cc })
	})
}

// TestC08Repair: "the evaluator remains usable afterwards" for the maps
// themselves: an object whose conversion failed is repaired in place and
// handed over again (reported under C08; the history is C07Reflect's).
func TestC08Repair(t *testing.T) { repairCheck(t, "C08") }

// TestC04Deep: "each run sees the object passed to that run" for nested maps
// at and beyond the depth the engine follows them to (same histories).
func TestC04Deep(t *testing.T) { repairCheck(t, "C04") }

func repairCheck(t *testing.T, prop string) {
	defer silenceAs("repair")()
	col := evid.New(prop, "repair", "")
	rapidCheck(t, col, func(rt *rapid.T) {
		c := &ReflectCase{Prop: prop, Kind: "reflect", Script: reflectScript,
			BadRuns:  rapid.SampledFrom([]int{1, 2, 5, 20, 200}).Draw(rt, "badruns"),
			BadDepth: rapid.SampledFrom([]int{0, 1, 2, 10, 100, 400, 900}).Draw(rt, "baddepth"),
			BadLeaf:  rapid.SampledFrom([]string{"map[string]int", "map[bool]any", "map[int]any", "chan", "struct", "too-deep-300", "too-deep-1500"}).Draw(rt, "badleaf"),
			Good:     rapid.SampledFrom([]int{0, 3, 50, 600, 950, 990, 996, 997, 998, 999, 1000, 1001, 1002, 1100}).Draw(rt, "good"),
			Repair:   prop == "C08" || rapid.Bool().Draw(rt, "repair")}
		if err := runReflect(c); err != nil {
			c.Msg = err.Error()
			violation(rt, prop, c, "%v", err)
		}
		col.Class("bad-leaf:" + c.BadLeaf)
		cc := c
		col.Case(fmt.Sprint(*c), true, func() interface{} { return cc })
	})
}
