package props

import (
	"encoding/json"
	"fmt"
	"strings"
	"testing"

	"pgregory.net/rapid"

	"verif/harness/eng"
	"verif/harness/evid"
	"verif/harness/gen"
	"verif/harness/lang"
)

// C07 — a prepared script carries no hidden state from one run to the next.

// HistStep is one action of a history.
type HistStep struct {
	Op   string     `json:"op"` // "run" | "set"
	Obj  int        `json:"obj,omitempty"`
	Name string     `json:"name,omitempty"`
	V    lang.Value `json:"v"`
}

// HistCase is a script, its inputs and a sequence of actions on one evaluator.
type HistCase struct {
	Prop   string                `json:"prop"`
	Kind   string                `json:"kind"`
	Script string                `json:"script"`
	NoOpt  bool                  `json:"noopt,omitempty"`
	Vars   map[string]lang.Value `json:"vars,omitempty"`
	Objs   []*eng.ObjSpec        `json:"objs"`
	Steps  []HistStep            `json:"steps"`
	Msg    string                `json:"message,omitempty"`
}

func constPool(r *eng.Runner) string {
	consts, _, _ := r.E.VerifProgram()
	var b strings.Builder
	for _, c := range consts {
		b.WriteString(string(c.Type()) + ":" + c.Inspect() + ";")
	}
	return b.String()
}

type histStats struct {
	runs, abnormal, followUps int
}

// runHistory replays the history on a used evaluator and, for every run,
// on a fresh evaluator holding the same variables.
func runHistory(c *HistCase) (histStats, error) {
	var st histStats
	used, err := prepared(c.Script, c.Vars, c.NoOpt)
	if err != nil {
		return st, nil // rejected script: nothing to compare
	}
	pool0 := constPool(used)
	sawAbnormal := false
	for si, s := range c.Steps {
		switch s.Op {
		case "set":
			used.E.SetVariable(s.Name, eng.ToObject(s.V))
		case "run":
			before, gerr := used.Globals()
			if gerr != nil {
				return st, fmt.Errorf("step %d: %v", si, gerr)
			}
			delete(before, "OPTIMIZE")
			fresh, ferr := prepared(c.Script, before, c.NoOpt)
			if ferr != nil {
				return st, fmt.Errorf("step %d: fresh evaluator rejected the script: %v", si, ferr)
			}
			obj := c.Objs[s.Obj%len(c.Objs)]
			a := used.Execute(obj.Build())
			b := fresh.Execute(obj.Build())
			st.runs++
			if sawAbnormal {
				st.followUps++
			}
			if a.Panic != nil || b.Panic != nil {
				return st, fmt.Errorf("step %d: panic escaped: used=%v fresh=%v", si, a.Panic, b.Panic)
			}
			if isTimeout(a.Err) || isTimeout(b.Err) {
				return st, nil // inconclusive
			}
			if (a.Err == nil) != (b.Err == nil) {
				return st, fmt.Errorf("step %d (run on object %d): used evaluator err=%v value=%s; fresh evaluator with the same variables err=%v value=%s", si, s.Obj, a.Err, a.Val.Describe(), b.Err, b.Val.Describe())
			}
			if a.Err != nil {
				st.abnormal++
				sawAbnormal = true
			} else if !lang.DeepEqual(a.Val, b.Val) || a.Val.Inspect() != b.Val.Inspect() {
				return st, fmt.Errorf("step %d (run on object %d): used evaluator returns %s, fresh evaluator with the same variables returns %s", si, s.Obj, a.Val.Describe(), b.Val.Describe())
			}
			if strings.Join(a.Trace, "|") != strings.Join(b.Trace, "|") {
				return st, fmt.Errorf("step %d: host calls differ: used %s, fresh %s", si, clip(fmt.Sprint(a.Trace), 1200), clip(fmt.Sprint(b.Trace), 1200))
			}
			if a.Globals != nil && b.Globals != nil {
				delete(a.Globals, "OPTIMIZE")
				delete(b.Globals, "OPTIMIZE")
				if ga, gb := describeGlobals(a.Globals), describeGlobals(b.Globals); ga != gb {
					return st, fmt.Errorf("step %d: variables after the run differ: used {%s}, fresh {%s}", si, clip(ga, 1200), clip(gb, 1200))
				}
			}
			// hidden state that makes later runs dearer or different
			if a.ScopeDepth != b.ScopeDepth {
				return st, fmt.Errorf("step %d: %d scope(s) open on the used evaluator after the run, %d on a fresh one", si, a.ScopeDepth, b.ScopeDepth)
			}
			if a.StackDepth != b.StackDepth {
				return st, fmt.Errorf("step %d: %d value(s) left on the used evaluator's stack, %d on a fresh one", si, a.StackDepth, b.StackDepth)
			}
			if p := constPool(used); p != pool0 {
				return st, fmt.Errorf("step %d: the constant pool changed during runs: %s -> %s", si, clip(pool0, 600), clip(p, 600))
			}
		}
	}
	return st, nil
}

func init() {
	replayers["C07"] = func(raw []byte) error {
		var c HistCase
		if err := json.Unmarshal(raw, &c); err != nil {
			return err
		}
		for _, o := range c.Objs {
			o.Fix()
		}
		for k, v := range c.Vars {
			v.Fix()
			c.Vars[k] = v
		}
		for i := range c.Steps {
			c.Steps[i].V.Fix()
		}
		_, err := runHistory(&c)
		return err
	}
}

func TestC07(t *testing.T) {
	defer silence()()
	col := evid.New("C07", "histories", "stateful: one prepared evaluator receives a generated history of run(object_i) and SetVariable actions (scripts with user functions, name clashes, ++/--, literals around 65534, early returns from nested loops, run-time errors, panic(), arity mismatches at top level and inside functions); after every run a FRESH evaluator is prepared from the same text, given deep copies of the variables the used one held before the run, and run on the same object: result/error-ness, host calls, variables afterwards, open scopes, residual stack depth and the printed constant pool must agree; non-trivial = a run that ended abnormally (error/panic) is followed by >=1 further run; distinct by script + history")
	replayKnown(t, col, "C07")
	maxSteps := scale(8, 20)
	rapidCheck(t, col, func(rt *rapid.T) {
		pr := gen.Program(rt, gen.ProgOpts{Depth: 3, Block: 3, Funcs: 2, Clash: true, IncDec: true, Ternary: true, Switch: true,
			EarlyRet: true, ErrStmts: true, BigInts: true, NoSqrtFold: true})
		mode := rapid.SampledFrom([]string{"map", "struct", "ptr"}).Draw(rt, "objmode")
		c := &HistCase{Prop: "C07", Kind: "history", Script: lang.ProgramText(pr.P), Vars: map[string]lang.Value{}, NoOpt: rapid.Bool().Draw(rt, "noopt")}
		for _, b := range pr.In.Vars {
			c.Vars[b.Name] = b.V
		}
		c.Objs = append(c.Objs, objSpecOf(pr.In.Fields, mode))
		for i := 0; i < 2; i++ {
			c.Objs = append(c.Objs, objSpecOf(gen.VaryFields(rt, pr.In.Fields), mode))
		}
		n := rapid.IntRange(2, maxSteps).Draw(rt, "nsteps")
		for i := 0; i < n; i++ {
			if gen.Uniform(rt, "stepkind", 5) == 0 {
				name := rapid.SampledFrom([]string{"g0", "g1", "a", "b", "C0", "s0", "x1"}).Draw(rt, "setname")
				c.Steps = append(c.Steps, HistStep{Op: "set", Name: name, V: gen.Scalar(rt, "setval", lang.KInt, lang.KInt, lang.KString, lang.KBool, lang.KFloat)})
			} else {
				c.Steps = append(c.Steps, HistStep{Op: "run", Obj: gen.Uniform(rt, "objidx", 3)})
			}
		}
		st, err := runHistory(c)
		if err != nil {
			c.Msg = err.Error()
			violation(rt, "C07", c, "%v", err)
		}
		col.ClassN("runs", int64(st.runs))
		col.ClassN("abnormal-runs", int64(st.abnormal))
		if st.followUps > 0 {
			col.Class("history-with-run-after-abnormal-run")
		}
		cc := c
		col.Case(c.Script+fmt.Sprint(c.Steps, c.NoOpt), st.followUps > 0, func() interface{} {
			var steps []string
			for _, s := range cc.Steps {
				if s.Op == "run" {
					steps = append(steps, fmt.Sprintf("run(obj%d)", s.Obj))
				} else {
					steps = append(steps, fmt.Sprintf("set(%s=%s)", s.Name, s.V.Describe()))
				}
			}
			return map[string]interface{}{"script": cc.Script, "history": steps, "abnormal_runs": st.abnormal}
		})
	})
}
