package props

import (
	"bufio"
	"bytes"
	"context"
	"fmt"
	"math"
	"os"
	"os/exec"
	"path/filepath"
	"regexp"
	"sort"
	"strings"
	"syscall"
	"testing"
	"time"

	evalfilter "github.com/skx/evalfilter/v2"
	"pgregory.net/rapid"

	"verif/harness/eng"
	"verif/harness/evid"
	"verif/harness/gen"
	"verif/harness/lang"
)

// C10 — scripts are confined: no file, network or process access.

func marker(s string) {
	_, _ = syscall.Write(2, []byte("C10-"+s+"\n"))
}

var c10Strings = []string{"/etc/passwd", "/tmp/c10-probe-file", "../c10-probe", "127.0.0.1:80", "http://127.0.0.1:9/", "sh -c id", "HOME", "TZ", "%s %d %v", "/dev/tcp/127.0.0.1/80", "file:///etc/hosts", "/proc/self/environ", "Europe/Helsinki", "a", "C10_TOKEN", "C10_TOKEN_FILE", "C10_CMD", "DEBUG"}

func c10Value(kind lang.Kind, i int) lang.Value {
	s := c10Strings[i%len(c10Strings)]
	switch kind {
	case lang.KInt:
		return lang.Int([]int64{0, 1, 1700000000, -5}[i%4])
	case lang.KFloat:
		return lang.Float(1.5)
	case lang.KString:
		return lang.Str(s)
	case lang.KBool:
		return lang.Bool(i%2 == 0)
	case lang.KArray:
		return lang.Array(lang.Str(s), lang.Int(1), lang.Str("/etc/hosts"))
	case lang.KHash:
		return lang.Hash(lang.Pair{K: lang.Str(s), V: lang.Str("/tmp/c10-probe-file")}, lang.Pair{K: lang.Int(1), V: lang.Int(2)})
	case lang.KRegexp:
		return lang.Regexp([]string{"passwd", "^/", "(?i)home", "%"}[i%4])
	}
	return lang.Null()
}

var c10Env = map[string]string{"C10_TOKEN_FILE": "/etc/hostname", "C10_CONFIG": "/etc/passwd", "C10_URL": "http://127.0.0.1:9/", "C10_CMD": "sh -c id",
	"C10_DIR": "/tmp", "C10_ADDR": "127.0.0.1:9", "C10_EMPTY": "", "C10_SECRET_PATH": "/etc/hosts", "c10_lower_file": "/etc/hostname"}

// envNames: every name in the environment plus the names derived from them
// by the usual conventions (suffix added or removed, case changed).
func envNames() []string {
	seen := map[string]bool{}
	var out []string
	add := func(n string) {
		if n != "" && !seen[n] && !strings.ContainsAny(n, "\x00\"\\\n") {
			seen[n] = true
			out = append(out, n)
		}
	}
	sufs := []string{"_FILE", "_PATH", "_DIR", "_URL", "_CMD", "_file", "FILE", "_ADDR"}
	env := os.Environ()
	sort.Strings(env)
	for _, kv := range env {
		n := strings.SplitN(kv, "=", 2)[0]
		add(n)
		for _, sf := range sufs {
			if strings.HasSuffix(n, sf) {
				add(strings.TrimSuffix(n, sf))
			}
			add(n + sf)
		}
		add(strings.ToLower(n))
		add(strings.ToUpper(n))
	}
	return out
}

// TestC10Worker is run under strace by TestC10. Everything between the
// BEGIN and END markers is script execution with only the built-ins.
func TestC10Worker(t *testing.T) {
	if os.Getenv("VERIF_C10_WORKER") == "" {
		t.Skip("worker only")
	}
	// standard output itself goes to /dev/null, so that inside the audited
	// window every write can be attributed by its descriptor: 1 is standard
	// output, 2 carries the markers, anything else is not allowed
	devnull, _ := os.OpenFile(os.DevNull, os.O_WRONLY, 0)
	if err := syscall.Dup3(int(devnull.Fd()), 1, 0); err != nil {
		t.Fatalf("INFRA: dup3: %v", err)
	}
	// the kind of settings a deployment hands over in its environment;
	// reading them is allowed, following them is not
	for k, v := range c10Env {
		os.Setenv(k, v)
	}
	probe := evalfilter.New("return 1;")
	_ = probe.Prepare()
	names := probe.VerifFunctionNames()
	calls := 0
	var keys []string
	envText := func() string {
		e := os.Environ()
		sort.Strings(e)
		return strings.Join(e, "\x00")
	}
	run := func(script string, vars map[string]lang.Value, obj interface{}) {
		envBefore := envText()
		defer func() {
			_ = recover()
			// reading the environment is allowed, changing it is not
			if now := envText(); now != envBefore {
				marker("ENVCHANGED by " + clip(strings.ReplaceAll(script, "\n", " "), 150))
				// put it back: one finding, not a different world for every later script
				for _, kv := range strings.Split(envBefore, "\x00") {
					if i := strings.Index(kv, "="); i > 0 {
						os.Setenv(kv[:i], kv[i+1:])
					}
				}
				for _, kv := range strings.Split(now, "\x00") {
					if i := strings.Index(kv, "="); i > 0 && !strings.Contains("\x00"+envBefore, "\x00"+kv[:i+1]) {
						os.Unsetenv(kv[:i])
					}
				}
			}
		}()
		key := script
		for _, k := range sortedKeys(vars) {
			key += "|" + k + "=" + vars[k].Type()
		}
		keys = append(keys, key)
		e := evalfilter.New(script)
		for k, v := range vars {
			e.SetVariable(k, eng.ToObject(v))
		}
		// generated programs may be slow (doubling strings in recursion): the
		// audit is about system calls, two seconds of any script are enough
		ctx, cancel := context.WithTimeout(context.Background(), 2*time.Second)
		defer cancel()
		e.SetContext(ctx)
		if e.Prepare() != nil {
			return
		}
		_, _ = e.Execute(obj)
		_, _ = e.Run(obj)
		calls++
	}
	kinds := lang.AllKinds
	marker("BEGIN builtins")
	for _, fn := range names {
		if fn == "panic" {
			// panic() only raises an error; still exercised below
		}
		marker("CALL " + fn)
		n := 0
		for arity := 0; arity <= 3; arity++ {
			total := 1
			for i := 0; i < arity; i++ {
				total *= len(kinds)
			}
			for tup := 0; tup < total; tup++ {
				vars := map[string]lang.Value{}
				var args []string
				x := tup
				for a := 0; a < arity; a++ {
					k := kinds[x%len(kinds)]
					x /= len(kinds)
					name := fmt.Sprintf("a%d", a)
					vars[name] = c10Value(k, n+a)
					args = append(args, name)
				}
				n++
				for _, tz := range []string{""} {
					_ = tz
				}
				run("return "+fn+"("+strings.Join(args, ", ")+");", vars, map[string]interface{}{"Name": "/etc/passwd"})
			}
		}
	}
	marker("END builtins")
	// arguments at and beyond the sizes where 16-bit quantities wrap: arrays,
	// strings and hashes of 65535-70000 entries, numbers at the ends of their
	// types (whatever a function does only for large inputs happens here)
	marker("BEGIN large")
	{
		bigArr := make([]interface{}, 70000)
		bigInts := make([]int, 65537)
		for i := range bigArr {
			bigArr[i] = fmt.Sprintf("/tmp/c10-probe-file-%d", 70000-i)
		}
		for i := range bigInts {
			bigInts[i] = 65537 - i
		}
		bigMap := map[string]interface{}{}
		for i := 0; i < 66000; i++ {
			bigMap[fmt.Sprintf("k%d", i)] = i
		}
		all := map[string]interface{}{"BigArr": bigArr, "BigInts": bigInts, "BigStr": strings.Repeat("/etc/passwd ", 6000), "BigMap": bigMap,
			"MaxInt": int64(math.MaxInt64), "MinInt": int64(math.MinInt64), "Huge": 1e308, "Tiny": 5e-324}
		// only the fields a call names travel with it (every run converts its whole object)
		only := func(names ...string) map[string]interface{} {
			o := map[string]interface{}{}
			for _, n := range names {
				if v, ok := all[n]; ok {
					o[n] = v
				}
			}
			return o
		}
		bigArgs := []string{"BigArr", "BigInts", "BigStr", "BigMap", "MaxInt", "1..65536"}
		for _, fn := range names {
			if fn == "print" || fn == "printf" {
				continue // megabytes to /dev/null, thousands of write calls to attribute: covered with small arguments
			}
			marker("CALL large " + fn)
			for _, a := range bigArgs {
				run("return type("+fn+"("+a+"));", nil, only(a))
			}
			for _, a := range []string{"BigArr", "BigStr"} {
				for _, b := range []string{"true", "\"/\""} {
					run("return type("+fn+"("+a+", "+b+"));", nil, only(a, b))
				}
			}
			run("return type("+fn+"(BigStr, /passwd/, \"/tmp/c10-probe-file\"));", nil, only("BigStr"))
			run("return type("+fn+"(MaxInt, MinInt, Huge));", nil, only("MaxInt", "MinInt", "Huge"))
		}
	}
	marker("END large")
	// host objects of every kind, including the kinds the engine cannot
	// represent: what it has to say about them is no reason to leave
	// standard output
	marker("BEGIN objects")
	{
		var objs []interface{}
		odd := oddHostObjects()
		oddNames := make([]string, 0, len(odd))
		for n := range odd {
			oddNames = append(oddNames, n)
		}
		sort.Strings(oddNames)
		for _, n := range oddNames {
			objs = append(objs, odd[n])
		}
		oddNames = oddNames[:0]
		for n := range oddObjects {
			if n != "deep-map" {
				oddNames = append(oddNames, n)
			}
		}
		sort.Strings(oddNames)
		for _, n := range oddNames {
			objs = append(objs, oddObjects[n]())
		}
		kindsOf := append(append(append([]string{}, eng.SupportedKinds...), eng.UnsupportedKinds...), eng.LossyKinds...)
		for _, mode := range []string{"struct", "ptr", "map"} {
			for i, k := range kindsOf {
				var v lang.Value
				switch eng.ValueKindFor(k) {
				case lang.KInt:
					v = lang.Int(int64(i) - 3)
				case lang.KFloat:
					v = lang.Float(1.5)
				case lang.KString:
					v = lang.Str("/etc/passwd")
				case lang.KBool:
					v = lang.Bool(true)
				case lang.KArray:
					v = lang.Array()
					if i%2 == 0 {
						switch k {
						case "[]string", "[]interface":
							v = lang.Array(lang.Str("/etc/hosts"))
						case "[]bool":
							v = lang.Array(lang.Bool(true))
						case "[]float32", "[]float64":
							v = lang.Array(lang.Float(2.5))
						default:
							v = lang.Array(lang.Int(7))
						}
					}
				case lang.KHash:
					v = lang.Hash(lang.Pair{K: lang.Str("/tmp/c10-probe-file"), V: lang.Int(1)})
				}
				spec := &eng.GoObjSpec{Mode: mode, Fields: []eng.GoField{{Name: "Name", Kind: "string", V: lang.Str("/etc/passwd")}, {Name: "Odd", Kind: k, V: v}}}
				if o, err := spec.Build(); err == nil {
					objs = append(objs, o)
				}
			}
		}
		self := map[string]interface{}{"Name": "/etc/passwd"}
		self["Odd"] = self
		objs = append(objs, self)
		for i, o := range objs {
			if i%20 == 0 {
				marker(fmt.Sprintf("CALL objects %d", i))
			}
			for _, script := range []string{"return Name;", "return Odd;", "return type(Odd) + string(Odd);", "foreach v in Odd { print(v); } return len(Odd);", "return Missing;", "return 1;"} {
				run(script, nil, o)
			}
		}
	}
	marker("END objects")
	// containers of every make (keys of different types that print alike,
	// repeated keys, NaN and zero twins, nesting) printed, listed, walked,
	// sorted and compared: orderings and tie-breaks have nothing to say on
	// standard error
	marker("BEGIN containers")
	{
		seedc := 1
		fmt.Sscanf(os.Getenv("VERIF_SEED"), "%d", &seedc)
		hashes := rapid.Custom(func(rt *rapid.T) string { return drawHashLiteral(rt, 2, "Name") })
		for i := 0; i < 300; i++ {
			if i%50 == 0 {
				marker(fmt.Sprintf("CALL containers %d", i))
			}
			h := hashes.Example(seedc*7919 + i)
			run("h = "+h+";\ns = string(h); k = keys(h); n = 0;\nforeach a, b in h { n = n + len(string(a)) + len(string(b)); }\nprint(h, k, sort(k), reverse(k, true));\nreturn [len(h), h == h, k[0] in k, sprintf(\"%v\", h), n];", nil, map[string]interface{}{"Name": "1"})
		}
	}
	marker("END containers")
	// operations at a call depth close to the limit: whatever the engine does
	// only when memory or the stack run short happens here
	marker("BEGIN depths")
	for i, body := range []string{"len(1..10000)", "len(sort(1..2000))", "len(split(BigStr, \" \"))", "len([1, 2, [3, 4], {\"a\": 1}])", "len(sprintf(\"%s %d\", BigStr, 5))",
		"len(BigStr + BigStr)", "len(keys({\"a\": 1, \"b\": 2}))", "len(reverse(1..2000))", "len(join(1..2000, \"/\"))", "len(upper(BigStr))", "BigStr ~= /passwd/", "hour(1700000000)", "len(getenv(\"HOME\"))"} {
		marker(fmt.Sprintf("CALL depths %d", i))
		for _, depth := range []int{100, 5000, 9990, 10100} {
			run(fmt.Sprintf("function at(n) { if ( n <= 0 ) { return %s; } return at(n - 1); }\nreturn at(%d);", body, depth), nil, map[string]interface{}{"BigStr": strings.Repeat("/etc/passwd ", 300)})
		}
	}
	marker("END depths")
	// standard output that does not take what is written to it (a full disk
	// behind a redirection): printing fails, it does not look for another
	// place - neither then nor once output works again
	full, fullErr := os.OpenFile("/dev/full", os.O_WRONLY, 0) // opened outside the audited window
	marker("BEGIN outputfails")
	if fullErr == nil {
		printing := []string{`print("x", Name, "\n"); return 1;`, `printf("%s %d\n", Name, 3); return 1;`, `foreach k, v in {"a": 1} { print(k, v); } return Name;`,
			`print(); printf(""); print([1, 2], {"a": 1}, 1.5, true); return 1;`, `function f(a) { print(a); return a; } return f(1) + f(2);`, `print(Name); return 7 % 0;`}
		for round := 0; round < 2; round++ {
			if err := syscall.Dup3(int(full.Fd()), 1, 0); err == nil {
				marker("CALL outputfails failing")
				for _, sc := range printing {
					for _, dbg := range []map[string]lang.Value{nil, {"DEBUG": lang.Bool(true)}} {
						run(sc, dbg, map[string]interface{}{"Name": "/etc/passwd", "Odd": uint8(1)})
					}
				}
			}
			_ = syscall.Dup3(int(devnull.Fd()), 1, 0)
			marker("CALL outputfails restored")
			for _, sc := range printing {
				for _, dbg := range []map[string]lang.Value{nil, {"DEBUG": lang.Bool(true)}} {
					run(sc, dbg, map[string]interface{}{"Name": "/etc/passwd", "Odd": uint8(1)})
				}
			}
		}
	}
	marker("END outputfails")
	if fullErr == nil {
		full.Close()
	}
	// the time functions under several zones
	marker("BEGIN zones")
	for _, tz := range []string{"UTC", "Europe/Helsinki", "America/New_York", "Asia/Kolkata", "Nowhere/Invalid", "/etc/passwd", "../../etc/passwd", ""} {
		os.Setenv("TZ", tz)
		// where the zone database is said to be: set, moved, taken away again
		switch len(tz) % 4 {
		case 0:
			os.Setenv("ZONEINFO", "/usr/share/zoneinfo")
		case 1:
			os.Setenv("ZONEINFO", "/nonexistent/zoneinfo")
		default:
			os.Unsetenv("ZONEINFO")
		}
		marker("CALL zone " + tz)
		for _, fn := range []string{"hour", "minute", "seconds", "day", "month", "year", "weekday", "now", "time"} {
			run("return "+fn+"(1700000000);", nil, nil)
			run("return "+fn+"();", nil, nil)
			run("return "+fn+"(When);", nil, map[string]interface{}{"When": 1600000000})
		}
	}
	os.Unsetenv("ZONEINFO")
	for _, tz := range []string{"Asia/Kolkata", "Europe/Helsinki"} {
		os.Setenv("TZ", tz)
		marker("CALL zone after ZONEINFO " + tz)
		run("return [hour(1700000000), weekday(0), now() > 0];", nil, nil)
		run("return hour(When);", nil, map[string]interface{}{"When": 1600000000})
	}
	os.Unsetenv("TZ")
	marker("END zones")
	// the environment: every name present and every name the usual
	// conventions derive from one (NAME_FILE -> NAME, NAME -> NAME_PATH, ...)
	marker("BEGIN environment")
	for i, n := range envNames() {
		if i%50 == 0 {
			marker(fmt.Sprintf("CALL getenv %d", i))
		}
		run("return getenv(\""+n+"\");", nil, nil)
		run("x = getenv(N); return len(x) + len(getenv(N + \"_FILE\"));", map[string]lang.Value{"N": lang.Str(n)}, nil)
	}
	// names dressed up the way shells and templates dress them
	for i, n := range []string{"C10_UNSET", "C10_EMPTY", "TZ", "HOME", "C10_TOKEN", "ZONEINFO"} {
		marker(fmt.Sprintf("CALL getenv dressed %d", i))
		for _, form := range []string{"%s:-/tmp/c10-probe-file", "%s:=/tmp/c10-probe-file", "%s=/tmp/c10-probe-file", "${%s}", "$%s", "%s:+x", "%s:?x", "%s;id", "%s\n", " %s ", "%s:=Asia/Tokyo"} {
			run("return [getenv(\""+fmt.Sprintf(form, n)+"\"), hour(1700000000)];", nil, nil)
		}
	}
	marker("END environment")
	// the variables the library itself gives a meaning to
	marker("BEGIN switches")
	for i, script := range []string{"return 1 + 2 * 3;", "function f(a) { local b; b = a * 2; return b; } x = f(3); print(x); return x > 1;", "foreach k, v in {\"a\": 1} { printf(\"%s\", k); } return Name ~= /pass/;",
		"if ( 1 + 1 == 2 ) { return sprintf(\"%d\", 3); } return false;", "return 7 % 0;"} {
		marker(fmt.Sprintf("CALL switches %d", i))
		for _, dbg := range []lang.Value{lang.Bool(true), lang.Bool(false), lang.Str("/tmp/c10-probe-file"), lang.Int(1)} {
			for _, opt := range []lang.Value{lang.Bool(true), lang.Bool(false), lang.Str("/tmp/c10-probe-file")} {
				run(script, map[string]lang.Value{"DEBUG": dbg, "OPTIMIZE": opt}, map[string]interface{}{"Name": "/etc/passwd"})
			}
		}
	}
	// ... and the names its run time reads from the environment, as variables
	for i, name := range []string{"TZ", "HOME", "PATH", "GODEBUG", "TMPDIR", "ZONEINFO"} {
		marker(fmt.Sprintf("CALL switches env-named %d", i))
		for _, val := range []string{"/tmp/c10-probe-file", "/etc/hostname", "Europe/Helsinki", ":/etc/localtime"} {
			body := "return [hour(1700000000), weekday(1700000000), len(getenv(\"" + name + "\")), year(now())];"
			run(name+" = \""+val+"\";\n"+body, nil, nil)
			run(body, map[string]lang.Value{name: lang.Str(val)}, nil)
			run("foreach "+name+" in [\""+val+"\"] { x = hour(0); }\n"+body, nil, map[string]interface{}{name: val})
		}
	}
	marker("END switches")
	// run-time faults, including Go run-time panics that Execute recovers
	marker("BEGIN faults")
	for i, script := range faultScripts {
		marker(fmt.Sprintf("CALL fault %d", i))
		run(script, nil, map[string]interface{}{"Name": "/etc/passwd"})
		run(script, nil, nil)
	}
	marker("END faults")
	// generated programs, with printing and environment access mixed in
	marker("BEGIN programs")
	nprog := 400
	fmt.Sscanf(os.Getenv("VERIF_C10_PROGRAMS"), "%d", &nprog)
	extra := []string{`print("x", Name, "\n");`, `printf("%s %d\n", getenv("HOME"), len(getenv("PATH")));`, `e = getenv("/etc/passwd"); f = getenv(Name);`,
		`t = now(); u = time(); h = hour(t) + minute(u);`, `s = sprintf("%v %v", Name, [1, 2]); w = weekday(now());`, `r = replace(Name, /\//, ":"); q = split(Name, "/");`,
		`if ( Name ~= /passwd/ ) { print(Name); }`, `m = match(Name, "/etc/.*");`}
	seed := 1
	fmt.Sscanf(os.Getenv("VERIF_SEED"), "%d", &seed)
	progs := rapid.Custom(func(rt *rapid.T) string {
		pr := gen.Program(rt, gen.ProgOpts{Depth: 3, Block: 3, Funcs: 2, Ternary: true, Switch: true, EarlyRet: true, IncDec: true, ErrStmts: true})
		pre := ""
		for _, v := range pr.In.Vars {
			if gen.LiteralOK(v.V) {
				pre += v.Name + " = " + lang.ExprText(lang.ValueExpr(v.V)) + ";\n"
			}
		}
		return extra[gen.Uniform(rt, "extra", len(extra))] + "\n" + pre + lang.ProgramText(stripHostCalls(pr.P))
	})
	for i := 0; i < nprog; i++ {
		if i%50 == 0 {
			marker(fmt.Sprintf("CALL programs %d", i))
		}
		run(progs.Example(seed*100003+i), nil, map[string]interface{}{"Name": "/etc/passwd", "A0": []interface{}{"/tmp/c10-probe-file", 1}, "C0": "sh -c id", "H0": map[string]interface{}{"a": "/etc/hosts"}})
	}
	marker("END programs")
	marker(fmt.Sprintf("DONE calls=%d functions=%d", calls, len(names)))
	// after the audited window: tell the parent what was executed
	if f := os.Getenv("VERIF_C10_KEYS"); f != "" {
		_ = os.WriteFile(f, []byte(strings.Join(keys, "\x00")), 0o644)
	}
}

var (
	lineRe     = regexp.MustCompile(`^(\d+)\s+([a-z_0-9]+)\((.*)$`)
	resumedRe  = regexp.MustCompile(`^(\d+)\s+<\.\.\. ([a-z_0-9]+) resumed>(.*)$`)
	tzAllow    = []string{"/usr/share/zoneinfo", "/usr/lib/go", "/usr/share/lib/zoneinfo", "/usr/lib/locale/TZ", "/etc/localtime", "/etc/zoneinfo", "/usr/local/go/lib/time"}
	forbidFile = map[string]bool{"unlink": true, "unlinkat": true, "rename": true, "renameat": true, "renameat2": true, "mkdir": true, "mkdirat": true, "rmdir": true,
		"chmod": true, "fchmodat": true, "fchmodat2": true, "truncate": true, "link": true, "linkat": true, "symlink": true, "symlinkat": true, "mknod": true, "mknodat": true,
		"chown": true, "lchown": true, "fchownat": true, "utime": true, "utimes": true, "utimensat": true, "futimesat": true, "creat": true, "setxattr": true, "removexattr": true, "mount": true, "chroot": true, "chdir": true}
	forbidNet  = map[string]bool{"socket": true, "connect": true, "bind": true, "listen": true, "accept": true, "accept4": true, "sendto": true, "sendmsg": true, "sendmmsg": true, "recvfrom": true, "recvmsg": true, "socketpair": true, "getsockopt": true, "setsockopt": true}
	forbidProc = map[string]bool{"execve": true, "execveat": true, "fork": true, "vfork": true}
)

// auditLog checks the strace log between the BEGIN/END markers.
func auditLog(log string, zoneinfo string) (violations []string, inside int, markers []string) {
	in := false
	last := ""
	sc := bufio.NewScanner(strings.NewReader(log))
	sc.Buffer(make([]byte, 1<<20), 1<<24)
	for sc.Scan() {
		line := sc.Text()
		name, args := "", ""
		if m := lineRe.FindStringSubmatch(line); m != nil {
			name, args = m[2], m[3]
		} else if m := resumedRe.FindStringSubmatch(line); m != nil {
			continue // the call was examined when it started
		} else {
			continue
		}
		if name == "write" && strings.HasPrefix(args, "2") && strings.Contains(args, `"C10-`) {
			switch {
			case strings.Contains(args, `"C10-BEGIN`):
				in = true
			case strings.Contains(args, `"C10-END`):
				in = false
			}
			if i := strings.Index(args, `"C10-`); i >= 0 {
				last = strings.TrimSuffix(strings.SplitN(args[i+1:], `\n`, 2)[0], `"`)
				markers = append(markers, last)
				if strings.HasPrefix(last, "C10-ENVCHANGED") {
					violations = append(violations, "changes the environment of the process: "+last)
				}
			}
			continue
		}
		if !in {
			continue
		}
		inside++
		bad := ""
		switch {
		case name == "write" || name == "pwrite64" || name == "writev":
			// fd 1 is standard output; the Go run time's own wake-ups go to an
			// eventfd/pipe it created; everything else is some other channel
			fd := args
			if i := strings.IndexAny(fd, ",<"); i >= 0 {
				fd = fd[:i]
			}
			switch {
			case fd == "1":
			case strings.Contains(strings.SplitN(args, ",", 2)[0], "anon_inode:"):
			case fd == "2":
				bad = "writes to standard error"
			default:
				bad = "writes to a descriptor other than standard output"
			}
		case name == "open" || name == "openat" || name == "openat2":
			path := ""
			if i := strings.Index(args, `"`); i >= 0 {
				if j := strings.Index(args[i+1:], `"`); j >= 0 {
					path = args[i+1 : i+1+j]
				}
			}
			if strings.Contains(args, "O_WRONLY") || strings.Contains(args, "O_RDWR") || strings.Contains(args, "O_CREAT") || strings.Contains(args, "O_TRUNC") || strings.Contains(args, "O_APPEND") {
				bad = "opens a file for writing"
			} else {
				ok := false
				for _, p := range tzAllow {
					if strings.HasPrefix(path, p) {
						ok = true
					}
				}
				if zoneinfo != "" && strings.HasPrefix(path, zoneinfo) {
					ok = true
				}
				if !ok {
					bad = "opens a file outside the time-zone database"
				}
			}
		case forbidFile[name]:
			bad = "changes the file system"
		case forbidNet[name]:
			bad = "touches the network"
		case forbidProc[name]:
			bad = "starts a process"
		case name == "clone" || name == "clone3":
			if !strings.Contains(args, "CLONE_THREAD") {
				bad = "starts a process"
			}
		}
		if bad != "" {
			violations = append(violations, fmt.Sprintf("%s (after marker %q): %s", bad, last, clip(line, 300)))
		}
	}
	return
}

// faultScripts end in a run-time fault, some of them in a Go run-time panic
// that Execute recovers (also used by the CLI part of C20).
var faultScripts = []string{"return 7 % 0;", "a = 7; b = len(\"\"); return a % b;", "return 1.5 % 0.2;", "return 1 / 0;", "function f(n) { return n % (n - n); } return f(3);",
	"foreach x in [3, 2, 1, 0] { y = 6 % x; } return y;", "return [1, 2][9].x;", "return nosuch(1);", "panic(\"/etc/passwd\");", "panic();", "return \"a\" + 1;",
	"function r(n) { return r(n + 1); } return r(0);", "x = f(); return x;", "return {[1]: 2};", "return 1 .. \"a\";", "foreach x in 5 { }", "return Name[0][0][0][0];",
	"return sort(5) % 0;", "return -(\"a\");", "return √\"a\";", "return len(); ", "return 9223372036854775807 % -1;", "return (0 - 9223372036854775807 - 1) / -1;"}

// c10Keys: the script executions of the last traced worker.
var c10Keys []string

// StraceCase names the worker phase for a replay.
type StraceCase struct {
	Prop  string   `json:"prop"`
	Kind  string   `json:"kind"`
	Lines []string `json:"violating_syscalls"`
	Msg   string   `json:"message,omitempty"`
}

func straceWorker(outdir string) (string, error) {
	if _, err := exec.LookPath("strace"); err != nil {
		return "", fmt.Errorf("INFRA: strace is not installed")
	}
	logf := filepath.Join(outdir, fmt.Sprintf("c10.strace.%s.log", shard()))
	cmd := exec.Command("strace", "-f", "-qq", "-y", "-s", "200", "-e", "trace=%file,%network,%process,write,pwrite64,writev", "-o", logf,
		os.Args[0], "-test.run", "^TestC10Worker$", "-test.timeout", "900s")
	// asyncpreemptoff: the Go run time interrupts long computations with a
	// signal every 10 ms; under ptrace each of them costs a stop, and a sort of
	// 70000 elements drowns in them
	cmd.Env = append(os.Environ(), "VERIF_C10_WORKER=1", "VERIF_C10_KEYS="+logf+".keys", "GODEBUG=asyncpreemptoff=1")
	var buf bytes.Buffer
	cmd.Stdout, cmd.Stderr = &buf, &buf
	if err := cmd.Run(); err != nil {
		return "", fmt.Errorf("INFRA: the traced worker failed: %v\n%s", err, clip(buf.String(), 1500))
	}
	b, err := os.ReadFile(logf)
	if err != nil {
		return "", fmt.Errorf("INFRA: no strace log: %v", err)
	}
	_ = os.Remove(logf)
	if kb, err := os.ReadFile(logf + ".keys"); err == nil {
		c10Keys = strings.Split(string(kb), "\x00")
		_ = os.Remove(logf + ".keys")
	}
	return string(b), nil
}

func runStrace() (*StraceCase, int, []string, error) {
	outdir := os.Getenv("VERIF_OUT")
	if outdir == "" {
		outdir = os.TempDir()
	}
	log, err := straceWorker(outdir)
	if err != nil {
		return nil, 0, nil, err
	}
	viol, inside, markers := auditLog(log, os.Getenv("ZONEINFO"))
	done := false
	for _, m := range markers {
		if strings.HasPrefix(m, "C10-DONE") {
			done = true
		}
	}
	if !done {
		return nil, 0, nil, fmt.Errorf("INFRA: the traced worker did not reach its end marker (markers: %v)", markers)
	}
	c := &StraceCase{Prop: "C10", Kind: "strace", Lines: viol}
	return c, inside, markers, nil
}

func init() {
	replayers["C10"] = func(raw []byte) error {
		c, _, _, err := runStrace()
		if err != nil {
			return nil // infrastructure trouble is not a verdict
		}
		if len(c.Lines) > 0 {
			return fmt.Errorf("%d forbidden system call(s), first: %s", len(c.Lines), c.Lines[0])
		}
		return nil
	}
}

func TestC10(t *testing.T) {
	defer silenceAs("strace")()
	col := evid.New("C10", "strace", "a worker process traced with 'strace -f' executes, between BEGIN/END markers, (1) EVERY function registered in the environment (names read through the hook, so a newly registered built-in is covered automatically) with EVERY tuple of argument types up to arity 3 (8+64+512 tuples per function) and values biased to paths, URLs, host:port pairs, commands and environment names, through Execute and Run; (2) the time functions under 8 TZ settings (valid, invalid, path-like, empty); (3) generated programs mixed with print/printf/getenv/now/sprintf/replace/split/match statements; oracle over the syscall log: no open/openat/creat with a write or create flag, no read-only open outside the time-zone database, no unlink/rename/mkdir/rmdir/chmod/truncate/link/chown/utime, no socket/connect/bind/send/recv, no execve/fork/vfork and no clone without CLONE_THREAD; (4) getenv of every name in the environment and of every name derived from one by the usual conventions (NAME_FILE -> NAME, NAME -> NAME_PATH, case changes), with path-, URL- and command-valued variables planted; (5) scripts run with the DEBUG and OPTIMIZE variables set to booleans and to path-like strings; (6) host objects of every supported, unsupported and lossy field kind (struct, pointer, map), non-struct, nil, cyclic and otherwise odd objects; (7) ranges, sorts, splits, formats, concatenations, matches and environment reads made at call depths 100, 5000, 9990 and beyond the limit; (8) 300 generated hash literals (print-alike keys of different types, repeated keys, NaN and zero twins, nesting) printed, listed, walked, sorted and compared; (9) printing while standard output refuses every write (/dev/full behind descriptor 1) and after it works again, with and without DEBUG; inside the window every write must go to descriptor 1 (standard output is /dev/null in the worker), anything written elsewhere (standard error included) is a violation; clock/environment access is allowed; non-trivial = every call (each reached a built-in or ran a program); distinct by (function, argument-type tuple) and program")
	defer col.Flush()
	replayKnown(t, col, "C10")
	c, inside, markers, err := runStrace()
	if err != nil {
		t.Fatalf("%v", err)
	}
	if len(c.Lines) > 0 {
		c.Msg = fmt.Sprintf("%d forbidden system call(s) while only built-ins were registered; first: %s", len(c.Lines), c.Lines[0])
		if len(c.Lines) > 20 {
			c.Lines = c.Lines[:20]
		}
		violation(t, "C10", c, "%s", c.Msg)
	}
	// account for what the worker did
	calls, fns := 0, 0
	for _, m := range markers {
		if strings.HasPrefix(m, "C10-DONE") {
			fmt.Sscanf(m, "C10-DONE calls=%d functions=%d", &calls, &fns)
		}
	}
	for _, k := range c10Keys {
		kk := k
		col.Case(kk, true, func() interface{} { return map[string]string{"executed_under_strace": clip(kk, 400)} })
	}
	col.ClassN("script-executions-traced", int64(calls))
	col.ClassN("functions-in-environment", int64(fns))
	col.ClassN("syscalls-audited-between-markers", int64(inside))
	col.Set("script_executions_traced", calls)
	col.Set("functions_in_environment", fns)
	col.Set("syscalls_audited", inside)
}
