package props

import (
	"bytes"
	"encoding/json"
	"fmt"
	"os"
	"os/exec"
	"path/filepath"
	"strings"
	"testing"

	"pgregory.net/rapid"

	"verif/harness/eng"
	"verif/harness/evid"
	"verif/harness/gen"
	"verif/harness/lang"
)

// C19 — preparing and running a script is deterministic.

// DetCase is a script with an object; everything observable must repeat.
type DetCase struct {
	Prop   string                `json:"prop"`
	Kind   string                `json:"kind"`
	Script string                `json:"script"`
	Obj    *eng.ObjSpec          `json:"obj,omitempty"`
	Vars   map[string]lang.Value `json:"vars,omitempty"`
	// ShareMap: the map field M is also reachable as M2 and twice inside Inner
	// (one Go map under several keys, as hosts build them; no decoder would).
	ShareMap bool   `json:"share_map,omitempty"`
	Msg      string `json:"message,omitempty"`
}

// observe prepares the script once and runs it three times; the returned
// string holds everything that must be reproducible.
func observe(c *DetCase, noOpt bool) (string, error) {
	r, err := preparedShort(c.Script, c.Vars, noOpt)
	if err != nil {
		return "rejected", nil
	}
	var b strings.Builder
	first := programDigest(r)
	b.WriteString("program:" + first + "\n")
	// "across repeated Prepare calls": asking the same evaluator again, before
	// it ran, gives the same program
	for k := 0; k < 2; k++ {
		if perr, pan := r.Prepare(noOpt); perr != nil || pan != nil {
			return "", fmt.Errorf("Prepare call %d on the same evaluator failed: %v %v", k+2, perr, pan)
		}
		if again := programDigest(r); again != first {
			return "", fmt.Errorf("Prepare call %d on the same evaluator compiled a different program (noOptimize=%v): %s", k+2, noOpt, firstDiff(first, again))
		}
	}
	for i := 0; i < 3; i++ {
		var obj interface{}
		if c.Obj != nil {
			obj = c.Obj.Build()
		}
		if mo, ok := obj.(map[string]interface{}); ok && c.ShareMap {
			if mm, ok := mo["M"].(map[string]interface{}); ok {
				mo["M2"] = mm
				mo["Inner"] = map[string]interface{}{"x": mm, "y": mm, "z": 1}
			}
		}
		res := r.Execute(obj)
		if res.Panic != nil {
			return "", fmt.Errorf("panic: %v", res.Panic)
		}
		if isTimeout(res.Err) {
			return "timeout", nil
		}
		if res.Err != nil {
			b.WriteString(fmt.Sprintf("run%d: error\n", i))
		} else {
			b.WriteString(fmt.Sprintf("run%d: %s\n", i, res.Val.Describe()))
		}
		b.WriteString("trace:" + strings.Join(res.Trace, "|") + "\n")
		if res.Globals != nil {
			b.WriteString("globals:" + describeGlobals(res.Globals) + "\n")
		}
	}
	return b.String(), nil
}

func firstDiff(a, b string) string {
	la, lb := strings.Split(a, "\n"), strings.Split(b, "\n")
	for i := 0; i < len(la) && i < len(lb); i++ {
		if la[i] != lb[i] {
			return fmt.Sprintf("%s  VERSUS  %s", clip(la[i], 500), clip(lb[i], 500))
		}
	}
	return "different lengths"
}

func runDet(c *DetCase, reps int) error {
	for _, noOpt := range []bool{false, true} {
		first, err := observe(c, noOpt)
		if err != nil {
			return err
		}
		if first == "timeout" {
			return nil
		}
		for i := 1; i < reps; i++ {
			again, err := observe(c, noOpt)
			if err != nil {
				return err
			}
			if again == "timeout" {
				return nil
			}
			if again != first {
				return fmt.Errorf("preparation %d differs from the first (noOptimize=%v): %s", i, noOpt, firstDiff(first, again))
			}
		}
	}
	return nil
}

func init() {
	replayers["C19"] = func(raw []byte) error {
		var c DetCase
		if err := json.Unmarshal(raw, &c); err != nil {
			return err
		}
		c.Obj.Fix()
		for k, v := range c.Vars {
			v.Fix()
			c.Vars[k] = v
		}
		return runDet(&c, 40)
	}
}

// drawHashLiteral draws a hash literal text (possibly with keys that print
// alike, duplicate keys, and expression keys).
func drawHashLiteral(rt *rapid.T, depth int, extraKeys ...string) string {
	n := rapid.IntRange(2, 8).Draw(rt, "npairs")
	keys := []string{`"a"`, `"b"`, `"c"`, `1`, `"1"`, `1.0`, `2`, `"2"`, `2.5`, `"2.5"`, `(-1)`, `"-1"`, `"a" + "b"`, `1 + 1`, `"k" + string(1)`, `"Name"`, `10`, `"10"`, `9`, `"a\nb"`, `"a\\nb"`, `"t\tx"`, `"t\\tx"`, `((0 - 1.0) ** 0.5)`, `(- ((0 - 1.0) ** 0.5))`, `(0.0 - 0.0)`, `(- (0.0 * 1))`}
	vals := []string{`1`, `2`, `"x"`, `"y"`, `true`, `[1, 2]`, `1.5`, `len("abc")`, `"v" + "w"`, `[3, 4]`, `[1, 2 + 1]`, `{"q": 1}`, `{"q": 2}`, `len("ab") + 1`, `(2 > 1) ? 1 : 0`, `- 1`,
		`1.0`, `2.0`, `10`, `10.0`, `"1"`, `"2"`, `id(1)`, `id(1.0)`, `[1.0, 2]`, `{"q": 1.0}`}
	// now and then every pair holds the same value text (or one of two): the
	// pairs then differ in their keys only
	var shared []string
	switch gen.Uniform(rt, "sharedvals", 6) {
	case 0:
		shared = []string{rapid.SampledFrom(vals).Draw(rt, "sharedval")}
	case 1:
		shared = [][]string{{`1`, `1.0`}, {`2`, `2.0`}, {`10`, `10.0`}, {`"1"`, `1`}, {`id(1)`, `id(1.0)`}}[gen.Uniform(rt, "sharedtwins", 5)]
	}
	for _, k := range extraKeys {
		keys = append(keys, k, k)
	}
	if gen.Uniform(rt, "longkeys", 6) == 0 {
		// long keys that agree in their first 40, 64 or 300 characters (paths, URLs)
		prefix := strings.Repeat("/srv/data/customers/", rapid.SampledFrom([]int{2, 4, 16}).Draw(rt, "longkeylen"))
		keys = []string{`"` + prefix + `a"`, `"` + prefix + `b"`, `"` + prefix + `"`, `"` + prefix + `a/b"`, `"a"`, `1`}
	}
	var parts []string
	if gen.Uniform(rt, "nankeys", 8) == 0 {
		// keys that print alike AND have the same type: NaNs with different
		// bit patterns, the two zeros
		parts = append(parts, `((0 - 1.0) ** 0.5): "nan"`, `(- ((0 - 1.0) ** 0.5)): "minus-nan"`, `(0.0 * 1): "zero"`, `(- (0.0 * 1)): "minus-zero"`)
	}
	for i := 0; i < n; i++ {
		k := rapid.SampledFrom(keys).Draw(rt, "key")
		var v string
		if depth > 0 && gen.Uniform(rt, "nested", 5) == 0 {
			v = drawHashLiteral(rt, depth-1, extraKeys...)
		} else {
			v = rapid.SampledFrom(vals).Draw(rt, "val")
			if gen.Uniform(rt, "uniqueval", 2) == 0 {
				v = fmt.Sprintf("%d", 100+i)
			}
			if len(shared) > 0 {
				v = rapid.SampledFrom(shared).Draw(rt, "sharedpick")
			}
		}
		parts = append(parts, k+": "+v)
	}
	return "{" + strings.Join(parts, ", ") + "}"
}

func drawDetCase(rt *rapid.T) (*DetCase, bool) {
	c := &DetCase{Prop: "C19", Kind: "determinism", Vars: map[string]lang.Value{}}
	var b strings.Builder
	nontrivial := false
	nh := rapid.IntRange(0, 3).Draw(rt, "nhash")
	var histKeys []string
	if gen.Uniform(rt, "histkeys", 3) == 0 {
		// key variables with a history: used as keys (or printed) before, stepped
		// since; they now coincide with literal keys of the pool (2.5, 2, "10")
		b.WriteString("kx = 1.5; kh0 = {kx: 0, 2.5: 1}; kx++;\nky = 1; ks0 = string(ky) + string({ky: ky}); ky++;\nkz = \"1\"; kh1 = {kz: 1}; kz += \"0\";\n")
		histKeys = []string{"kx", "ky", "kz"}
	}
	for i := 0; i < nh; i++ {
		fmt.Fprintf(&b, "h%d = %s;\n", i, drawHashLiteral(rt, 1, histKeys...))
		nontrivial = true
		switch gen.Uniform(rt, "use", 5) {
		case 0:
			fmt.Fprintf(&b, "foreach k, v in h%d { trace(k, v); }\n", i)
		case 1:
			fmt.Fprintf(&b, "trace(keys(h%d));\n", i)
		case 2:
			fmt.Fprintf(&b, "trace(string(h%d), len(h%d));\n", i, i)
		case 3:
			fmt.Fprintf(&b, "foreach v in h%d { trace(v); }\ntrace(h%d[\"a\"], h%d[1], h%d[\"1\"]);\n", i, i, i, i)
		default:
			fmt.Fprintf(&b, "s%d = \"\"; foreach k, v in h%d { s%d = s%d + string(k) + \"=\" + string(v) + \";\"; }\n", i, i, i, i)
		}
	}
	// patterns that do not compile, and ones nobody in this process has used
	// before: the first evaluation and every later one say the same
	if gen.Uniform(rt, "oddpatterns", 3) == 0 {
		u := rapid.IntRange(0, 1<<30).Draw(rt, "patternid")
		fmt.Fprintf(&b, "bp = \"(\" + \"u%d\";\ngp = \"^u%d\" + \"|x+\";\n", u, u)
		b.WriteString("trace(replace(\"a(u1\", bp, \"-\"), match(\"a\", bp), replace(\"xxu\", gp, \"-\"), match(\"xx\", gp));\n")
		b.WriteString("trace(replace(\"a(u1\", bp, \"-\"), match(\"a\", bp), replace(\"xxu\", gp, \"-\"), match(\"xx\", gp));\n")
		nontrivial = true
	}
	// a host-provided map
	if rapid.Bool().Draw(rt, "mapfield") {
		hv := gen.HashValue(rt, "fieldhash", gen.ValueOpts{Depth: 2, FieldSafe: true})
		c.Obj = &eng.ObjSpec{Mode: "map", Fields: []eng.Field{{Name: "M", V: hv}, {Name: "N", V: lang.Int(3)}}}
		b.WriteString("trace(keys(M), string(M));\nforeach k, v in M { trace(k, v); }\n")
		if rapid.Bool().Draw(rt, "sharemap") {
			c.ShareMap = true
			b.WriteString("trace(M, M2, Inner);\ntrace(type(M), type(M2), type(Inner.x), type(Inner.y));\n")
			nontrivial = true
		}
		if gen.Uniform(rt, "bytekeys", 3) == 0 {
			// a nested map whose keys are not valid UTF-8 and differ in the odd
			// bytes only (file names in an old encoding): every key is its own entry
			bk := lang.Hash(lang.Pair{K: lang.Str("caf\xe9.txt"), V: lang.Int(1)}, lang.Pair{K: lang.Str("caf\xe8.txt"), V: lang.Int(2)},
				lang.Pair{K: lang.Str("\xff"), V: lang.Int(3)}, lang.Pair{K: lang.Str("\xfe"), V: lang.Int(4)}, lang.Pair{K: lang.Str("caf\ufffd.txt"), V: lang.Int(5)})
			c.Obj.Fields = append(c.Obj.Fields, eng.Field{Name: "B", V: bk})
			b.WriteString("trace(len(B), len(keys(B)), string(B));\nforeach k, v in B { trace(v, len(k)); }\n")
			nontrivial = true
		}
		if rapid.Bool().Draw(rt, "dollarkeys") {
			// keys that differ only by the legacy $ prefix, and by case
			c.Obj.Fields = append(c.Obj.Fields, eng.Field{Name: "$N", V: lang.Int(4)}, eng.Field{Name: "n", V: lang.Int(5)}, eng.Field{Name: "$M", V: lang.Str("other")}, eng.Field{Name: "$$N", V: lang.Int(6)})
			b.WriteString("trace(N, $N, n, type(M), type($M));\n")
			nontrivial = true
		}
	}
	// several small functions whose bodies the optimizer treats differently
	// (foldable arithmetic, constant conditions, constant division by zero)
	if rapid.Bool().Draw(rt, "optfuncs") {
		bodies := []string{"return 1 / 0;", "return 2 + 3;", "x = 4 * 5; return x - 1;", "if (1 == 1) { return 1; } return 2;", "return 7 / (3 - 3);",
			"return 6 / 2 + 1;", "if (2 != 2) { return 9; } else { return 8; }", "y = 10 - 3 * 2; return y == 4;", "return [1 + 1, 2 * 2, 9 / 3];", "while (1 == 2) { z = 1; } return 0;"}
		nf := rapid.IntRange(2, 6).Draw(rt, "noptfuncs")
		for i := 0; i < nf; i++ {
			fmt.Fprintf(&b, "function of%d() { %s }\n", i, rapid.SampledFrom(bodies).Draw(rt, "optbody"))
		}
		fmt.Fprintf(&b, "trace(of%d());\n", gen.Uniform(rt, "callopt", nf))
		nontrivial = true
	}
	// a generated program with several functions and constants
	if rapid.Bool().Draw(rt, "withprogram") {
		pr := gen.Program(rt, gen.ProgOpts{Depth: 2, Block: 3, Funcs: 3, Ternary: true, Switch: true, EarlyRet: true, IncDec: true, BigInts: true, NoSqrtFold: true})
		if pr.NFuncs >= 2 {
			nontrivial = true
		}
		for _, v := range pr.In.Vars {
			c.Vars[v.Name] = v.V
		}
		if c.Obj == nil {
			c.Obj = &eng.ObjSpec{Mode: "map"}
		}
		for _, f := range pr.In.Fields {
			c.Obj.Fields = append(c.Obj.Fields, eng.Field{Name: f.Name, V: f.V})
		}
		b.WriteString(lang.ProgramText(pr.P))
	} else {
		b.WriteString("return [")
		for i := 0; i < nh; i++ {
			fmt.Fprintf(&b, "h%d, ", i)
		}
		b.WriteString("1];\n")
	}
	c.Script = b.String()
	return c, nontrivial
}

func TestC19(t *testing.T) {
	defer silenceAs("inprocess")()
	col := evid.New("C19", "inprocess", "scripts with hash literals (2-8 pairs; keys of different types whose printed forms coincide; duplicate keys; expression keys; nested), hashes from map[string]interface{} fields, keys(), foreach over hashes, string(h), several user functions and many constants; each script is prepared 20 times (thorough 60) in one process, with and without optimizer, and run 3 times per evaluator, and the same (script, object) is executed in 4 (thorough 16) separate worker processes; oracle: all repetitions agree on the compiled program (hook: constants, main bytecode, function bodies), results, host calls and variables; non-trivial = the script contains a hash with >=2 entries or >=2 functions; distinct by script text")
	replayKnown(t, col, "C19")
	reps := scale(20, 60)
	rapidCheck(t, col, func(rt *rapid.T) {
		c, nt := drawDetCase(rt)
		if err := runDet(c, reps); err != nil {
			c.Msg = err.Error()
			violation(rt, "C19", c, "%v", err)
		}
		cc := c
		col.Case(c.Script, nt, func() interface{} { return map[string]interface{}{"script": clip(cc.Script, 900)} })
	})
}

// ---- across processes ----

// TestC19Worker prints the observation of the case file named by VERIF_C19_CASE.
func TestC19Worker(t *testing.T) {
	path := os.Getenv("VERIF_C19_CASE")
	if path == "" {
		t.Skip("worker only")
	}
	raw, err := os.ReadFile(path)
	if err != nil {
		t.Fatalf("%v", err)
	}
	var cases []DetCase
	if err := json.Unmarshal(raw, &cases); err != nil {
		t.Fatalf("%v", err)
	}
	restore := silence()
	var out []string
	for i := range cases {
		cases[i].Obj.Fix()
		for k, v := range cases[i].Vars {
			v.Fix()
			cases[i].Vars[k] = v
		}
		o, err := observe(&cases[i], i%2 == 1)
		if err != nil {
			o = "ERROR " + err.Error()
		}
		out = append(out, o)
	}
	restore()
	b, _ := json.Marshal(out)
	_ = os.WriteFile(path+".out."+os.Getenv("VERIF_C19_ID"), b, 0o644)
}

func TestC19Processes(t *testing.T) {
	defer silenceAs("processes")()
	col := evid.New("C19", "processes", "")
	defer col.Flush()
	nproc := scale(4, 16)
	ncases := scale(300, 4000)
	dir, err := os.MkdirTemp(os.Getenv("VERIF_OUT"), "c19")
	if err != nil {
		t.Fatalf("INFRA: %v", err)
	}
	defer os.RemoveAll(dir)
	// draw the cases with rapid's generators, deterministically from the seed
	var cases []DetCase
	var nts []bool
	gencases := rapid.Custom(func(rt *rapid.T) []DetCase {
		var out []DetCase
		for i := 0; i < 20; i++ {
			c, nt := drawDetCase(rt)
			out = append(out, *c)
			nts = append(nts, nt)
		}
		return out
	})
	seedBase := 0
	fmt.Sscanf(os.Getenv("VERIF_SEED"), "%d", &seedBase)
	for i := 0; len(cases) < ncases; i++ {
		nts = nts[:len(cases)]
		cases = append(cases, gencases.Example(seedBase*7919+i)...)
	}
	casefile := filepath.Join(dir, "cases.json")
	b, _ := json.Marshal(cases)
	if err := os.WriteFile(casefile, b, 0o644); err != nil {
		t.Fatalf("INFRA: %v", err)
	}
	var outs [][]string
	for p := 0; p < nproc; p++ {
		cmd := exec.Command(os.Args[0], "-test.run", "^TestC19Worker$", "-test.timeout", "600s")
		cmd.Env = append(os.Environ(), "VERIF_C19_CASE="+casefile, fmt.Sprintf("VERIF_C19_ID=%d", p))
		var buf bytes.Buffer
		cmd.Stdout, cmd.Stderr = &buf, &buf
		if err := cmd.Run(); err != nil {
			t.Fatalf("INFRA: worker %d failed: %v\n%s", p, err, clip(buf.String(), 2000))
		}
		raw, err := os.ReadFile(fmt.Sprintf("%s.out.%d", casefile, p))
		if err != nil {
			t.Fatalf("INFRA: worker %d wrote no output: %v", p, err)
		}
		var o []string
		if err := json.Unmarshal(raw, &o); err != nil || len(o) != len(cases) {
			t.Fatalf("INFRA: worker %d output unreadable", p)
		}
		outs = append(outs, o)
	}
	for i := range cases {
		for p := 1; p < nproc; p++ {
			if outs[p][i] == "timeout" || outs[0][i] == "timeout" {
				continue
			}
			if outs[p][i] != outs[0][i] {
				c := cases[i]
				c.Msg = fmt.Sprintf("process %d differs from process 0: %s", p, firstDiff(outs[0][i], outs[p][i]))
				violation(t, "C19", &c, "%s", c.Msg)
			}
		}
		c := cases[i]
		nt := i < len(nts) && nts[i]
		col.Case("proc|"+c.Script, nt, func() interface{} { return map[string]interface{}{"script": clip(c.Script, 600), "processes": nproc} })
	}
	col.Set("processes", nproc)
}

// ---- the same contents at the same address, different contents at the same address ----

// AddrCase: one evaluator sees a sequence of record contents, each written
// into ONE record that is always passed by the same pointer; a fresh
// evaluator sees each of them in a record of its own.
type AddrCase struct {
	Prop   string   `json:"prop"`
	Kind   string   `json:"kind"`
	Script string   `json:"script"`
	Recs   []c19Rec `json:"records"`
	UseRun bool     `json:"use_run,omitempty"`
	Msg    string   `json:"message,omitempty"`
}

type c19Rec struct {
	Name  string
	Count int
	Score float64
	Tags  []string
	Meta  map[string]interface{}
	Flag  bool
}

func observeRec(r *eng.Runner, rec *c19Rec, useRun bool) string {
	if useRun {
		ok, err := r.E.Run(rec)
		return fmt.Sprintf("run:%v err:%v", ok, err != nil)
	}
	res := r.Execute(rec)
	if res.Panic != nil {
		return fmt.Sprintf("panic:%v", res.Panic)
	}
	if res.Err != nil {
		return "error trace:" + strings.Join(res.Trace, "|")
	}
	return res.Val.Describe() + " trace:" + strings.Join(res.Trace, "|")
}

func runAddr(c *AddrCase) error {
	used, err := prepared(c.Script, nil, false)
	if err != nil {
		return fmt.Errorf("Prepare rejected a valid script: %v", err)
	}
	slot := &c19Rec{}
	for i := range c.Recs {
		*slot = c.Recs[i] // same address, new contents
		got := observeRec(used, slot, c.UseRun)
		fresh, err := prepared(c.Script, nil, false)
		if err != nil {
			return fmt.Errorf("Prepare rejected a valid script: %v", err)
		}
		own := c.Recs[i]
		want := observeRec(fresh, &own, c.UseRun)
		if got != want {
			return fmt.Errorf("record %d (written into the record the evaluator already saw, same address): %s; a fresh evaluator given an equal record elsewhere: %s", i, clip(got, 500), clip(want, 500))
		}
	}
	return nil
}

func init() {
	replayers["C19/address"] = func(raw []byte) error {
		var c AddrCase
		if err := json.Unmarshal(raw, &c); err != nil {
			return err
		}
		return runAddr(&c)
	}
}

func TestC19Addresses(t *testing.T) {
	defer silenceAs("addresses")()
	col := evid.New("C19", "addresses", "")
	scripts := []string{"trace(Name, Count); return [Name, Count, Score, Flag];", "return len(Tags) + Count;", "foreach t in Tags { trace(t); } return Meta;",
		"if ( Flag ) { return Name; } return Score;", "return string(Meta) + Name;", "return Count > 3 && Name ~= /a/;", "h = {\"n\": Name, \"c\": Count}; trace(keys(h)); return h;",
		"return Tags;", "switch ( Name ) { case \"a\" { return Count; } default { return Score; } }"}
	rapidCheck(t, col, func(rt *rapid.T) {
		c := &AddrCase{Prop: "C19", Kind: "address", Script: scripts[gen.Uniform(rt, "script", len(scripts))], UseRun: gen.Uniform(rt, "userun", 4) == 0}
		n := rapid.IntRange(2, 5).Draw(rt, "nrec")
		for i := 0; i < n; i++ {
			if i > 0 && gen.Uniform(rt, "same", 4) == 0 {
				c.Recs = append(c.Recs, c.Recs[i-1])
				continue
			}
			r := c19Rec{Name: rapid.SampledFrom([]string{"a", "b", "ab", "", "é"}).Draw(rt, "name"), Count: rapid.IntRange(-2, 9).Draw(rt, "count"),
				Score: float64(rapid.IntRange(-8, 8).Draw(rt, "score")) / 4, Flag: rapid.Bool().Draw(rt, "flag")}
			for j := rapid.IntRange(0, 3).Draw(rt, "ntags"); j > 0; j-- {
				r.Tags = append(r.Tags, rapid.SampledFrom([]string{"x", "y", "z"}).Draw(rt, "tag"))
			}
			if rapid.Bool().Draw(rt, "meta") {
				r.Meta = map[string]interface{}{"k": rapid.IntRange(0, 3).Draw(rt, "mk"), "s": r.Name}
			}
			c.Recs = append(c.Recs, r)
		}
		if err := runAddr(c); err != nil {
			c.Msg = err.Error()
			violation(rt, "C19", c, "%v", err)
		}
		cc := c
		col.Case(fmt.Sprint(*c), true, func() interface{} { return cc })
	})
}
