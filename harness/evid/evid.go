// Package evid collects per-process evidence (counts, distinct non-trivial
// cases, samples, class histograms) and writes it for the driver to merge.
package evid

import (
	"encoding/binary"
	"encoding/json"
	"fmt"
	"hash/fnv"
	"os"
	"path/filepath"
	"sort"
	"sync"
	"time"
)

// Collector gathers evidence for one property in one process.
type Collector struct {
	mu       sync.Mutex
	Prop     string
	Part     string
	Rule     string
	start    time.Time
	evals    int64
	nt       map[uint64]struct{}
	first    []interface{}
	low      []lowSample // samples with the smallest digests (mergeable reservoir)
	classes  map[string]int64
	excluded map[string]int64
	extra    map[string]interface{}
	known    map[string]string // known-finding id -> what
	failed   bool
}

type lowSample struct {
	H uint64      `json:"h"`
	S interface{} `json:"s"`
}

// Current is the collector created last in this process (one test function
// = one process = one collector); shared helpers count their classes there.
var Current *Collector

// New creates a collector.
func New(prop, part, rule string) *Collector {
	c := newCollector(prop, part, rule)
	Current = c
	return c
}

func newCollector(prop, part, rule string) *Collector {
	return &Collector{Prop: prop, Part: part, Rule: rule, start: time.Now(), nt: map[uint64]struct{}{},
		classes: map[string]int64{}, excluded: map[string]int64{}, extra: map[string]interface{}{}, known: map[string]string{}}
}

// Digest hashes a case text.
func Digest(s string) uint64 {
	h := fnv.New64a()
	h.Write([]byte(s))
	return h.Sum64()
}

// Case records one executed case. key identifies the case for distinctness;
// sample is only called when the case is kept as a sample.
func (c *Collector) Case(key string, nontrivial bool, sample func() interface{}) {
	c.mu.Lock()
	defer c.mu.Unlock()
	c.evals++
	if !nontrivial {
		return
	}
	d := Digest(key)
	if _, ok := c.nt[d]; ok {
		return
	}
	c.nt[d] = struct{}{}
	if sample == nil {
		return
	}
	if len(c.first) < 3 {
		c.first = append(c.first, sample())
		return
	}
	if len(c.low) < 5 {
		c.low = append(c.low, lowSample{d, sample()})
		sort.Slice(c.low, func(i, j int) bool { return c.low[i].H < c.low[j].H })
		return
	}
	if d < c.low[len(c.low)-1].H {
		c.low[len(c.low)-1] = lowSample{d, sample()}
		sort.Slice(c.low, func(i, j int) bool { return c.low[i].H < c.low[j].H })
	}
}

// Class counts an occurrence of a generator class.
func (c *Collector) Class(name string) {
	c.mu.Lock()
	c.classes[name]++
	c.mu.Unlock()
}

// ClassN adds n to a class.
func (c *Collector) ClassN(name string, n int64) {
	c.mu.Lock()
	c.classes[name] += n
	c.mu.Unlock()
}

// Excluded counts a case steered away from / discarded for a stated reason.
func (c *Collector) Excluded(reason string) {
	c.mu.Lock()
	c.excluded[reason]++
	c.mu.Unlock()
}

// Set stores an extra coverage key.
func (c *Collector) Set(key string, v interface{}) {
	c.mu.Lock()
	c.extra[key] = v
	c.mu.Unlock()
}

// Known records that a listed known finding was reproduced.
func (c *Collector) Known(id, what string) {
	c.mu.Lock()
	c.known[id] = what
	c.mu.Unlock()
}

// Evals returns the number of recorded cases.
func (c *Collector) Evals() int64 {
	c.mu.Lock()
	defer c.mu.Unlock()
	return c.evals
}

type shardFile struct {
	Prop     string                 `json:"prop"`
	Part     string                 `json:"part"`
	Rule     string                 `json:"rule"`
	Evals    int64                  `json:"evaluations"`
	NT       int                    `json:"distinct_nontrivial"`
	First    []interface{}          `json:"first"`
	Low      []lowSample            `json:"low"`
	Classes  map[string]int64       `json:"classes"`
	Excluded map[string]int64       `json:"excluded"`
	Extra    map[string]interface{} `json:"extra"`
	Known    map[string]string      `json:"known"`
	WallS    float64                `json:"wall_s"`
}

// Flush writes <dir>/<prop>.<shard>.json and .hashes; dir and shard come
// from VERIF_OUT and VERIF_SHARD. Without VERIF_OUT nothing is written.
func (c *Collector) Flush() {
	dir := os.Getenv("VERIF_OUT")
	if dir == "" {
		return
	}
	shard := os.Getenv("VERIF_SHARD")
	if shard == "" {
		shard = "0"
	}
	c.mu.Lock()
	defer c.mu.Unlock()
	sf := shardFile{Prop: c.Prop, Part: c.Part, Rule: c.Rule, Evals: c.evals, NT: len(c.nt), First: c.first, Low: c.low,
		Classes: c.classes, Excluded: c.excluded, Extra: c.extra, Known: c.known, WallS: time.Since(c.start).Seconds()}
	b, err := json.Marshal(sf)
	if err != nil {
		fmt.Fprintf(os.Stderr, "evid: marshal: %v\n", err)
		return
	}
	base := filepath.Join(dir, fmt.Sprintf("%s.%s.%s", c.Prop, c.Part, shard))
	_ = os.WriteFile(base+".json", b, 0o644)
	hb := make([]byte, 0, 8*len(c.nt))
	var tmp [8]byte
	for h := range c.nt {
		binary.LittleEndian.PutUint64(tmp[:], h)
		hb = append(hb, tmp[:]...)
	}
	_ = os.WriteFile(base+".hashes", hb, 0o644)
}
