// Package lang is an independent description of the evalfilter scripting
// language: values, a syntax tree, a pretty-printer and a reference
// interpreter.  It shares no code with the repository under test; it is
// written from the README, the property statements and the documented
// examples.
package lang

import (
	"encoding/hex"
	"fmt"
	"sort"
	"strconv"
	"strings"
	"unicode/utf8"
)

// Kind is the type of a model value.
type Kind int

// The value kinds of the language.
const (
	KNull Kind = iota
	KInt
	KFloat
	KString
	KBool
	KArray
	KHash
	KRegexp
	KVoid
)

// AllKinds lists the eight script-visible kinds.
var AllKinds = []Kind{KInt, KFloat, KString, KBool, KNull, KArray, KHash, KRegexp}

// Pair is one hash entry.
type Pair struct {
	K Value `json:"k"`
	V Value `json:"v"`
}

// Value is a model value.  Only the fields relevant for K are used.
type Value struct {
	K  Kind    `json:"kind"`
	I  int64   `json:"i,omitempty"`
	F  float64 `json:"-"`
	FS string  `json:"f,omitempty"` // float as string for JSON (NaN/Inf safe)
	S  string  `json:"s,omitempty"`
	SX string  `json:"sx,omitempty"` // the bytes of S in hex when S is not valid UTF-8 (JSON cannot carry those)
	B  bool    `json:"b,omitempty"`
	A  []Value `json:"a,omitempty"`
	H  []Pair  `json:"h,omitempty"`
}

// Constructors.
func Int(i int64) Value     { return Value{K: KInt, I: i} }
func Float(f float64) Value { return Value{K: KFloat, F: f, FS: strconv.FormatFloat(f, 'g', -1, 64)} }
func Str(s string) Value {
	if !utf8.ValidString(s) {
		return Value{K: KString, S: s, SX: hex.EncodeToString([]byte(s))}
	}
	return Value{K: KString, S: s}
}
func Bool(b bool) Value     { return Value{K: KBool, B: b} }
func Null() Value           { return Value{K: KNull} }
func Void() Value           { return Value{K: KVoid} }
func Regexp(p string) Value { return Value{K: KRegexp, S: p} }
func Array(a ...Value) Value {
	if a == nil {
		a = []Value{}
	}
	return Value{K: KArray, A: a}
}
func Hash(p ...Pair) Value {
	if p == nil {
		p = []Pair{}
	}
	return Value{K: KHash, H: p}
}

// Fix restores F from FS after JSON decoding (recursively).
func (v *Value) Fix() {
	if v.SX != "" {
		if b, err := hex.DecodeString(v.SX); err == nil {
			v.S = string(b)
		}
	}
	if v.K == KFloat {
		f, err := strconv.ParseFloat(v.FS, 64)
		if err == nil {
			v.F = f
		}
	}
	for i := range v.A {
		v.A[i].Fix()
	}
	for i := range v.H {
		v.H[i].K.Fix()
		v.H[i].V.Fix()
	}
}

// Type is the engine's name of the type.
func (v Value) Type() string {
	switch v.K {
	case KNull:
		return "NULL"
	case KInt:
		return "INTEGER"
	case KFloat:
		return "FLOAT"
	case KString:
		return "STRING"
	case KBool:
		return "BOOLEAN"
	case KArray:
		return "ARRAY"
	case KHash:
		return "HASH"
	case KRegexp:
		return "REGEXP"
	case KVoid:
		return "VOID"
	}
	return "?"
}

// Inspect is the printed form of the value.
func (v Value) Inspect() string {
	switch v.K {
	case KNull:
		return "null"
	case KInt:
		return strconv.FormatInt(v.I, 10)
	case KFloat:
		return strconv.FormatFloat(v.F, 'f', -1, 64)
	case KString, KRegexp:
		return v.S
	case KBool:
		if v.B {
			return "true"
		}
		return "false"
	case KArray:
		parts := make([]string, len(v.A))
		for i, e := range v.A {
			parts[i] = e.Inspect()
		}
		return "[" + strings.Join(parts, ", ") + "]"
	case KHash:
		ents := v.SortedPairs()
		parts := make([]string, len(ents))
		for i, e := range ents {
			parts[i] = e.K.Inspect() + ": " + e.V.Inspect()
		}
		return "{" + strings.Join(parts, ", ") + "}"
	case KVoid:
		return "void"
	}
	return "?"
}

// SortedPairs returns the entries ordered by the printed form of the key
// (ties: by type name, a refinement the language leaves open).
func (v Value) SortedPairs() []Pair {
	out := make([]Pair, len(v.H))
	copy(out, v.H)
	sort.SliceStable(out, func(i, j int) bool {
		a, b := out[i].K.Inspect(), out[j].K.Inspect()
		if a != b {
			return a < b
		}
		return out[i].K.Type() < out[j].K.Type()
	})
	return out
}

// HasKeyTies reports whether two keys of the hash (at any depth) print alike.
func (v Value) HasKeyTies() bool {
	switch v.K {
	case KArray:
		for _, e := range v.A {
			if e.HasKeyTies() {
				return true
			}
		}
	case KHash:
		seen := map[string]bool{}
		for _, p := range v.H {
			s := p.K.Inspect()
			if seen[s] {
				return true
			}
			seen[s] = true
			if p.V.HasKeyTies() {
				return true
			}
		}
	}
	return false
}

// Truth is the single truth function of the language.
func (v Value) Truth() bool {
	switch v.K {
	case KBool:
		return v.B
	case KInt:
		return v.I > 0
	case KFloat:
		return v.F > 0
	case KString, KRegexp:
		return v.S != ""
	case KArray:
		return len(v.A) != 0
	case KHash:
		return len(v.H) != 0
	}
	return false
}

// SameKey reports whether two values are the same hash key (type and value).
func SameKey(a, b Value) bool {
	if a.K != b.K {
		return false
	}
	switch a.K {
	case KInt:
		return a.I == b.I
	case KFloat:
		return a.Inspect() == b.Inspect()
	case KString:
		return a.S == b.S
	}
	return false
}

// Hashable reports whether the value may be used as a hash key.
func (v Value) Hashable() bool {
	return v.K == KInt || v.K == KFloat || v.K == KString
}

// Lookup finds a key in a hash value.
func (v Value) Lookup(k Value) (Value, bool) {
	// last writer wins is not relied upon: generators avoid duplicates.
	for i := len(v.H) - 1; i >= 0; i-- {
		if SameKey(v.H[i].K, k) {
			return v.H[i].V, true
		}
	}
	return Null(), false
}

// DeepEqual compares type and printed form recursively.
func DeepEqual(a, b Value) bool {
	if a.K != b.K {
		return false
	}
	switch a.K {
	case KArray:
		if len(a.A) != len(b.A) {
			return false
		}
		for i := range a.A {
			if !DeepEqual(a.A[i], b.A[i]) {
				return false
			}
		}
		return true
	case KHash:
		if len(a.H) != len(b.H) {
			return false
		}
		for _, p := range a.H {
			o, ok := b.Lookup(p.K)
			if !ok || !DeepEqual(p.V, o) {
				return false
			}
		}
		return true
	}
	return a.Inspect() == b.Inspect()
}

// Describe is a short "TYPE:printed" description.
func (v Value) Describe() string {
	if v.K == KArray || v.K == KHash {
		return fmt.Sprintf("%s:%s~%s", v.Type(), v.Inspect(), v.Sig())
	}
	return fmt.Sprintf("%s:%s", v.Type(), v.Inspect())
}

// TreeSize counts the nodes of the value written out as a tree, giving up
// (and returning a number above limit) once limit is exceeded. Containers
// may share structure, so the tree can be far larger than the memory held.
func (v Value) TreeSize(limit int) int {
	n := 0
	var walk func(v Value) bool
	walk = func(v Value) bool {
		n++
		if n > limit {
			return false
		}
		for _, e := range v.A {
			if !walk(e) {
				return false
			}
		}
		for _, p := range v.H {
			if !walk(p.K) || !walk(p.V) {
				return false
			}
		}
		return true
	}
	walk(v)
	return n
}

// Sig is the nested type signature of a value: the printed form of a
// container does not tell 1 from "1" or 2.0 from 2, the signature does.
// Hash entries are listed by printed key, then key type.
func (v Value) Sig() string {
	switch v.K {
	case KArray:
		parts := make([]string, len(v.A))
		for i, e := range v.A {
			parts[i] = e.Sig()
		}
		return "[" + strings.Join(parts, ",") + "]"
	case KHash:
		ps := append([]Pair(nil), v.H...)
		sort.SliceStable(ps, func(i, j int) bool {
			a, b := ps[i].K.Inspect(), ps[j].K.Inspect()
			if a != b {
				return a < b
			}
			return ps[i].K.Type() < ps[j].K.Type()
		})
		parts := make([]string, len(ps))
		for i, p := range ps {
			parts[i] = p.K.Sig() + ":" + p.V.Sig()
		}
		return "{" + strings.Join(parts, ",") + "}"
	}
	return v.Type()
}

// Copy deep-copies the value.
func (v Value) Copy() Value {
	o := v
	if v.A != nil {
		o.A = make([]Value, len(v.A))
		for i := range v.A {
			o.A[i] = v.A[i].Copy()
		}
	}
	if v.H != nil {
		o.H = make([]Pair, len(v.H))
		for i := range v.H {
			o.H[i] = Pair{v.H[i].K.Copy(), v.H[i].V.Copy()}
		}
	}
	return o
}
