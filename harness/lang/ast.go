package lang

import (
	"strconv"
	"strings"
)

// ---- expressions ----

// Expr is an expression node.
type Expr interface{ isExpr() }

// Lit is a literal of a scalar kind (int, float, string, bool, regexp).
type Lit struct{ V Value }

// Name is a variable / field lookup.
type Name struct{ N string }

// Unary is a prefix operation: - ! √
type Unary struct {
	Op string
	X  Expr
}

// Binary is an infix operation.
type Binary struct {
	Op   string
	L, R Expr
}

// Index is x[i].
type Index struct{ X, I Expr }

// Dot is x.name
type Dot struct {
	X Expr
	N string
}

// Call is fn(args...).
type Call struct {
	Fn   string
	Args []Expr
}

// Ternary is c ? a : b.
type Ternary struct{ C, A, B Expr }

// ArrayLit is [a, b, ...].
type ArrayLit struct{ Elems []Expr }

// HashLit is {k: v, ...}.
type HashLit struct{ Keys, Vals []Expr }

// Paren is an explicit (redundant) pair of parentheses; semantically X.
type Paren struct{ X Expr }

func (Lit) isExpr()      {}
func (Name) isExpr()     {}
func (Unary) isExpr()    {}
func (Binary) isExpr()   {}
func (Index) isExpr()    {}
func (Dot) isExpr()      {}
func (Call) isExpr()     {}
func (Ternary) isExpr()  {}
func (ArrayLit) isExpr() {}
func (HashLit) isExpr()  {}
func (Paren) isExpr()    {}

// ---- statements ----

// Stmt is a statement node.
type Stmt interface{ isStmt() }

// Assign is name = x;
type Assign struct {
	N string
	X Expr
}

// Compound is name op= x;  (op one of + - * /)
type Compound struct {
	N  string
	Op string
	X  Expr
}

// IncDec is name++ / name--;
type IncDec struct {
	N  string
	Op string // "++" or "--"
}

// ExprStmt is x;
type ExprStmt struct{ X Expr }

// If is if (c) {..} [else if ..] [else {..}]
type If struct {
	C      Expr
	Then   []Stmt
	Else   []Stmt // nil = no else
	ElseIf *If    // alternative to Else
}

// While is while/for (c) {..}
type While struct {
	Kw   string // "while" or "for"
	C    Expr
	Body []Stmt
}

// Foreach is foreach [idx,] v in iter {..}
type Foreach struct {
	Idx  string // "" = none
	Var  string
	Iter Expr
	Body []Stmt
}

// Case is one arm of a switch.
type Case struct {
	Exprs   []Expr
	Default bool
	// CaseKw: the default arm is spelled "case default" (accepted alternative)
	CaseKw bool `json:",omitempty"`
	Body   []Stmt
}

// Switch is switch (subj) { case .. {..} default {..} }
type Switch struct {
	Subj  Expr
	Cases []Case
}

// Return is return x;
type Return struct{ X Expr }

// Local is local name;
type Local struct{ N string }

// FuncDef is function name(params) {..}
type FuncDef struct {
	N      string
	Params []string
	Body   []Stmt
}

func (Assign) isStmt()   {}
func (Compound) isStmt() {}
func (IncDec) isStmt()   {}
func (ExprStmt) isStmt() {}
func (If) isStmt()       {}
func (While) isStmt()    {}
func (Foreach) isStmt()  {}
func (Switch) isStmt()   {}
func (Return) isStmt()   {}
func (Local) isStmt()    {}
func (FuncDef) isStmt()  {}

// Program is a list of statements.
type Program struct{ Stmts []Stmt }

// ---- printing ----

// QuoteString spells s as a double-quoted string literal.
func QuoteString(s string) string {
	var b strings.Builder
	b.WriteByte('"')
	for _, r := range s {
		switch r {
		case '\\':
			b.WriteString(`\\`)
		case '"':
			b.WriteString(`\"`)
		case '\n':
			b.WriteString(`\n`)
		case '\r':
			b.WriteString(`\r`)
		case '\t':
			b.WriteString(`\t`)
		default:
			b.WriteRune(r)
		}
	}
	b.WriteByte('"')
	return b.String()
}

// SplitRegexp splits a full pattern "(?flags)body" produced by a literal
// into flags and body.  Only the flag letters i and m are recognised.
func SplitRegexp(full string) (flags, body string) {
	if strings.HasPrefix(full, "(?") {
		rest := full[2:]
		i := 0
		for i < len(rest) && (rest[i] == 'i' || rest[i] == 'm') {
			i++
		}
		if i > 0 && i < len(rest) && rest[i] == ')' {
			return rest[:i], rest[i+1:]
		}
	}
	return "", full
}

// QuoteRegexp spells a regexp value as a /.../flags literal.
func QuoteRegexp(full string) string {
	flags, body := SplitRegexp(full)
	var b strings.Builder
	b.WriteByte('/')
	for _, r := range body {
		switch r {
		case '\\':
			b.WriteString(`\\`)
		case '/':
			b.WriteString(`\/`)
		default:
			b.WriteRune(r)
		}
	}
	b.WriteByte('/')
	b.WriteString(flags)
	return b.String()
}

// FloatLiteral spells a finite non-negative float as digits.digits.
func FloatLiteral(f float64) string {
	s := strconv.FormatFloat(f, 'f', -1, 64)
	if !strings.Contains(s, ".") {
		s += ".0"
	}
	return s
}

// LitText spells a scalar literal. Negative numbers become prefix minus.
func LitText(v Value) string {
	switch v.K {
	case KInt:
		if v.I < 0 {
			// -MinInt64 is not expressible; caller must avoid it.
			return "(-" + strconv.FormatUint(uint64(-v.I), 10) + ")"
		}
		return strconv.FormatInt(v.I, 10)
	case KFloat:
		if v.F < 0 || (v.F == 0 && 1/v.F < 0) {
			return "(-" + FloatLiteral(-v.F) + ")"
		}
		return FloatLiteral(v.F)
	case KString:
		return QuoteString(v.S)
	case KBool:
		if v.B {
			return "true"
		}
		return "false"
	case KRegexp:
		return QuoteRegexp(v.S)
	}
	panic("LitText: not a scalar literal: " + v.Describe())
}

// NullName is an identifier that no generator ever assigns; looking it up
// yields the engine's null.
const NullName = "NUL"

// ValueExpr turns a model value into an expression that evaluates to it.
// Floats must be finite, strings free of NUL.
func ValueExpr(v Value) Expr {
	switch v.K {
	case KNull:
		return Name{NullName}
	case KArray:
		el := make([]Expr, len(v.A))
		for i, e := range v.A {
			el[i] = ValueExpr(e)
		}
		return ArrayLit{el}
	case KHash:
		h := HashLit{}
		for _, p := range v.H {
			h.Keys = append(h.Keys, ValueExpr(p.K))
			h.Vals = append(h.Vals, ValueExpr(p.V))
		}
		return h
	}
	return Lit{v}
}

// ExprText prints an expression with full parenthesisation of every
// composite operand, so that the text means the tree whatever the
// precedence table says.
func ExprText(e Expr) string {
	var b strings.Builder
	printExpr(&b, e)
	return b.String()
}

func isAtom(e Expr) bool {
	switch x := e.(type) {
	case Name, ArrayLit, Call:
		return true
	case Lit:
		_ = x
		return true // negative numbers carry their own parentheses
	case Index, Dot, Paren:
		return true
	}
	return false
}

// printArm prints a ternary arm: anything but a plain name, call or
// non-negative scalar literal is wrapped in parentheses as a whole.
func printArm(b *strings.Builder, e Expr) {
	switch x := e.(type) {
	case Name, Call:
		printExpr(b, e)
		return
	case Lit:
		neg := (x.V.K == KInt && x.V.I < 0) || (x.V.K == KFloat && (x.V.F < 0 || (x.V.F == 0 && 1/x.V.F < 0)))
		if !neg {
			printExpr(b, e)
			return
		}
		printExpr(b, e) // already carries its own parentheses
		return
	case Paren:
		printExpr(b, e)
		return
	}
	b.WriteByte('(')
	printExpr(b, e)
	b.WriteByte(')')
}

func printOperand(b *strings.Builder, e Expr) {
	if isAtom(e) {
		printExpr(b, e)
		return
	}
	b.WriteByte('(')
	printExpr(b, e)
	b.WriteByte(')')
}

func printExpr(b *strings.Builder, e Expr) {
	switch x := e.(type) {
	case Lit:
		b.WriteString(LitText(x.V))
	case Name:
		b.WriteString(x.N)
	case Paren:
		b.WriteByte('(')
		printExpr(b, x.X)
		b.WriteByte(')')
	case Unary:
		b.WriteString(x.Op)
		// avoid "--" and "!~" tokens forming by accident
		b.WriteByte(' ')
		printOperand(b, x.X)
	case Binary:
		var left strings.Builder
		printOperand(&left, x.L)
		lt := left.String()
		if l, ok := x.L.(Lit); (ok && x.Op == "/" && (l.V.K == KString || l.V.K == KBool || l.V.K == KRegexp)) || (x.Op == "/" && strings.HasSuffix(strings.TrimSpace(lt), "}")) {
			// a slash after a string, keyword, regexp token or closing brace starts a regexp
			b.WriteByte('(')
			printExpr(b, x.L)
			b.WriteByte(')')
		} else {
			b.WriteString(lt)
		}
		b.WriteByte(' ')
		b.WriteString(x.Op)
		b.WriteByte(' ')
		printOperand(b, x.R)
	case Index:
		printOperand(b, x.X)
		b.WriteByte('[')
		printExpr(b, x.I)
		b.WriteByte(']')
	case Dot:
		printOperand(b, x.X)
		b.WriteByte('.')
		b.WriteString(x.N)
	case Call:
		b.WriteString(x.Fn)
		b.WriteByte('(')
		for i, a := range x.Args {
			if i > 0 {
				b.WriteString(", ")
			}
			printExpr(b, a)
		}
		b.WriteByte(')')
	case Ternary:
		printOperand(b, x.C)
		b.WriteString(" ? ")
		printArm(b, x.A)
		b.WriteString(" : ")
		printArm(b, x.B)
	case ArrayLit:
		b.WriteByte('[')
		for i, a := range x.Elems {
			if i > 0 {
				b.WriteString(", ")
			}
			printExpr(b, a)
		}
		b.WriteByte(']')
	case HashLit:
		b.WriteByte('{')
		for i := range x.Keys {
			if i > 0 {
				b.WriteString(", ")
			}
			printExpr(b, x.Keys[i])
			b.WriteString(": ")
			printExpr(b, x.Vals[i])
		}
		b.WriteByte('}')
	default:
		panic("printExpr: unknown node")
	}
}

// ProgramText prints a program.
func ProgramText(p *Program) string {
	var b strings.Builder
	printStmts(&b, p.Stmts, 0)
	return b.String()
}

func indent(b *strings.Builder, n int) {
	for i := 0; i < n; i++ {
		b.WriteString("  ")
	}
}

func printBlock(b *strings.Builder, body []Stmt, ind int) {
	b.WriteString("{\n")
	printStmts(b, body, ind+1)
	indent(b, ind)
	b.WriteString("}")
}

func isBlockStmt(s Stmt) bool {
	switch s.(type) {
	case If, While, Foreach, Switch, FuncDef:
		return true
	}
	return false
}

func printStmts(b *strings.Builder, ss []Stmt, ind int) {
	prevBlock := false
	for _, s := range ss {
		var one strings.Builder
		printStmt(&one, s, ind)
		text := one.String()
		if prevBlock && len(text) > 0 && strings.ContainsRune("-([", rune(text[0])) {
			// blocks are expressions in this language: "} -x;" would continue
			// the block as the left operand of an infix operator. A semicolon
			// ends the statement.
			indent(b, ind)
			b.WriteString(";\n")
		}
		indent(b, ind)
		b.WriteString(text)
		b.WriteByte('\n')
		prevBlock = isBlockStmt(s)
	}
}

func printIf(b *strings.Builder, x *If, ind int) {
	b.WriteString("if ( ")
	printExpr(b, x.C)
	b.WriteString(" ) ")
	printBlock(b, x.Then, ind)
	if x.ElseIf != nil {
		b.WriteString(" else ")
		printIf(b, x.ElseIf, ind)
	} else if x.Else != nil {
		b.WriteString(" else ")
		printBlock(b, x.Else, ind)
	}
}

func printStmt(b *strings.Builder, s Stmt, ind int) {
	switch x := s.(type) {
	case Assign:
		b.WriteString(x.N)
		b.WriteString(" = ")
		printExpr(b, x.X)
		b.WriteByte(';')
	case Compound:
		b.WriteString(x.N)
		b.WriteString(" " + x.Op + "= ")
		printOperand(b, x.X)
		b.WriteByte(';')
	case IncDec:
		b.WriteString(x.N)
		b.WriteString(x.Op)
		b.WriteByte(';')
	case ExprStmt:
		printExpr(b, x.X)
		b.WriteByte(';')
	case If:
		printIf(b, &x, ind)
	case While:
		kw := x.Kw
		if kw == "" {
			kw = "while"
		}
		b.WriteString(kw + " ( ")
		printExpr(b, x.C)
		b.WriteString(" ) ")
		printBlock(b, x.Body, ind)
	case Foreach:
		b.WriteString("foreach ")
		if x.Idx != "" {
			b.WriteString(x.Idx + ", ")
		}
		b.WriteString(x.Var + " in ")
		printExpr(b, x.Iter)
		b.WriteByte(' ')
		printBlock(b, x.Body, ind)
	case Switch:
		b.WriteString("switch ( ")
		printExpr(b, x.Subj)
		b.WriteString(" ) {\n")
		for _, c := range x.Cases {
			indent(b, ind+1)
			if c.Default && c.CaseKw {
				b.WriteString("case default ")
			} else if c.Default {
				b.WriteString("default ")
			} else {
				b.WriteString("case ")
				for i, e := range c.Exprs {
					if i > 0 {
						b.WriteString(", ")
					}
					printExpr(b, e)
				}
				b.WriteByte(' ')
			}
			printBlock(b, c.Body, ind+1)
			b.WriteByte('\n')
		}
		indent(b, ind)
		b.WriteString("}")
	case Return:
		b.WriteString("return ")
		printExpr(b, x.X)
		b.WriteByte(';')
	case Local:
		b.WriteString("local " + x.N + ";")
	case FuncDef:
		b.WriteString("function " + x.N + "(" + strings.Join(x.Params, ", ") + ") ")
		printBlock(b, x.Body, ind)
	default:
		panic("printStmt: unknown node")
	}
}

// HasRange reports whether the expression contains the range operator.
func HasRange(e Expr) bool {
	switch x := e.(type) {
	case Binary:
		return x.Op == ".." || HasRange(x.L) || HasRange(x.R)
	case Unary:
		return HasRange(x.X)
	case Paren:
		return HasRange(x.X)
	case Index:
		return HasRange(x.X) || HasRange(x.I)
	case Dot:
		return HasRange(x.X)
	case Ternary:
		return HasRange(x.C) || HasRange(x.A) || HasRange(x.B)
	case Call:
		for _, a := range x.Args {
			if HasRange(a) {
				return true
			}
		}
	case ArrayLit:
		for _, a := range x.Elems {
			if HasRange(a) {
				return true
			}
		}
	case HashLit:
		for i := range x.Keys {
			if HasRange(x.Keys[i]) || HasRange(x.Vals[i]) {
				return true
			}
		}
	}
	return false
}

// Walk calls f for e and every expression below it.
func Walk(e Expr, f func(Expr)) {
	if e == nil {
		return
	}
	f(e)
	switch x := e.(type) {
	case Binary:
		Walk(x.L, f)
		Walk(x.R, f)
	case Unary:
		Walk(x.X, f)
	case Paren:
		Walk(x.X, f)
	case Index:
		Walk(x.X, f)
		Walk(x.I, f)
	case Dot:
		Walk(x.X, f)
	case Ternary:
		Walk(x.C, f)
		Walk(x.A, f)
		Walk(x.B, f)
	case Call:
		for _, a := range x.Args {
			Walk(a, f)
		}
	case ArrayLit:
		for _, a := range x.Elems {
			Walk(a, f)
		}
	case HashLit:
		for i := range x.Keys {
			Walk(x.Keys[i], f)
			Walk(x.Vals[i], f)
		}
	}
}

// HasMultiHash reports whether the expression contains a hash literal with
// more than one pair (the engine evaluates the pairs in key order, not in
// written order).
func HasMultiHash(e Expr) bool {
	switch x := e.(type) {
	case Binary:
		return HasMultiHash(x.L) || HasMultiHash(x.R)
	case Unary:
		return HasMultiHash(x.X)
	case Paren:
		return HasMultiHash(x.X)
	case Index:
		return HasMultiHash(x.X) || HasMultiHash(x.I)
	case Dot:
		return HasMultiHash(x.X)
	case Ternary:
		return HasMultiHash(x.C) || HasMultiHash(x.A) || HasMultiHash(x.B)
	case Call:
		for _, a := range x.Args {
			if HasMultiHash(a) {
				return true
			}
		}
	case ArrayLit:
		for _, a := range x.Elems {
			if HasMultiHash(a) {
				return true
			}
		}
	case HashLit:
		if len(x.Keys) > 1 {
			return true
		}
		for i := range x.Keys {
			if HasMultiHash(x.Keys[i]) || HasMultiHash(x.Vals[i]) {
				return true
			}
		}
	}
	return false
}
