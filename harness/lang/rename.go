package lang

// Rename returns a copy of the program in which every variable name (uses,
// assignment targets, parameters, locals, loop variables) is replaced by
// f(name). Function names and member names after '.' stay as they are.
func Rename(p *Program, f func(string) string) *Program {
	return &Program{Stmts: renameStmts(p.Stmts, f)}
}

func renameStmts(ss []Stmt, f func(string) string) []Stmt {
	if ss == nil {
		return nil
	}
	out := make([]Stmt, len(ss))
	for i, s := range ss {
		out[i] = renameStmt(s, f)
	}
	return out
}

func renameStmt(s Stmt, f func(string) string) Stmt {
	switch x := s.(type) {
	case Assign:
		return Assign{N: f(x.N), X: renameExpr(x.X, f)}
	case Compound:
		return Compound{N: f(x.N), Op: x.Op, X: renameExpr(x.X, f)}
	case IncDec:
		return IncDec{N: f(x.N), Op: x.Op}
	case ExprStmt:
		return ExprStmt{X: renameExpr(x.X, f)}
	case If:
		return *renameIf(&x, f)
	case While:
		return While{Kw: x.Kw, C: renameExpr(x.C, f), Body: renameStmts(x.Body, f)}
	case Foreach:
		idx := x.Idx
		if idx != "" {
			idx = f(idx)
		}
		return Foreach{Idx: idx, Var: f(x.Var), Iter: renameExpr(x.Iter, f), Body: renameStmts(x.Body, f)}
	case Switch:
		out := Switch{Subj: renameExpr(x.Subj, f)}
		for _, c := range x.Cases {
			nc := Case{Default: c.Default, CaseKw: c.CaseKw, Body: renameStmts(c.Body, f)}
			for _, e := range c.Exprs {
				nc.Exprs = append(nc.Exprs, renameExpr(e, f))
			}
			out.Cases = append(out.Cases, nc)
		}
		return out
	case Return:
		return Return{X: renameExpr(x.X, f)}
	case Local:
		return Local{N: f(x.N)}
	case FuncDef:
		ps := make([]string, len(x.Params))
		for i, p := range x.Params {
			ps[i] = f(p)
		}
		return FuncDef{N: x.N, Params: ps, Body: renameStmts(x.Body, f)}
	}
	panic("renameStmt: unknown node")
}

func renameIf(x *If, f func(string) string) *If {
	out := &If{C: renameExpr(x.C, f), Then: renameStmts(x.Then, f), Else: renameStmts(x.Else, f)}
	if x.ElseIf != nil {
		out.ElseIf = renameIf(x.ElseIf, f)
	}
	return out
}

func renameExpr(e Expr, f func(string) string) Expr {
	switch x := e.(type) {
	case nil:
		return nil
	case Lit:
		return x
	case Name:
		return Name{N: f(x.N)}
	case Unary:
		return Unary{Op: x.Op, X: renameExpr(x.X, f)}
	case Binary:
		return Binary{Op: x.Op, L: renameExpr(x.L, f), R: renameExpr(x.R, f)}
	case Index:
		return Index{X: renameExpr(x.X, f), I: renameExpr(x.I, f)}
	case Dot:
		return Dot{X: renameExpr(x.X, f), N: x.N}
	case Call:
		out := Call{Fn: x.Fn}
		for _, a := range x.Args {
			out.Args = append(out.Args, renameExpr(a, f))
		}
		return out
	case Ternary:
		return Ternary{C: renameExpr(x.C, f), A: renameExpr(x.A, f), B: renameExpr(x.B, f)}
	case ArrayLit:
		out := ArrayLit{}
		for _, a := range x.Elems {
			out.Elems = append(out.Elems, renameExpr(a, f))
		}
		if x.Elems != nil && out.Elems == nil {
			out.Elems = []Expr{}
		}
		return out
	case HashLit:
		out := HashLit{}
		for i := range x.Keys {
			out.Keys = append(out.Keys, renameExpr(x.Keys[i], f))
			out.Vals = append(out.Vals, renameExpr(x.Vals[i], f))
		}
		return out
	case Paren:
		return Paren{X: renameExpr(x.X, f)}
	}
	panic("renameExpr: unknown node")
}
