package lang

import (
	"fmt"
	"os"
	"sort"
	"strconv"
	"strings"
	"time"
	"unicode/utf8"
)

// BuiltinNames lists the functions the language always provides.
var BuiltinNames = []string{
	"between", "day", "float", "getenv", "hour", "int", "join", "keys", "len",
	"lower", "match", "max", "min", "minute", "month", "now", "panic", "print",
	"printf", "replace", "reverse", "seconds", "sort", "split", "sprintf",
	"string", "time", "trim", "type", "upper", "weekday", "year",
}

var builtinSet = func() map[string]bool {
	m := map[string]bool{}
	for _, n := range BuiltinNames {
		m[n] = true
	}
	return m
}()

// IsBuiltin reports whether name is a built-in function.
func IsBuiltin(name string) bool { return builtinSet[name] }

func isNum(v Value) bool { return v.K == KInt || v.K == KFloat }

// NumLess compares two numbers numerically (int/int exactly).
func NumLess(a, b Value) bool {
	if a.K == KInt && b.K == KInt {
		return a.I < b.I
	}
	return toF(a) < toF(b)
}

// NumEq compares two numbers numerically.
func NumEq(a, b Value) bool {
	if a.K == KInt && b.K == KInt {
		return a.I == b.I
	}
	return toF(a) == toF(b)
}

func toF(v Value) float64 {
	if v.K == KInt {
		return float64(v.I)
	}
	return v.F
}

// ToInterface mirrors how values are handed to the host's formatter.
func ToInterface(v Value) interface{} {
	switch v.K {
	case KInt:
		return v.I
	case KFloat:
		return v.F
	case KString, KRegexp:
		return v.S
	case KBool:
		return v.B
	case KArray:
		out := make([]interface{}, len(v.A))
		for i, e := range v.A {
			out[i] = ToInterface(e)
		}
		return out
	case KHash:
		return "<HASH>"
	}
	return nil
}

// SortedBy reports the order key used by sort/reverse.
func sortKey(v Value, fold bool) string {
	s := v.Inspect()
	if fold {
		s = strings.ToLower(s)
	}
	return s
}

// Builtin applies a built-in function as the README documents it.
func (m *Machine) Builtin(name string, a []Value) (Value, error) {
	switch name {
	case "between":
		if len(a) != 3 || !isNum(a[0]) || !isNum(a[1]) || !isNum(a[2]) {
			return Null(), nil
		}
		return Bool(!NumLess(a[0], a[1]) && !NumLess(a[2], a[0])), nil
	case "min", "max":
		if len(a) != 2 {
			return Null(), nil
		}
		if !isNum(a[0]) || !isNum(a[1]) {
			return Null(), unspec("%s of non-numbers", name)
		}
		if NumEq(a[0], a[1]) {
			if a[0].K != a[1].K {
				return Null(), unspec("%s of equal numbers of different type", name)
			}
			return a[0], nil
		}
		if NumLess(a[0], a[1]) == (name == "min") {
			return a[0], nil
		}
		return a[1], nil
	case "float":
		if len(a) != 1 {
			return Null(), nil
		}
		f, err := strconv.ParseFloat(a[0].Inspect(), 64)
		if err != nil {
			return Null(), nil
		}
		return Float(f), nil
	case "int":
		if len(a) != 1 {
			return Null(), nil
		}
		if a[0].K == KFloat {
			m.Quirk = true // pinned: converts through the printed form
		}
		i, err := strconv.ParseInt(a[0].Inspect(), 10, 64)
		if err != nil {
			return Null(), nil
		}
		return Int(i), nil
	case "getenv":
		if len(a) != 1 {
			return Null(), nil
		}
		return Str(os.Getenv(a[0].Inspect())), nil
	case "join":
		if len(a) != 2 || a[0].K != KArray || a[1].K != KString {
			return Null(), nil
		}
		parts := make([]string, len(a[0].A))
		for i, e := range a[0].A {
			parts[i] = e.Inspect()
		}
		return Str(strings.Join(parts, a[1].S)), nil
	case "keys":
		if len(a) != 1 || a[0].K != KHash {
			return Null(), nil
		}
		if a[0].HasKeyTies() {
			return Null(), unspec("keys of a hash whose keys print alike")
		}
		out := Array()
		for _, p := range a[0].SortedPairs() {
			out.A = append(out.A, p.K)
		}
		return out, nil
	case "len":
		if len(a) != 1 {
			return Null(), nil
		}
		switch a[0].K {
		case KArray:
			return Int(int64(len(a[0].A))), nil
		case KHash:
			return Int(int64(len(a[0].H))), nil
		}
		return Int(int64(utf8.RuneCountInString(a[0].Inspect()))), nil
	case "lower":
		if len(a) != 1 {
			return Null(), nil
		}
		return Str(strings.ToLower(a[0].Inspect())), nil
	case "upper":
		if len(a) != 1 {
			return Null(), nil
		}
		return Str(strings.ToUpper(a[0].Inspect())), nil
	case "trim":
		if len(a) != 1 {
			return Null(), nil
		}
		return Str(strings.TrimSpace(a[0].Inspect())), nil
	case "string":
		if len(a) != 1 {
			return Null(), nil
		}
		return Str(a[0].Inspect()), nil
	case "type":
		if len(a) != 1 {
			return Null(), nil
		}
		return Str(strings.ToLower(a[0].Type())), nil
	case "match":
		if len(a) != 2 {
			return Bool(false), nil
		}
		if a[0].K != KString || a[1].K != KRegexp {
			m.Quirk = true // pinned: both arguments are taken by printed form
		}
		return Bool(m.regexpMatch(a[0].Inspect(), a[1].Inspect())), nil
	case "replace":
		if len(a) != 3 {
			return Null(), nil
		}
		if a[0].K != KString || a[1].K != KRegexp || a[2].K != KString {
			m.Quirk = true // pinned: arguments are taken by printed form
		}
		r, err := compileRe(a[1].Inspect())
		if err != nil {
			m.Quirk = true // pinned: false for an invalid pattern
			return Bool(false), nil
		}
		return Str(string(r.ReplaceAll([]byte(a[0].Inspect()), []byte(a[2].Inspect())))), nil
	case "sort", "reverse":
		if len(a) != 1 && len(a) != 2 {
			return Null(), nil
		}
		if a[0].K != KArray {
			return Null(), nil
		}
		fold := false
		if len(a) == 2 {
			if a[1].K != KBool {
				return Null(), nil
			}
			fold = a[1].B
		}
		out := a[0].Copy()
		// ties between elements that differ are ordered arbitrarily by the
		// engine: such inputs leave the specified part for exact comparison
		seen := map[string]string{}
		for _, e := range out.A {
			k := sortKey(e, fold)
			if d, ok := seen[k]; ok && d != e.Describe() {
				return Null(), unspec("sort with tied keys of different values")
			}
			seen[k] = e.Describe()
		}
		sort.SliceStable(out.A, func(i, j int) bool {
			ki, kj := sortKey(out.A[i], fold), sortKey(out.A[j], fold)
			if name == "reverse" {
				return kj < ki
			}
			return ki < kj
		})
		return out, nil
	case "split":
		if len(a) != 2 || a[0].K != KString || a[1].K != KString {
			return Null(), nil
		}
		out := Array()
		for _, p := range strings.Split(a[0].S, a[1].S) {
			out.A = append(out.A, Str(p))
		}
		return out, nil
	case "sprintf":
		if len(a) < 1 || a[0].K != KString {
			return Null(), nil
		}
		args := make([]interface{}, len(a)-1)
		for i, v := range a[1:] {
			args[i] = ToInterface(v)
		}
		return Str(fmt.Sprintf(a[0].S, args...)), nil
	case "print", "printf":
		return Void(), nil
	case "panic":
		return Null(), rtErr("panic")
	case "now", "time":
		return Null(), unspec("clock")
	case "hour", "minute", "seconds", "day", "month", "year", "weekday":
		if len(a) != 1 || a[0].K != KInt {
			return Null(), nil
		}
		ts := time.Unix(a[0].I, 0).In(m.Loc)
		h, mi, s := ts.Clock()
		y, mo, d := ts.Date()
		switch name {
		case "hour":
			return Int(int64(h)), nil
		case "minute":
			return Int(int64(mi)), nil
		case "seconds":
			return Int(int64(s)), nil
		case "day":
			return Int(int64(d)), nil
		case "month":
			return Int(int64(mo)), nil
		case "year":
			return Int(int64(y)), nil
		}
		return Str(ts.Weekday().String()), nil
	}
	return Null(), rtErr("unknown builtin %s", name)
}
