package lang

import (
	"fmt"
	"math"
	"regexp"
	"strings"
	"time"
	"unicode/utf8"
)

// ErrKind classifies how a model run ended abnormally.
type ErrKind int

const (
	// ErrRuntime: the language defines this run to end with an error.
	ErrRuntime ErrKind = iota
	// ErrBudget: the step budget of the model was exhausted (case is discarded).
	ErrBudget
	// ErrUnspec: the run left the part of the language this model defines
	// (the case is accepted whatever the engine does, and counted).
	ErrUnspec
)

// RunErr is the error type of the model.
type RunErr struct {
	Kind ErrKind
	Msg  string
}

func (e *RunErr) Error() string { return e.Msg }

func rtErr(f string, a ...interface{}) *RunErr {
	return &RunErr{ErrRuntime, fmt.Sprintf(f, a...)}
}
func unspec(f string, a ...interface{}) *RunErr {
	return &RunErr{ErrUnspec, fmt.Sprintf(f, a...)}
}

// IsKind reports whether err is a RunErr of kind k.
func IsKind(err error, k ErrKind) bool {
	r, ok := err.(*RunErr)
	return ok && r.Kind == k
}

// HostFn is a function the host adds; it may return Void().
type HostFn func(m *Machine, args []Value) (Value, error)

// Stats counts what a run did (used for non-triviality rules).
type Stats struct {
	Branches     int // if / else-if / switch / ternary decisions
	BranchInLoop int // of which inside a loop body or switch arm
	LoopIters    int
	Calls        int // user function calls
	HostCalls    int
	BuiltinCalls int
	BinOps       int // binary operators applied to two computed operands
	ShadowCalls  int // calls whose callee bound a name live elsewhere
	LoopReturns  int // returns from inside a loop
	MaxDepth     int
}

type scope struct {
	vars  map[string]Value
	frame int
}

// Machine is the reference interpreter.
type Machine struct {
	Globals  map[string]Value
	Fields   map[string]Value
	Host     map[string]HostFn
	Funcs    map[string]*FuncDef
	Trace    []string
	MaxSteps int
	Steps    int
	Quirk    bool // a behaviour pinned from the implementation contributed
	// Soft: the run left the specified part at a point where the model can
	// still follow the engine; the run is completed and reported unspecified.
	Soft  string
	Loc   *time.Location
	Stats Stats

	alloc    int
	scopes   []scope
	frame    int
	nframe   int
	loopNest int
	armNest  int
}

// NewMachine creates an interpreter with empty state.
func NewMachine() *Machine {
	return &Machine{
		Globals:  map[string]Value{},
		Fields:   map[string]Value{},
		Host:     map[string]HostFn{},
		Funcs:    map[string]*FuncDef{},
		MaxSteps: 20000,
		Loc:      time.UTC,
	}
}

type ctl int

const (
	ctlNone ctl = iota
	ctlReturn
)

func (m *Machine) step() error {
	m.Steps++
	if m.Steps > m.MaxSteps {
		return &RunErr{ErrBudget, "step budget exhausted"}
	}
	return nil
}

// Declare collects the function definitions of a program (functions may be
// called before their definition).
func (m *Machine) Declare(p *Program) {
	var walk func(ss []Stmt)
	walk = func(ss []Stmt) {
		for _, s := range ss {
			switch x := s.(type) {
			case FuncDef:
				ff := x
				m.Funcs[x.N] = &ff
				walk(x.Body)
			case If:
				walk(x.Then)
				walk(x.Else)
				for e := x.ElseIf; e != nil; e = e.ElseIf {
					walk(e.Then)
					walk(e.Else)
				}
			case While:
				walk(x.Body)
			case Foreach:
				walk(x.Body)
			case Switch:
				for _, c := range x.Cases {
					walk(c.Body)
				}
			}
		}
	}
	walk(p.Stmts)
}

// Run executes a program: result value (Null when running off the end).
func (m *Machine) Run(p *Program) (Value, error) {
	m.Declare(p)
	m.alloc = 0
	m.scopes = nil
	m.frame = 0
	m.loopNest, m.armNest = 0, 0
	m.Soft = ""
	c, v, err := m.execBlock(p.Stmts)
	m.scopes = nil
	if err != nil {
		if m.Soft != "" && !(IsKind(err, ErrUnspec) && strings.HasPrefix(err.Error(), "resource:")) && !IsKind(err, ErrBudget) {
			return Null(), unspec("%s", m.Soft)
		}
		return Null(), err
	}
	if m.Soft != "" {
		return Null(), unspec("%s", m.Soft)
	}
	if c == ctlReturn {
		if v.K == KVoid {
			return Null(), rtErr("return of a value-less call")
		}
		return v, nil
	}
	return Null(), nil
}

// Eval evaluates one expression in the machine's current state.
func (m *Machine) Eval(e Expr) (Value, error) {
	v, err := m.eval(e)
	if err != nil {
		return Null(), err
	}
	if v.K == KVoid {
		return Null(), rtErr("value-less call used as a value")
	}
	return v, nil
}

func (m *Machine) execBlock(ss []Stmt) (ctl, Value, error) {
	for _, s := range ss {
		c, v, err := m.exec(s)
		if err != nil || c != ctlNone {
			return c, v, err
		}
	}
	return ctlNone, Null(), nil
}

// lookup resolves a name: locals (innermost first), globals, fields, null.
func (m *Machine) lookup(name string) (Value, error) {
	name = strings.TrimPrefix(name, "$")
	for i := len(m.scopes) - 1; i >= 0; i-- {
		if v, ok := m.scopes[i].vars[name]; ok {
			if m.scopes[i].frame != m.frame && m.Soft == "" {
				// outside what the language text fixes; the run goes on with the
				// dynamic lookup (so that resource hazards further on are still
				// seen) and is reported as unspecified at the end
				m.Soft = fmt.Sprintf("callee reads a caller's local %q", name)
			}
			return v, nil
		}
	}
	if v, ok := m.Globals[name]; ok {
		return v, nil
	}
	if v, ok := m.Fields[name]; ok {
		return v, nil
	}
	return Null(), nil
}

// set assigns: innermost existing local, else global.
func (m *Machine) set(name string, v Value) error {
	for i := len(m.scopes) - 1; i >= 0; i-- {
		if _, ok := m.scopes[i].vars[name]; ok {
			if m.scopes[i].frame != m.frame && m.Soft == "" {
				m.Soft = fmt.Sprintf("callee writes a caller's local %q", name)
			}
			m.scopes[i].vars[name] = v
			return nil
		}
	}
	m.Globals[name] = v
	return nil
}

func (m *Machine) liveElsewhere(name string) bool {
	for i := len(m.scopes) - 1; i >= 0; i-- {
		if _, ok := m.scopes[i].vars[name]; ok {
			return true
		}
	}
	_, ok := m.Globals[name]
	return ok
}

func (m *Machine) needValue(e Expr) (Value, error) {
	v, err := m.eval(e)
	if err != nil {
		return v, err
	}
	if v.K == KVoid {
		return v, rtErr("value-less call used as a value")
	}
	return v, nil
}

func (m *Machine) exec(s Stmt) (ctl, Value, error) {
	if err := m.step(); err != nil {
		return ctlNone, Null(), err
	}
	switch x := s.(type) {
	case Assign:
		v, err := m.needValue(x.X)
		if err != nil {
			return ctlNone, Null(), err
		}
		return ctlNone, Null(), m.set(x.N, v)
	case Compound:
		l, err := m.lookup(x.N)
		if err != nil {
			return ctlNone, Null(), err
		}
		r, err := m.needValue(x.X)
		if err != nil {
			return ctlNone, Null(), err
		}
		v, err := m.BinOp(x.Op, l, r)
		if err != nil {
			return ctlNone, Null(), err
		}
		return ctlNone, Null(), m.set(x.N, v)
	case IncDec:
		l, err := m.lookup(x.N)
		if err != nil {
			return ctlNone, Null(), err
		}
		d := int64(1)
		if x.Op == "--" {
			d = -1
		}
		switch l.K {
		case KInt:
			return ctlNone, Null(), m.set(strings.TrimPrefix(x.N, "$"), Int(l.I+d))
		case KFloat:
			return ctlNone, Null(), m.set(strings.TrimPrefix(x.N, "$"), Float(l.F+float64(d)))
		}
		return ctlNone, Null(), rtErr("%s on %s", x.Op, l.Type())
	case ExprStmt:
		_, err := m.eval(x.X) // a void result is fine here
		return ctlNone, Null(), err
	case If:
		return m.execIf(&x)
	case While:
		for {
			if err := m.step(); err != nil {
				return ctlNone, Null(), err
			}
			c, err := m.needValue(x.C)
			if err != nil {
				return ctlNone, Null(), err
			}
			if !c.Truth() {
				return ctlNone, Null(), nil
			}
			m.Stats.LoopIters++
			m.loopNest++
			cc, v, err := m.execBlock(x.Body)
			m.loopNest--
			if err != nil {
				return ctlNone, Null(), err
			}
			if cc == ctlReturn {
				m.Stats.LoopReturns++
				return cc, v, nil
			}
		}
	case Foreach:
		it, err := m.needValue(x.Iter)
		if err != nil {
			return ctlNone, Null(), err
		}
		var idxs, vals []Value
		switch it.K {
		case KArray:
			for i, e := range it.A {
				idxs = append(idxs, Int(int64(i)))
				vals = append(vals, e)
			}
		case KString:
			i := 0
			for _, r := range it.S {
				idxs = append(idxs, Int(int64(i)))
				vals = append(vals, Str(string(r)))
				i++
			}
		case KHash:
			if it.HasKeyTies() {
				return ctlNone, Null(), unspec("iteration over a hash whose keys print alike")
			}
			for _, p := range it.SortedPairs() {
				idxs = append(idxs, p.K)
				vals = append(vals, p.V)
			}
		default:
			return ctlNone, Null(), rtErr("%s is not iterable", it.Type())
		}
		m.scopes = append(m.scopes, scope{vars: map[string]Value{}, frame: m.frame})
		depth := len(m.scopes)
		for i := range vals {
			if err := m.step(); err != nil {
				return ctlNone, Null(), err
			}
			sc := m.scopes[depth-1].vars
			sc[x.Var] = vals[i]
			if x.Idx != "" {
				sc[x.Idx] = idxs[i]
			}
			m.Stats.LoopIters++
			m.loopNest++
			cc, v, err := m.execBlock(x.Body)
			m.loopNest--
			if err != nil {
				return ctlNone, Null(), err
			}
			if cc == ctlReturn {
				m.Stats.LoopReturns++
				m.scopes = m.scopes[:depth-1]
				return cc, v, nil
			}
		}
		m.scopes = m.scopes[:depth-1]
		return ctlNone, Null(), nil
	case Switch:
		var deflt *Case
		for i := range x.Cases {
			c := &x.Cases[i]
			if c.Default {
				deflt = c
				continue
			}
			for _, ce := range c.Exprs {
				subj, err := m.needValue(x.Subj)
				if err != nil {
					return ctlNone, Null(), err
				}
				cv, err := m.needValue(ce)
				if err != nil {
					return ctlNone, Null(), err
				}
				hit := false
				if cv.K == subj.K && cv.Inspect() == subj.Inspect() {
					hit = true
				} else if cv.K == KRegexp {
					if subj.K != KString {
						m.Quirk = true // non-strings are matched by printed form
					}
					hit = m.regexpMatch(subj.Inspect(), cv.S)
				}
				m.Stats.Branches++
				if m.loopNest > 0 || m.armNest > 0 {
					m.Stats.BranchInLoop++
				}
				if hit {
					m.armNest++
					cc, v, err := m.execBlock(c.Body)
					m.armNest--
					return cc, v, err
				}
			}
		}
		if deflt != nil {
			m.armNest++
			cc, v, err := m.execBlock(deflt.Body)
			m.armNest--
			return cc, v, err
		}
		return ctlNone, Null(), nil
	case Return:
		v, err := m.eval(x.X)
		if err != nil {
			return ctlNone, Null(), err
		}
		if v.K == KVoid {
			return ctlNone, Null(), rtErr("return of a value-less call")
		}
		return ctlReturn, v, nil
	case Local:
		if len(m.scopes) == 0 {
			return ctlNone, Null(), unspec("local outside a function")
		}
		m.scopes[len(m.scopes)-1].vars[x.N] = Null()
		return ctlNone, Null(), nil
	case FuncDef:
		return ctlNone, Null(), nil
	}
	panic(fmt.Sprintf("exec: unknown statement %T", s))
}

func (m *Machine) execIf(x *If) (ctl, Value, error) {
	c, err := m.needValue(x.C)
	if err != nil {
		return ctlNone, Null(), err
	}
	m.Stats.Branches++
	if m.loopNest > 0 || m.armNest > 0 {
		m.Stats.BranchInLoop++
	}
	if c.Truth() {
		return m.execBlock(x.Then)
	}
	if x.ElseIf != nil {
		if err := m.step(); err != nil {
			return ctlNone, Null(), err
		}
		return m.execIf(x.ElseIf)
	}
	if x.Else != nil {
		return m.execBlock(x.Else)
	}
	return ctlNone, Null(), nil
}

func (m *Machine) eval(e Expr) (Value, error) {
	if err := m.step(); err != nil {
		return Null(), err
	}
	switch x := e.(type) {
	case Lit:
		return x.V, nil
	case Paren:
		return m.eval(x.X)
	case Name:
		return m.lookup(x.N)
	case Unary:
		v, err := m.needValue(x.X)
		if err != nil {
			return Null(), err
		}
		return m.UnOp(x.Op, v)
	case Binary:
		l, err := m.needValue(x.L)
		if err != nil {
			return Null(), err
		}
		if x.Op == "&&" || x.Op == "||" {
			// The engine evaluates both operands. Whether the right one is
			// evaluated when the left one decides is left open by the language
			// text: if it matters (error or host call on the right) the case
			// leaves the specified part.
			decided := (x.Op == "&&" && !l.Truth()) || (x.Op == "||" && l.Truth())
			nTrace := len(m.Trace)
			r, err := m.needValue(x.R)
			if decided && (err != nil || len(m.Trace) != nTrace) {
				if err != nil && !IsKind(err, ErrRuntime) {
					return Null(), err
				}
				return Null(), unspec("right operand of a decided %s errs or calls the host", x.Op)
			}
			if err != nil {
				return Null(), err
			}
			m.Stats.BinOps++
			return m.BinOp(x.Op, l, r)
		}
		r, err := m.needValue(x.R)
		if err != nil {
			return Null(), err
		}
		if _, ok := x.L.(Lit); !ok {
			m.Stats.BinOps++
		} else if _, ok := x.R.(Lit); !ok {
			m.Stats.BinOps++
		} else {
			m.Stats.BinOps++
		}
		return m.BinOp(x.Op, l, r)
	case Index:
		l, err := m.needValue(x.X)
		if err != nil {
			return Null(), err
		}
		i, err := m.needValue(x.I)
		if err != nil {
			return Null(), err
		}
		return m.IndexOp(l, i)
	case Dot:
		l, err := m.needValue(x.X)
		if err != nil {
			return Null(), err
		}
		return m.IndexOp(l, Str(x.N))
	case Ternary:
		c, err := m.needValue(x.C)
		if err != nil {
			return Null(), err
		}
		m.Stats.Branches++
		if m.loopNest > 0 || m.armNest > 0 {
			m.Stats.BranchInLoop++
		}
		if c.Truth() {
			return m.needValue(x.A)
		}
		return m.needValue(x.B)
	case ArrayLit:
		out := make([]Value, 0, len(x.Elems))
		for _, el := range x.Elems {
			v, err := m.needValue(el)
			if err != nil {
				return Null(), err
			}
			out = append(out, v)
			m.alloc += 1 + len(v.A)
			if m.alloc > MaxAlloc {
				return Null(), unspec("resource: the run builds more than %d container elements", MaxAlloc)
			}
		}
		arr := Array(out...)
		if arr.TreeSize(MaxTree) > MaxTree {
			return Null(), unspec("resource: the run builds a value of more than %d nodes", MaxTree)
		}
		return arr, nil
	case HashLit:
		// The engine evaluates the pairs in the order of their key texts, not
		// in written order. If any pair needs more memory than a host has, the
		// whole literal is a resource case whatever fails first in written order.
		if len(x.Keys) > 1 {
			saved := len(m.Trace)
			for i := range x.Keys {
				for _, sub := range []Expr{x.Keys[i], x.Vals[i]} {
					if _, err := m.needValue(sub); err != nil && IsKind(err, ErrUnspec) && strings.HasPrefix(err.Error(), "resource:") {
						return Null(), err
					} else if err != nil && IsKind(err, ErrBudget) {
						return Null(), err
					}
				}
			}
			m.Trace = m.Trace[:saved]
		}
		h := Hash()
		nTrace := len(m.Trace)
		for i := range x.Keys {
			k, err := m.needValue(x.Keys[i])
			if err != nil {
				return Null(), err
			}
			v, err := m.needValue(x.Vals[i])
			if err != nil {
				return Null(), err
			}
			if !k.Hashable() {
				return Null(), rtErr("unusable as hash key: %s", k.Type())
			}
			if _, dup := h.Lookup(k); dup {
				return Null(), unspec("duplicate hash key")
			}
			h.H = append(h.H, Pair{k, v})
		}
		if len(m.Trace) != nTrace && len(x.Keys) > 1 {
			return Null(), unspec("host calls inside a hash literal (evaluation order is open)")
		}
		if h.TreeSize(MaxTree) > MaxTree {
			return Null(), unspec("resource: the run builds a value of more than %d nodes", MaxTree)
		}
		return h, nil
	case Call:
		return m.call(x)
	}
	panic(fmt.Sprintf("eval: unknown expression %T", e))
}

func (m *Machine) call(x Call) (Value, error) {
	args := make([]Value, 0, len(x.Args))
	for _, a := range x.Args {
		v, err := m.needValue(a)
		if err != nil {
			return Null(), err
		}
		args = append(args, v)
	}
	if h, ok := m.Host[x.Fn]; ok {
		m.Stats.HostCalls++
		return h(m, args)
	}
	if IsBuiltin(x.Fn) {
		m.Stats.BuiltinCalls++
		return m.Builtin(x.Fn, args)
	}
	f, ok := m.Funcs[x.Fn]
	if !ok {
		return Null(), rtErr("the function %s does not exist", x.Fn)
	}
	if len(f.Params) != len(args) {
		return Null(), rtErr("argument count mismatch for %s", x.Fn)
	}
	m.Stats.Calls++
	shadow := false
	for _, p := range f.Params {
		if m.liveElsewhere(p) {
			shadow = true
		}
	}
	oldFrame, oldLoop, oldArm := m.frame, m.loopNest, m.armNest
	m.nframe++
	m.frame = m.nframe
	m.loopNest, m.armNest = 0, 0
	sc := scope{vars: map[string]Value{}, frame: m.frame}
	for i, p := range f.Params {
		sc.vars[p] = args[i]
	}
	m.scopes = append(m.scopes, sc)
	depth := len(m.scopes)
	if depth > m.Stats.MaxDepth {
		m.Stats.MaxDepth = depth
	}
	if depth > 200 {
		return Null(), &RunErr{ErrBudget, "call depth budget exhausted"}
	}
	lr := m.Stats.LoopReturns
	c, v, err := m.execBlock(f.Body)
	m.scopes = m.scopes[:depth-1]
	m.frame, m.loopNest, m.armNest = oldFrame, oldLoop, oldArm
	if err != nil {
		return Null(), err
	}
	if shadow || m.Stats.LoopReturns != lr {
		m.Stats.ShadowCalls++
	}
	if c == ctlReturn {
		return v, nil
	}
	return Void(), nil
}

// ---- operators ----

// UnOp applies a prefix operator.
func (m *Machine) UnOp(op string, v Value) (Value, error) {
	switch op {
	case "-":
		switch v.K {
		case KInt:
			return Int(-v.I), nil
		case KFloat:
			return Float(-v.F), nil
		}
		return Null(), rtErr("negation of %s", v.Type())
	case "!":
		switch v.K {
		case KBool:
			return Bool(!v.B), nil
		case KNull:
			return Bool(true), nil
		}
		return Bool(false), nil
	case "√":
		switch v.K {
		case KInt:
			return Float(math.Sqrt(float64(v.I))), nil
		case KFloat:
			return Float(math.Sqrt(v.F)), nil
		}
		return Null(), rtErr("square root of %s", v.Type())
	}
	return Null(), rtErr("unknown prefix operator %s", op)
}

func cmpOp(op string, c int) bool {
	switch op {
	case "<":
		return c < 0
	case "<=":
		return c <= 0
	case ">":
		return c > 0
	case ">=":
		return c >= 0
	case "==":
		return c == 0
	case "!=":
		return c != 0
	}
	panic("cmpOp")
}

func isCmp(op string) bool {
	switch op {
	case "<", "<=", ">", ">=", "==", "!=":
		return true
	}
	return false
}

func floatCmp(op string, a, b float64) bool {
	switch op {
	case "<":
		return a < b
	case "<=":
		return a <= b
	case ">":
		return a > b
	case ">=":
		return a >= b
	case "==":
		return a == b
	case "!=":
		return a != b
	}
	panic("floatCmp")
}

// BinOp applies an infix operator (not "..", index or ".").
func (m *Machine) BinOp(op string, l, r Value) (Value, error) {
	if op == ".." {
		return m.RangeOp(l, r)
	}
	if op == "&&" {
		return Bool(l.Truth() && r.Truth()), nil
	}
	if op == "||" {
		return Bool(l.Truth() || r.Truth()), nil
	}
	num := func(v Value) bool { return v.K == KInt || v.K == KFloat }
	switch {
	case l.K == KInt && r.K == KInt:
		a, b := l.I, r.I
		switch op {
		case "+":
			return Int(a + b), nil
		case "-":
			return Int(a - b), nil
		case "*":
			return Int(a * b), nil
		case "/":
			if b == 0 {
				return Null(), rtErr("division by zero")
			}
			return Int(a / b), nil
		case "%":
			if b == 0 {
				return Null(), rtErr("modulo by zero")
			}
			if b == -1 {
				return Int(0), nil
			}
			return Int(a % b), nil
		case "**":
			p := math.Pow(float64(a), float64(b))
			if b < 0 {
				m.Quirk = true
			}
			if math.IsNaN(p) || math.Abs(p) > 9007199254740992 {
				return Null(), unspec("integer power beyond exact range")
			}
			return Int(int64(p)), nil
		}
		if isCmp(op) {
			c := 0
			if a < b {
				c = -1
			} else if a > b {
				c = 1
			}
			return Bool(cmpOp(op, c)), nil
		}
		return Null(), rtErr("unknown operator INTEGER %s INTEGER", op)
	case num(l) && num(r):
		var a, b float64
		if l.K == KInt {
			a = float64(l.I)
		} else {
			a = l.F
		}
		if r.K == KInt {
			b = float64(r.I)
		} else {
			b = r.F
		}
		switch op {
		case "+":
			return Float(a + b), nil
		case "-":
			return Float(a - b), nil
		case "*":
			return Float(a * b), nil
		case "/":
			if b == 0 {
				return Null(), rtErr("division by zero")
			}
			return Float(a / b), nil
		case "%":
			// pinned: operands truncated to integers first
			m.Quirk = true
			if math.IsNaN(a) || math.IsNaN(b) || math.Abs(a) > 4e18 || math.Abs(b) > 4e18 {
				return Null(), unspec("float modulo beyond integer range")
			}
			ia, ib := int64(a), int64(b)
			if ib == 0 {
				return Null(), rtErr("modulo by zero")
			}
			if ib == -1 {
				return Float(0), nil
			}
			return Float(float64(ia % ib)), nil
		case "**":
			return Float(math.Pow(a, b)), nil
		}
		if isCmp(op) {
			return Bool(floatCmp(op, a, b)), nil
		}
		return Null(), rtErr("unknown operator %s %s %s", l.Type(), op, r.Type())
	case l.K == KString && r.K == KString:
		return m.stringOp(op, l.S, r.S)
	case l.K == KString && r.K == KRegexp:
		switch op {
		case "~=":
			return Bool(m.regexpMatch(l.S, r.S)), nil
		case "!~":
			return Bool(!m.regexpMatch(l.S, r.S)), nil
		}
		return Null(), rtErr("unknown operator STRING %s REGEXP", op)
	case op == "in":
		if r.K != KArray {
			return Null(), rtErr("operand for 'in' must be an array, not %s", r.Type())
		}
		for _, e := range r.A {
			if e.K == l.K && e.Inspect() == l.Inspect() {
				return Bool(true), nil
			}
		}
		return Bool(false), nil
	case l.K == KBool && r.K == KBool:
		switch op {
		case "==":
			return Bool(l.B == r.B), nil
		case "!=":
			return Bool(l.B != r.B), nil
		case "<", "<=", ">", ">=", "+":
			// pinned: booleans are compared / concatenated as the words
			m.Quirk = true
			return m.stringOp(op, l.Inspect(), r.Inspect())
		}
		return Null(), rtErr("unknown operator BOOLEAN %s BOOLEAN", op)
	case l.K == r.K && (op == "==" || op == "!="):
		// null/array/hash/regexp compared like-with-like: the statement allows
		// it, the engine rejects it. Either is accepted.
		return Null(), unspec("%s %s %s", l.Type(), op, r.Type())
	}
	return Null(), rtErr("operator %s not defined for %s and %s", op, l.Type(), r.Type())
}

func (m *Machine) stringOp(op string, a, b string) (Value, error) {
	switch op {
	case "+":
		if len(a)+len(b) > 1<<16 {
			return Null(), unspec("resource: string grows beyond 64 KiB")
		}
		return Str(a + b), nil
	case "in":
		return Bool(strings.Contains(b, a)), nil
	}
	if isCmp(op) {
		return Bool(cmpOp(op, strings.Compare(a, b))), nil
	}
	return Null(), rtErr("unknown operator STRING %s STRING", op)
}

// MaxRange bounds the size of a range the model is willing to build.
const MaxRange = 20000

// MaxTree bounds the size of a single value written out as a tree (values
// built from copies of themselves double with every step).
const MaxTree = 20000

// MaxAlloc bounds the container elements a single model run may create.
const MaxAlloc = 200000

// RangeOp builds the inclusive integer range.
func (m *Machine) RangeOp(l, r Value) (Value, error) {
	if l.K != KInt || r.K != KInt {
		return Null(), rtErr("range bounds must be integers")
	}
	if l.I > r.I {
		return Null(), rtErr("the start of a range must not exceed the end")
	}
	if r.I-l.I < 0 || r.I-l.I >= MaxRange {
		return Null(), unspec("resource: range too large")
	}
	m.alloc += int(r.I - l.I + 1)
	if m.alloc > MaxAlloc {
		return Null(), unspec("resource: the run builds more than %d container elements", MaxAlloc)
	}
	out := make([]Value, 0, r.I-l.I+1)
	for i := l.I; ; i++ {
		out = append(out, Int(i))
		if i == r.I {
			break
		}
	}
	return Array(out...), nil
}

// IndexOp is x[i].
func (m *Machine) IndexOp(l, i Value) (Value, error) {
	switch l.K {
	case KHash:
		if !i.Hashable() {
			return Null(), rtErr("unusable as hash key: %s", i.Type())
		}
		v, _ := l.Lookup(i)
		return v, nil
	case KArray:
		if i.K != KInt {
			return Null(), rtErr("index must be an integer, not %s", i.Type())
		}
		if i.I < 0 || i.I >= int64(len(l.A)) {
			return Null(), nil
		}
		return l.A[i.I], nil
	case KString:
		if i.K != KInt {
			return Null(), rtErr("index must be an integer, not %s", i.Type())
		}
		if !utf8.ValidString(l.S) {
			return Null(), unspec("index into invalid UTF-8")
		}
		rs := []rune(l.S)
		if i.I < 0 || i.I >= int64(len(rs)) {
			return Null(), nil
		}
		return Str(string(rs[i.I])), nil
	}
	return Null(), rtErr("the index operator cannot be applied to %s", l.Type())
}

var reCache = map[string]*regexp.Regexp{}

func compileRe(p string) (*regexp.Regexp, error) {
	if r, ok := reCache[p]; ok {
		return r, nil
	}
	r, err := regexp.Compile(p)
	if err != nil {
		return nil, err
	}
	reCache[p] = r
	return r, nil
}

// regexpMatch tests s against the pattern. The engine tests each line of s
// after trimming white space; where that differs from testing s as a whole
// the result is pinned (quirk).
func (m *Machine) regexpMatch(s, pat string) bool {
	r, err := compileRe(pat)
	if err != nil {
		m.Quirk = true // pinned: an invalid pattern matches nothing
		return false
	}
	plain := r.MatchString(s)
	line := false
	for _, ln := range strings.Split(s, "\n") {
		if r.MatchString(strings.TrimSpace(ln)) {
			line = true
			break
		}
	}
	if plain != line {
		m.Quirk = true
	}
	return line
}
