// Package eng adapts the repository under test to the harness: value
// conversion, host-object construction and a uniform way to run a script.
package eng

import (
	"context"
	"errors"
	"fmt"
	"reflect"
	"sort"
	"strings"
	"time"

	evalfilter "github.com/skx/evalfilter/v2"
	"github.com/skx/evalfilter/v2/object"

	"verif/harness/lang"
)

// ToObject builds a freshly allocated engine object for a model value.
func ToObject(v lang.Value) object.Object {
	switch v.K {
	case lang.KNull:
		return &object.Null{}
	case lang.KInt:
		return &object.Integer{Value: v.I}
	case lang.KFloat:
		return &object.Float{Value: v.F}
	case lang.KString:
		return &object.String{Value: v.S}
	case lang.KBool:
		return &object.Boolean{Value: v.B}
	case lang.KRegexp:
		return &object.Regexp{Value: v.S}
	case lang.KVoid:
		return &object.Void{}
	case lang.KArray:
		el := make([]object.Object, len(v.A))
		for i, e := range v.A {
			el[i] = ToObject(e)
		}
		return &object.Array{Elements: el}
	case lang.KHash:
		pairs := map[object.HashKey]object.HashPair{}
		for _, p := range v.H {
			k := ToObject(p.K)
			pairs[k.(object.Hashable).HashKey()] = object.HashPair{Key: k, Value: ToObject(p.V)}
		}
		return &object.Hash{Pairs: pairs}
	}
	panic("ToObject: unknown kind")
}

// FromObject converts an engine object to a model value. A Go nil maps to
// a value of kind -1 so that callers can flag it.
func FromObject(o object.Object) (lang.Value, error) {
	budget := MaxNodes
	return fromObject(o, &budget)
}

// MaxNodes bounds the conversion of one engine value: the engine shares
// structure between containers, so a small object graph can be an
// astronomically large tree.
const MaxNodes = 400000

// ErrTooBig is returned by FromObject for values beyond MaxNodes.
var ErrTooBig = fmt.Errorf("value too large to convert (more than %d nodes as a tree)", MaxNodes)

func fromObject(o object.Object, budget *int) (lang.Value, error) {
	*budget--
	if *budget < 0 {
		return lang.Null(), ErrTooBig
	}
	if o == nil || (reflect.ValueOf(o).Kind() == reflect.Ptr && reflect.ValueOf(o).IsNil()) {
		return lang.Null(), fmt.Errorf("engine produced a nil object")
	}
	switch x := o.(type) {
	case *object.Null:
		return lang.Null(), nil
	case *object.Integer:
		return lang.Int(x.Value), nil
	case *object.Float:
		return lang.Float(x.Value), nil
	case *object.String:
		return lang.Str(x.Value), nil
	case *object.Boolean:
		return lang.Bool(x.Value), nil
	case *object.Regexp:
		return lang.Regexp(x.Value), nil
	case *object.Void:
		return lang.Void(), nil
	case *object.Array:
		out := lang.Array()
		for _, e := range x.Elements {
			v, err := fromObject(e, budget)
			if err != nil {
				return lang.Null(), err
			}
			out.A = append(out.A, v)
		}
		return out, nil
	case *object.Hash:
		out := lang.Hash()
		// deterministic order: by printed key then type
		type kv struct{ k, v lang.Value }
		var ents []kv
		for _, p := range x.Pairs {
			k, err := fromObject(p.Key, budget)
			if err != nil {
				return lang.Null(), err
			}
			v, err := fromObject(p.Value, budget)
			if err != nil {
				return lang.Null(), err
			}
			ents = append(ents, kv{k, v})
		}
		sort.Slice(ents, func(i, j int) bool {
			a, b := ents[i].k.Inspect(), ents[j].k.Inspect()
			if a != b {
				return a < b
			}
			return ents[i].k.Type() < ents[j].k.Type()
		})
		for _, e := range ents {
			out.H = append(out.H, lang.Pair{K: e.k, V: e.v})
		}
		return out, nil
	}
	return lang.Null(), fmt.Errorf("engine produced an object of unknown type %T", o)
}

// ---- host objects ----

// Field describes one field of a host object.
type Field struct {
	Name string     `json:"name"`
	Go   string     `json:"go"` // Go type used to hold it (see goType); "" = natural
	V    lang.Value `json:"v"`
}

// ObjSpec describes a host object reproducibly.
type ObjSpec struct {
	Mode   string  `json:"mode"` // "map", "struct", "ptr", "nil"
	Fields []Field `json:"fields"`
}

// Fix restores floats after JSON decoding.
func (o *ObjSpec) Fix() {
	if o == nil {
		return
	}
	for i := range o.Fields {
		o.Fields[i].V.Fix()
	}
}

// ModelFields returns what the script should see.
func (o *ObjSpec) ModelFields() map[string]lang.Value {
	out := map[string]lang.Value{}
	if o == nil {
		return out
	}
	for _, f := range o.Fields {
		out[f.Name] = f.V
	}
	return out
}

// NaturalGo converts a value to the Go value a JSON-like document holds.
// Only values a host object can carry: int, float, string, bool, null,
// arrays of scalars, hashes with string keys.
func NaturalGo(v lang.Value) interface{} {
	switch v.K {
	case lang.KNull:
		return nil
	case lang.KInt:
		return int(v.I)
	case lang.KFloat:
		return v.F
	case lang.KString:
		return v.S
	case lang.KBool:
		return v.B
	case lang.KArray:
		out := make([]interface{}, len(v.A))
		for i, e := range v.A {
			out[i] = NaturalGo(e)
		}
		return out
	case lang.KHash:
		out := map[string]interface{}{}
		for _, p := range v.H {
			out[p.K.S] = NaturalGo(p.V)
		}
		return out
	}
	panic("NaturalGo: value cannot live in a host object: " + v.Describe())
}

// FieldOK reports whether a value can be carried by a host object field
// without loss (top = it is the field itself, not nested in a container).
func FieldOK(v lang.Value, inArray bool) bool {
	switch v.K {
	case lang.KInt, lang.KFloat, lang.KString, lang.KBool:
		return true
	case lang.KNull:
		return !inArray
	case lang.KArray:
		if inArray {
			return false
		}
		for _, e := range v.A {
			if !FieldOK(e, true) || e.K == lang.KNull {
				return false
			}
		}
		return true
	case lang.KHash:
		if inArray {
			return false
		}
		for _, p := range v.H {
			if p.K.K != lang.KString || !FieldOK(p.V, false) {
				return false
			}
		}
		return true
	}
	return false
}

var timeType = reflect.TypeOf(time.Time{})

func structFieldType(f Field) reflect.Type {
	switch f.Go {
	case "int":
		return reflect.TypeOf(int(0))
	case "int64":
		return reflect.TypeOf(int64(0))
	case "float32":
		return reflect.TypeOf(float32(0))
	case "float64":
		return reflect.TypeOf(float64(0))
	case "time":
		return timeType
	}
	switch f.V.K {
	case lang.KInt:
		return reflect.TypeOf(int64(0))
	case lang.KFloat:
		return reflect.TypeOf(float64(0))
	case lang.KString:
		return reflect.TypeOf("")
	case lang.KBool:
		return reflect.TypeOf(false)
	case lang.KArray:
		return reflect.TypeOf([]interface{}{})
	case lang.KHash:
		return reflect.TypeOf(map[string]interface{}{})
	}
	return nil
}

// Build constructs the Go object.
func (o *ObjSpec) Build() interface{} {
	if o == nil || o.Mode == "nil" {
		return nil
	}
	if o.Mode == "map" {
		m := map[string]interface{}{}
		for _, f := range o.Fields {
			m[f.Name] = goValue(f)
		}
		return m
	}
	var sf []reflect.StructField
	var vals []interface{}
	for _, f := range o.Fields {
		t := structFieldType(f)
		if t == nil {
			continue // null cannot live in a struct field; treated as absent
		}
		sf = append(sf, reflect.StructField{Name: f.Name, Type: t})
		vals = append(vals, goValue(f))
	}
	st := reflect.StructOf(sf)
	pv := reflect.New(st)
	for i, v := range vals {
		pv.Elem().Field(i).Set(reflect.ValueOf(v).Convert(sf[i].Type))
	}
	if o.Mode == "ptr" {
		return pv.Interface()
	}
	return pv.Elem().Interface()
}

// StructOK reports whether every field can live in a struct.
func (o *ObjSpec) StructOK() bool {
	for _, f := range o.Fields {
		if f.V.K == lang.KNull {
			return false
		}
		if len(f.Name) == 0 || !(f.Name[0] >= 'A' && f.Name[0] <= 'Z') {
			return false
		}
	}
	return true
}

func goValue(f Field) interface{} {
	switch f.Go {
	case "int":
		return int(f.V.I)
	case "int64":
		return f.V.I
	case "float32":
		return float32(f.V.F)
	case "float64":
		return f.V.F
	case "time":
		return TimeOf(f.V.I)
	}
	if f.V.K == lang.KInt {
		return f.V.I
	}
	return NaturalGo(f.V)
}

// ---- running ----

// HostCall is one recorded call of a host function.
type Result struct {
	PrepareErr error
	Err        error
	Panic      interface{} // a panic that escaped the API call
	NilObject  bool
	TooBig     bool // the result or a variable could not be converted (ErrTooBig)
	Val        lang.Value
	Raw        object.Object `json:"-"` // the object the engine returned
	Trace      []string
	Globals    map[string]lang.Value // after the run (hook); nil if unavailable
	Drift      string                // arguments kept by a host function that changed afterwards
	ScopeDepth int                   // open scopes after the run (hook)
	StackDepth int                   // entries left on the value stack (hook)
}

// Runner wraps one evaluator together with its trace recorder.
type Runner struct {
	E     *evalfilter.Eval
	Trace []string
	kept  []keptCall
}

// keptCall: what a host function was handed, kept the way a host may keep it
// (the slice and the objects themselves), with what it said at the time.
type keptCall struct {
	args []object.Object
	desc string
	what string
}

func describeArgs(args []object.Object) string {
	parts := make([]string, len(args))
	for i, a := range args {
		if a == nil {
			parts[i] = "<nil>"
			continue
		}
		parts[i] = string(a.Type()) + ":" + a.Inspect()
	}
	return strings.Join(parts, ",")
}

func (r *Runner) keep(args []object.Object) {
	if len(r.kept) < 48 && len(args) > 0 {
		r.kept = append(r.kept, keptCall{args: args, desc: describeArgs(args), what: "a host function was called with"})
	}
}

// Give hands a variable to the evaluator the way a host does, and keeps the
// object: it is the host's, whatever the script does with the variable.
func (r *Runner) Give(name string, o object.Object) {
	r.E.SetVariable(name, o)
	if len(r.kept) < 64 && o != nil {
		r.kept = append(r.kept, keptCall{args: []object.Object{o}, desc: describeArgs([]object.Object{o}), what: "the host gave the variable " + name + " the object"})
	}
}

// Drift reports the first host-function call whose arguments, kept by the
// host, no longer read as they did when the call was made.
func (r *Runner) Drift() (s string) {
	defer func() {
		if p := recover(); p != nil {
			s = fmt.Sprintf("reading the arguments a host function was given panicked: %v", p)
		}
	}()
	for _, k := range r.kept {
		if now := describeArgs(k.args); now != k.desc {
			if len(now) > 300 {
				now = now[:300] + "..."
			}
			was := k.desc
			if len(was) > 300 {
				was = was[:300] + "..."
			}
			return fmt.Sprintf("%s (%s); the same object(s), kept by the host, later read (%s)", k.what, was, now)
		}
	}
	return ""
}

// NewRunner creates an evaluator for script with the standard host
// functions "trace" (value-less) and "id" (returns its argument).
func NewRunner(script string) *Runner {
	r := &Runner{E: evalfilter.New(script)}
	r.E.AddFunction("trace", func(args []object.Object) object.Object {
		parts := make([]string, len(args))
		for i, a := range args {
			parts[i] = string(a.Type()) + ":" + a.Inspect()
			if a.Type() == object.ARRAY || a.Type() == object.HASH {
				if v, err := FromObject(a); err == nil {
					parts[i] += "~" + v.Sig()
				}
			}
		}
		r.Trace = append(r.Trace, "trace("+strings.Join(parts, ",")+")")
		r.keep(args)
		// a host that takes the list of a hash's entries to put it into an
		// order of its own (for a report, say) works on a list that is its own
		for _, a := range args {
			// ... and one that builds a longer array from the members of one it
			// was given (append) writes to memory that belongs to nobody else
			if arr, ok := a.(*object.Array); ok && arr != nil && len(arr.Elements) > 0 {
				_ = append(arr.Elements, &object.String{Value: "appended by the host"})
			}
			if h, ok := a.(*object.Hash); ok && h != nil {
				es := h.Entries()
				for i, j := 0, len(es)-1; i < j; i, j = i+1, j-1 {
					es[i], es[j] = es[j], es[i]
				}
			}
		}
		return &object.Void{}
	})
	// walk(x, n): a host function that looks at its argument the way the
	// object package invites hosts to: through the Iterable interface, for n
	// entries (all of them when n < 0). It records nothing.
	r.E.AddFunction("walk", func(args []object.Object) object.Object {
		if len(args) != 2 {
			return &object.Null{}
		}
		it, ok := args[0].(object.Iterable)
		n, ok2 := args[1].(*object.Integer)
		if !ok || !ok2 {
			return &object.Null{}
		}
		it.Reset()
		seen := int64(0)
		for n.Value < 0 || seen < n.Value {
			if _, _, more := it.Next(); !more {
				break
			}
			seen++
		}
		return &object.Integer{Value: seen}
	})
	r.E.AddFunction("id", func(args []object.Object) object.Object {
		if len(args) != 1 {
			return &object.Null{}
		}
		r.Trace = append(r.Trace, "id("+string(args[0].Type())+":"+args[0].Inspect()+")")
		r.keep(args)
		return args[0]
	})
	return r
}

// ModelHost installs the same host functions into a model machine.
func ModelHost(m *lang.Machine) {
	m.Host["trace"] = func(m *lang.Machine, args []lang.Value) (lang.Value, error) {
		parts := make([]string, len(args))
		for i, a := range args {
			parts[i] = a.Describe()
		}
		m.Trace = append(m.Trace, "trace("+strings.Join(parts, ",")+")")
		return lang.Void(), nil
	}
	m.Host["id"] = func(m *lang.Machine, args []lang.Value) (lang.Value, error) {
		if len(args) != 1 {
			return lang.Null(), nil
		}
		m.Trace = append(m.Trace, "id("+args[0].Type()+":"+args[0].Inspect()+")")
		return args[0], nil
	}
}

// Prepare prepares the evaluator, catching panics.
func (r *Runner) Prepare(noOpt bool) (err error, pan interface{}) {
	defer func() {
		if p := recover(); p != nil {
			pan = p
		}
	}()
	if noOpt {
		err = r.E.Prepare([]byte{evalfilter.NoOptimize})
	} else {
		err = r.E.Prepare()
	}
	return
}

// Execute runs the script on obj, catching panics, converting the result.
func (r *Runner) Execute(obj interface{}) (res Result) {
	r.Trace = nil
	defer func() {
		if p := recover(); p != nil {
			res.Panic = p
		}
		res.Trace = r.Trace
		res.Drift = r.Drift()
		if res.Drift != "" && res.Panic == nil {
			// every comparison of results looks at Panic: no check can miss that
			// what the host kept was changed under it
			res.Panic = "(no panic, but as bad) " + res.Drift
		}
		func() {
			defer func() { _ = recover() }()
			var gerr error
			res.Globals, gerr = r.Globals()
			if gerr != nil {
				res.Globals = nil
				if errors.Is(gerr, ErrTooBig) {
					res.TooBig = true
				}
			}
			res.ScopeDepth = r.E.VerifScopeDepth()
			res.StackDepth = r.E.VerifStackDepth()
		}()
	}()
	out, err := r.E.Execute(obj)
	if err != nil {
		res.Err = err
		return
	}
	v, cerr := FromObject(out)
	if cerr == ErrTooBig {
		res.TooBig = true
		return
	}
	if cerr != nil {
		res.NilObject = true
		res.Err = cerr
		return
	}
	res.Val = v
	res.Raw = out
	// what a run returned is the host's from then on: later runs (on other
	// records) do not change it
	if len(r.kept) < 64 && out != nil {
		r.kept = append(r.kept, keptCall{args: []object.Object{out}, desc: describeArgs([]object.Object{out}), what: "an earlier run returned the object"})
	}
	return
}

// Globals returns the evaluator's global variables as model values (hook).
func (r *Runner) Globals() (map[string]lang.Value, error) {
	out := map[string]lang.Value{}
	for k, o := range r.E.VerifGlobals() {
		v, err := FromObject(o)
		if err != nil {
			return nil, fmt.Errorf("global %s: %w", k, err)
		}
		out[k] = v
	}
	return out, nil
}

// Quick runs script once on obj with a safety deadline.
func Quick(script string, obj interface{}, vars map[string]lang.Value, noOpt bool) Result {
	return QuickAfter(script, obj, vars, noOpt, nil)
}

// QuickAfter is Quick with something done to the prepared evaluator (earlier
// runs) before the run that is reported.
func QuickAfter(script string, obj interface{}, vars map[string]lang.Value, noOpt bool, before func(*Runner)) Result {
	r := NewRunner(script)
	ctx, cancel := context.WithTimeout(context.Background(), 20*time.Second)
	defer cancel()
	r.E.SetContext(ctx)
	names := make([]string, 0, len(vars))
	for k := range vars {
		names = append(names, k)
	}
	sort.Strings(names)
	for _, k := range names {
		r.Give(k, ToObject(vars[k]))
	}
	err, pan := r.Prepare(noOpt)
	if pan != nil {
		return Result{Panic: pan}
	}
	if err != nil {
		return Result{PrepareErr: err}
	}
	if before != nil {
		before(r)
	}
	return r.Execute(obj)
}
