package eng

import (
	"fmt"
	"reflect"
	"time"

	"verif/harness/lang"
)

// GoField describes a host field by Go kind and by the model value it is
// built from. Supported reports whether the engine is documented to convert it.
type GoField struct {
	Name string     `json:"name"`
	Kind string     `json:"kind"`
	V    lang.Value `json:"v"`
}

// SupportedKinds are the field kinds the property promises to convert.
var SupportedKinds = []string{"int", "int64", "float32", "float64", "string", "bool", "time",
	"[]string", "[]bool", "[]float32", "[]float64", "[]int", "[]int32", "[]int64", "[]time", "[]interface", "map"}

// UnsupportedKinds are field kinds the engine cannot represent.
var UnsupportedKinds = []string{"uint", "uint8", "uint64", "int8", "int16", "int32", "complex128", "*int", "nil*int", "struct", "[2]int",
	"chan", "func", "iface", "nilerror", "map[string]string", "map[int]string", "uintptr"}

// LossyKinds: slices / maps whose elements are of unsupported kinds (only
// required not to crash).
var LossyKinds = []string{"[]uint", "[][]int", "[]map", "[]*int", "[]struct", "map-with-struct"}

type nested struct{ A int }

// IsSupported reports whether kind is in SupportedKinds.
func IsSupported(kind string) bool {
	for _, k := range SupportedKinds {
		if k == kind {
			return true
		}
	}
	return false
}

// ValueKindFor tells which model value kind feeds a Go kind.
func ValueKindFor(kind string) lang.Kind {
	switch kind {
	case "int", "int64", "time", "uint", "uint8", "uint64", "int8", "int16", "int32", "*int", "uintptr":
		return lang.KInt
	case "float32", "float64", "complex128":
		return lang.KFloat
	case "string":
		return lang.KString
	case "bool":
		return lang.KBool
	case "map":
		return lang.KHash
	}
	if len(kind) > 2 && kind[:2] == "[]" {
		return lang.KArray
	}
	return lang.KNull
}

// Expected is the model value a script must see for a supported field.
func (f GoField) Expected() lang.Value {
	switch f.Kind {
	case "float32":
		return lang.Float(float64(float32(f.V.F)))
	case "[]float32":
		out := lang.Array()
		for _, e := range f.V.A {
			out.A = append(out.A, lang.Float(float64(float32(e.F))))
		}
		return out
	}
	return f.V
}

// GoValue builds the Go value of the field and its static type.
func (f GoField) GoValue() (reflect.Type, reflect.Value) {
	mk := func(v interface{}) (reflect.Type, reflect.Value) {
		return reflect.TypeOf(v), reflect.ValueOf(v)
	}
	ints := func() []int64 {
		out := make([]int64, len(f.V.A))
		for i, e := range f.V.A {
			out[i] = e.I
		}
		return out
	}
	switch f.Kind {
	case "int":
		return mk(int(f.V.I))
	case "int64":
		return mk(f.V.I)
	case "float32":
		return mk(float32(f.V.F))
	case "float64":
		return mk(f.V.F)
	case "string":
		return mk(f.V.S)
	case "bool":
		return mk(f.V.B)
	case "time":
		return mk(TimeOf(f.V.I))
	case "[]string":
		out := make([]string, len(f.V.A))
		for i, e := range f.V.A {
			out[i] = e.S
		}
		if len(out) == 0 && f.V.I == 1 {
			out = nil
		}
		return mk(out)
	case "[]bool":
		out := make([]bool, len(f.V.A))
		for i, e := range f.V.A {
			out[i] = e.B
		}
		return mk(out)
	case "[]float32":
		out := make([]float32, len(f.V.A))
		for i, e := range f.V.A {
			out[i] = float32(e.F)
		}
		return mk(out)
	case "[]float64":
		out := make([]float64, len(f.V.A))
		for i, e := range f.V.A {
			out[i] = e.F
		}
		return mk(out)
	case "[]int":
		out := make([]int, len(f.V.A))
		for i, e := range ints() {
			out[i] = int(e)
		}
		if len(out) == 0 && f.V.I == 1 {
			out = nil
		}
		return mk(out)
	case "[]int32":
		out := make([]int32, len(f.V.A))
		for i, e := range ints() {
			out[i] = int32(e)
		}
		return mk(out)
	case "[]int64":
		return mk(ints())
	case "[]time":
		out := make([]time.Time, len(f.V.A))
		for i, e := range ints() {
			out[i] = TimeOf(e)
		}
		return mk(out)
	case "[]interface":
		out := make([]interface{}, len(f.V.A))
		for i, e := range f.V.A {
			out[i] = NaturalGo(e)
		}
		return mk(out)
	case "map":
		m := NaturalGo(f.V).(map[string]interface{})
		if len(m) == 0 && f.V.I == 1 {
			m = nil
		}
		return mk(m)
	// ---- unsupported ----
	case "uint":
		return mk(uint(f.V.I))
	case "uint8":
		return mk(uint8(f.V.I))
	case "uint64":
		return mk(uint64(f.V.I))
	case "uintptr":
		return mk(uintptr(f.V.I))
	case "int8":
		return mk(int8(f.V.I))
	case "int16":
		return mk(int16(f.V.I))
	case "int32":
		return mk(int32(f.V.I))
	case "complex128":
		return mk(complex(f.V.F, 1))
	case "*int":
		i := int(f.V.I)
		return mk(&i)
	case "nil*int":
		var p *int
		return mk(p)
	case "struct":
		return mk(nested{A: 3})
	case "[2]int":
		return mk([2]int{1, 2})
	case "chan":
		return mk(make(chan int))
	case "func":
		return mk(func() {})
	case "iface":
		var x interface{} = uint(7)
		return reflect.TypeOf(&x).Elem(), reflect.ValueOf(&x).Elem()
	case "nilerror":
		var e error
		return reflect.TypeOf(&e).Elem(), reflect.ValueOf(&e).Elem()
	case "map[string]string":
		return mk(map[string]string{"a": "b"})
	case "map[int]string":
		return mk(map[int]string{1: "b"})
	// ---- lossy ----
	case "[]uint":
		return mk([]uint{1, 2})
	case "[][]int":
		return mk([][]int{{1}, {2, 3}})
	case "[]map":
		return mk([]map[string]interface{}{{"a": 1}})
	case "[]*int":
		i := 4
		return mk([]*int{&i, nil})
	case "[]struct":
		return mk([]nested{{1}, {2}})
	case "map-with-struct":
		return mk(map[string]interface{}{"s": nested{1}, "n": 5, "u": uint(3), "l": []interface{}{nested{2}, nil, 1}})
	}
	panic("GoValue: unknown kind " + f.Kind)
}

// GoObjSpec describes a struct (by value or pointer) or map object.
type GoObjSpec struct {
	Mode   string    `json:"mode"` // "struct", "ptr", "map", "mapptr"
	Fields []GoField `json:"fields"`
}

// Fix restores floats after JSON decoding.
func (o *GoObjSpec) Fix() {
	for i := range o.Fields {
		o.Fields[i].V.Fix()
	}
}

// Build constructs the object.
func (o *GoObjSpec) Build() (obj interface{}, err error) {
	defer func() {
		if p := recover(); p != nil {
			err = fmt.Errorf("harness cannot build the object: %v", p)
		}
	}()
	if o.Mode == "map" || o.Mode == "mapptr" {
		m := map[string]interface{}{}
		for _, f := range o.Fields {
			_, v := f.GoValue()
			if v.Kind() == reflect.Interface && v.IsNil() {
				m[f.Name] = nil
			} else {
				m[f.Name] = v.Interface()
			}
		}
		if o.Mode == "mapptr" {
			return &m, nil
		}
		return m, nil
	}
	var sf []reflect.StructField
	var vals []reflect.Value
	for _, f := range o.Fields {
		t, v := f.GoValue()
		sf = append(sf, reflect.StructField{Name: f.Name, Type: t})
		vals = append(vals, v)
	}
	pv := reflect.New(reflect.StructOf(sf))
	for i, v := range vals {
		pv.Elem().Field(i).Set(v)
	}
	if o.Mode == "ptr" {
		return pv.Interface(), nil
	}
	return pv.Elem().Interface(), nil
}

// TimeOf builds the instant a host hands over for the Unix second sec. The
// property fixes only the second; the part below a second and the zone the
// value carries are the host's business, so they vary (as a pure function of
// sec, which keeps replays exact): none, one nanosecond, the last nanosecond
// of the second or any other, in UTC, the local zone or a fixed offset.
func TimeOf(sec int64) time.Time {
	if sec == -62135596800 {
		return time.Time{} // the instant a host has never set
	}
	h := uint64(sec) * 0x9E3779B97F4A7C15
	var nsec int64
	switch h >> 61 {
	case 0, 1:
		nsec = 0
	case 2:
		nsec = 1
	case 3:
		nsec = 999999999
	default:
		nsec = int64((h >> 8) % 1000000000)
	}
	t := time.Unix(sec, nsec)
	switch (h >> 56) & 7 {
	case 0, 1:
		t = t.UTC()
	case 2:
		t = t.In(time.FixedZone("east", 5*3600+1800))
	case 3:
		t = t.In(time.FixedZone("west", -11*3600))
	}
	if t.Unix() != sec {
		return time.Unix(sec, 0) // beyond what the host's type can carry with a fraction
	}
	return t
}
