module verif/harness

go 1.23

require (
	github.com/skx/evalfilter/v2 v2.0.0
	pgregory.net/rapid v1.3.0
)

replace github.com/skx/evalfilter/v2 => /repo
