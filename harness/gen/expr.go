package gen

import (
	"math"
	"pgregory.net/rapid"

	"verif/harness/lang"
)

// Binding is a named value visible to a script, and where it comes from.
type Binding struct {
	Name string
	V    lang.Value
	From string // "field", "setvar", "assign"
}

// ExprEnv is what expression generators may refer to.
type ExprEnv struct {
	Names []Binding
	// NoSqrtFold replaces √ of a constant-foldable integer operand by √ of
	// the equal float (known finding: the optimizer folds it to an INTEGER).
	NoSqrtFold      bool
	SqrtFoldAvoided *int
	Ternary         bool // allow non-nested ternaries
	Calls           bool // allow calls of pure built-ins
}

func (e *ExprEnv) namesOf(k lang.Kind) []Binding {
	var out []Binding
	for _, b := range e.Names {
		if b.V.K == k {
			out = append(out, b)
		}
	}
	return out
}

// Foldable reports whether the optimizer could fold e into one inline
// integer push (integer literals 0..65534 combined by + - * /).
func Foldable(e lang.Expr) bool {
	switch x := e.(type) {
	case lang.Lit:
		return x.V.K == lang.KInt && x.V.I >= 0 && x.V.I <= 65534
	case lang.Paren:
		return Foldable(x.X)
	case lang.Binary:
		switch x.Op {
		case "+", "-", "*", "/":
			return Foldable(x.L) && Foldable(x.R)
		}
	case lang.Unary:
		if x.Op == "√" {
			return Foldable(x.X)
		}
	}
	return false
}

// constValue computes what the optimizer would fold e to: ok is false when e
// is not foldable, divides by zero, or leaves the inline range 0..65534 on
// the way (then the optimizer leaves the operation alone).
func constValue(e lang.Expr) (int64, bool) {
	switch x := e.(type) {
	case lang.Lit:
		if x.V.K == lang.KInt && x.V.I >= 0 && x.V.I <= 65534 {
			return x.V.I, true
		}
	case lang.Paren:
		return constValue(x.X)
	case lang.Binary:
		l, ok1 := constValue(x.L)
		r, ok2 := constValue(x.R)
		if !ok1 || !ok2 {
			return 0, false
		}
		var v int64
		switch x.Op {
		case "+":
			v = l + r
		case "-":
			v = l - r
		case "*":
			v = l * r
		case "/":
			if r == 0 {
				return 0, false
			}
			v = l / r
		default:
			return 0, false
		}
		if v < 0 || v > 65534 {
			return 0, false
		}
		return v, true
	}
	return 0, false
}

// FoldsToSquare reports whether the operand of a square root is a constant
// the optimizer folds AND a perfect square: the shape of the open finding
// C03-sqrt-fold (the root becomes an INTEGER). Roots of other constants are
// not part of that finding and are generated.
func FoldsToSquare(e lang.Expr) bool {
	if u, ok := e.(lang.Unary); ok && u.Op == "√" {
		return Foldable(u) // a root of a root: keep away (the inner one may fold)
	}
	v, ok := constValue(e)
	if !ok {
		// not computed here (a nested root, a range left and re-entered):
		// anything the optimizer might still fold is kept away from
		return Foldable(e) && hasOutOfRangeStep(e)
	}
	r := int64(math.Sqrt(float64(v)))
	for r*r > v {
		r--
	}
	for (r+1)*(r+1) <= v {
		r++
	}
	return r*r == v
}

// hasOutOfRangeStep: a foldable tree whose value constValue could not follow.
func hasOutOfRangeStep(e lang.Expr) bool {
	_, ok := constValue(e)
	return !ok
}

var arithOps = []string{"+", "-", "*", "/", "%", "**"}
var cmpOps = []string{"<", "<=", ">", ">=", "==", "!="}
var allBinOps = []string{"+", "-", "*", "/", "%", "**", "<", "<=", ">", ">=", "==", "!=", "~=", "!~", "&&", "||", "in", ".."}

func litOf(t *rapid.T, k lang.Kind, label string) lang.Expr {
	switch k {
	case lang.KInt:
		v := Int(t, label)
		if v == -9223372036854775808 {
			v++
		}
		return lang.Lit{V: lang.Int(v)}
	case lang.KFloat:
		return lang.Lit{V: lang.Float(Float(t, label))}
	case lang.KString:
		return lang.Lit{V: lang.Str(Text(t, label))}
	case lang.KBool:
		return lang.Lit{V: lang.Bool(rapid.Bool().Draw(t, label))}
	case lang.KRegexp:
		for {
			p := RegexpPat(t, label)
			if LiteralOK(lang.Regexp(p)) {
				return lang.Lit{V: lang.Regexp(p)}
			}
		}
	case lang.KNull:
		return lang.Name{N: lang.NullName}
	}
	panic("litOf")
}

// Leaf draws a literal or a bound name of kind k.
func (e *ExprEnv) Leaf(t *rapid.T, k lang.Kind) lang.Expr {
	ns := e.namesOf(k)
	if len(ns) > 0 && Uniform(t, "leafname", 3) > 0 {
		return lang.Name{N: rapid.SampledFrom(ns).Draw(t, "name").Name}
	}
	switch k {
	case lang.KArray:
		v := ArrayValue(t, "arrlit", ValueOpts{Depth: 1})
		if !LiteralOK(v) {
			v = lang.Array(lang.Int(1), lang.Str("a"))
		}
		return lang.ValueExpr(v)
	case lang.KHash:
		v := HashValue(t, "hashlit", ValueOpts{Depth: 1, NoKeyTies: true})
		if !LiteralOK(v) {
			v = lang.Hash()
		}
		return lang.ValueExpr(v)
	}
	return litOf(t, k, "lit")
}

var scalarKinds = []lang.Kind{lang.KInt, lang.KFloat, lang.KString, lang.KBool, lang.KNull}
var allKinds = []lang.Kind{lang.KInt, lang.KInt, lang.KFloat, lang.KString, lang.KString, lang.KBool, lang.KNull, lang.KArray, lang.KHash, lang.KRegexp}

// Expr draws an expression that is likely (not certain) to evaluate to a
// value of kind k. depth bounds the nesting.
func (e *ExprEnv) Expr(t *rapid.T, k lang.Kind, depth int) lang.Expr {
	if depth <= 0 {
		return e.Leaf(t, k)
	}
	c := Uniform(t, "prod", 100)
	if c < 12 {
		return e.Leaf(t, k)
	}
	if c < 18 {
		// anything goes: an arbitrary operator over arbitrary kinds
		op := rapid.SampledFrom(allBinOps).Draw(t, "anyop")
		lk := rapid.SampledFrom(allKinds).Draw(t, "anylk")
		rk := rapid.SampledFrom(allKinds).Draw(t, "anyrk")
		if Uniform(t, "sameleaf", 4) == 0 {
			// one and the same literal (or name) on both sides: two loads of one
			// constant, of any kind
			l := e.Leaf(t, lk)
			return lang.Binary{Op: op, L: l, R: l}
		}
		return lang.Binary{Op: op, L: e.Expr(t, lk, depth-1), R: e.Expr(t, rk, depth-1)}
	}
	if e.Ternary && c < 24 {
		return lang.Ternary{C: e.noTernary().Expr(t, rapid.SampledFrom(allKinds).Draw(t, "tck"), depth-1),
			A: e.noTernary().Expr(t, k, depth-1), B: e.noTernary().Expr(t, k, depth-1)}
	}
	num := func() lang.Kind {
		if Uniform(t, "numk", 4) == 0 {
			return lang.KFloat
		}
		return lang.KInt
	}
	switch k {
	case lang.KInt:
		switch Uniform(t, "intprod", 8) {
		case 0, 1, 2, 3:
			op := rapid.SampledFrom(arithOps).Draw(t, "op")
			return lang.Binary{Op: op, L: e.Expr(t, lang.KInt, depth-1), R: e.Expr(t, lang.KInt, depth-1)}
		case 4:
			return lang.Unary{Op: "-", X: e.Expr(t, lang.KInt, depth-1)}
		case 5:
			return lang.Index{X: e.Expr(t, lang.KArray, depth-1), I: lang.Lit{V: lang.Int(rapid.Int64Range(-1, 4).Draw(t, "idx"))}}
		case 6:
			if e.Calls {
				return lang.Call{Fn: "len", Args: []lang.Expr{e.Expr(t, rapid.SampledFrom(allKinds).Draw(t, "lenk"), depth-1)}}
			}
		}
		return lang.Paren{X: e.Expr(t, lang.KInt, depth-1)}
	case lang.KFloat:
		switch Uniform(t, "floatprod", 7) {
		case 0, 1, 2:
			op := rapid.SampledFrom(arithOps).Draw(t, "op")
			lk, rk := lang.KFloat, num()
			if rapid.Bool().Draw(t, "swap") {
				lk, rk = rk, lk
			}
			return lang.Binary{Op: op, L: e.Expr(t, lk, depth-1), R: e.Expr(t, rk, depth-1)}
		case 3:
			return lang.Unary{Op: "-", X: e.Expr(t, lang.KFloat, depth-1)}
		case 4, 5:
			x := e.Expr(t, num(), depth-1)
			if e.NoSqrtFold && FoldsToSquare(x) {
				if e.SqrtFoldAvoided != nil {
					*e.SqrtFoldAvoided++
				}
				x = lang.Binary{Op: "+", L: x, R: lang.Lit{V: lang.Float(0)}}
			}
			return lang.Unary{Op: "√", X: x}
		}
		return lang.Paren{X: e.Expr(t, lang.KFloat, depth-1)}
	case lang.KString:
		switch Uniform(t, "strprod", 6) {
		case 0, 1, 2:
			return lang.Binary{Op: "+", L: e.Expr(t, lang.KString, depth-1), R: e.Expr(t, lang.KString, depth-1)}
		case 3:
			return lang.Index{X: e.Expr(t, lang.KString, depth-1), I: e.Expr(t, lang.KInt, 0)}
		case 4:
			if e.Calls {
				fn := rapid.SampledFrom([]string{"string", "lower", "upper", "trim", "type"}).Draw(t, "strfn")
				return lang.Call{Fn: fn, Args: []lang.Expr{e.Expr(t, rapid.SampledFrom(allKinds).Draw(t, "sk"), depth-1)}}
			}
		}
		return lang.Index{X: e.Expr(t, lang.KHash, depth-1), I: e.Leaf(t, lang.KString)}
	case lang.KBool:
		switch Uniform(t, "boolprod", 12) {
		case 0, 1:
			op := rapid.SampledFrom(cmpOps).Draw(t, "op")
			return lang.Binary{Op: op, L: e.Expr(t, lang.KInt, depth-1), R: e.Expr(t, lang.KInt, depth-1)}
		case 2:
			op := rapid.SampledFrom(cmpOps).Draw(t, "op")
			return lang.Binary{Op: op, L: e.Expr(t, num(), depth-1), R: e.Expr(t, num(), depth-1)}
		case 3, 4:
			op := rapid.SampledFrom(cmpOps).Draw(t, "op")
			return lang.Binary{Op: op, L: e.Expr(t, lang.KString, depth-1), R: e.Expr(t, lang.KString, depth-1)}
		case 5:
			op := rapid.SampledFrom([]string{"~=", "!~"}).Draw(t, "op")
			return lang.Binary{Op: op, L: e.Expr(t, lang.KString, depth-1), R: e.Leaf(t, lang.KRegexp)}
		case 6, 7:
			op := rapid.SampledFrom([]string{"&&", "||"}).Draw(t, "op")
			return lang.Binary{Op: op, L: e.Expr(t, rapid.SampledFrom(allKinds).Draw(t, "lk"), depth-1), R: e.Expr(t, rapid.SampledFrom(allKinds).Draw(t, "rk"), depth-1)}
		case 8:
			return lang.Unary{Op: "!", X: e.Expr(t, rapid.SampledFrom(allKinds).Draw(t, "bk"), depth-1)}
		case 9:
			return lang.Binary{Op: "in", L: e.Expr(t, rapid.SampledFrom(scalarKinds).Draw(t, "ink"), depth-1), R: e.Expr(t, lang.KArray, depth-1)}
		case 10:
			return lang.Binary{Op: "in", L: e.Expr(t, lang.KString, depth-1), R: e.Expr(t, lang.KString, depth-1)}
		}
		op := rapid.SampledFrom([]string{"==", "!="}).Draw(t, "op")
		return lang.Binary{Op: op, L: e.Expr(t, lang.KBool, depth-1), R: e.Expr(t, lang.KBool, depth-1)}
	case lang.KArray:
		switch Uniform(t, "arrprod", 4) {
		case 0:
			lo := rapid.Int64Range(-3, 5).Draw(t, "lo")
			hi := lo + rapid.Int64Range(-1, 6).Draw(t, "span")
			return lang.Binary{Op: "..", L: lang.Lit{V: lang.Int(lo)}, R: lang.Lit{V: lang.Int(hi)}}
		case 1:
			return lang.Binary{Op: "..", L: e.Expr(t, lang.KInt, 0), R: e.Expr(t, lang.KInt, 0)}
		}
		n := rapid.IntRange(0, 4).Draw(t, "n")
		el := make([]lang.Expr, n)
		for i := range el {
			el[i] = e.Expr(t, rapid.SampledFrom(allKinds).Draw(t, "ek"), depth-1)
		}
		return lang.ArrayLit{Elems: el}
	case lang.KHash:
		n := rapid.IntRange(0, 3).Draw(t, "n")
		h := lang.HashLit{}
		seen := map[string]bool{}
		for i := 0; i < n; i++ {
			kv := HashKey(t, "hk")
			if seen[kv.Inspect()] {
				continue
			}
			seen[kv.Inspect()] = true
			h.Keys = append(h.Keys, lang.ValueExpr(kv))
			h.Vals = append(h.Vals, e.Expr(t, rapid.SampledFrom(allKinds).Draw(t, "hvk"), depth-1))
		}
		return h
	}
	return e.Leaf(t, k)
}

func (e *ExprEnv) noTernary() *ExprEnv {
	c := *e
	c.Ternary = false
	return &c
}

// HasSqrtFold reports whether e contains a square root whose operand the
// optimizer could fold (known finding C03-sqrt-fold).
func HasSqrtFold(e lang.Expr) bool {
	switch x := e.(type) {
	case lang.Unary:
		if x.Op == "√" && FoldsToSquare(x.X) {
			return true
		}
		return HasSqrtFold(x.X)
	case lang.Binary:
		return HasSqrtFold(x.L) || HasSqrtFold(x.R)
	case lang.Paren:
		return HasSqrtFold(x.X)
	case lang.Index:
		return HasSqrtFold(x.X) || HasSqrtFold(x.I)
	case lang.Dot:
		return HasSqrtFold(x.X)
	case lang.Ternary:
		return HasSqrtFold(x.C) || HasSqrtFold(x.A) || HasSqrtFold(x.B)
	case lang.Call:
		for _, a := range x.Args {
			if HasSqrtFold(a) {
				return true
			}
		}
	case lang.ArrayLit:
		for _, a := range x.Elems {
			if HasSqrtFold(a) {
				return true
			}
		}
	}
	return false
}
