// Package gen holds the rapid generators shared by the property checks.
package gen

import (
	"math"
	"strings"
	"unicode/utf8"

	"pgregory.net/rapid"

	"verif/harness/lang"
)

// BoundaryInts are the integers every integer generator is biased to.
var BoundaryInts = []int64{0, 1, -1, 2, 3, 7, 10, 24, 255, 256, 65533, 65534, 65535, 65536, 70000,
	-2147483648, 2147483647, 2147483648, 9007199254740991, 9007199254740993, -9007199254740993,
	math.MaxInt64, math.MinInt64 + 1}

// BoundaryFloats are the floats every float generator is biased to.
var BoundaryFloats = []float64{0, 0.5, -0.5, 1, 1.5, 2.5, 3.0, -2.0, 65534.0, 65535.5, 0.1, 1e15, 1e-7, 123456.789}

// BoundaryStrings are the strings every string generator is biased to.
var BoundaryStrings = []string{"", "a", "b", "A", "abc", "ABC", "10", "9", " a ", "é", "狐犬", "a\nb", "true", "1.5", "a b c", "Steve", "x/y", `q"r`, `b\s`,
	"x\n ab", "ab \ny", "a\r\nb", "\n a", " b\n", "a\n\n b ", "\ta\n\tb", "caf\ufffd au", "\ufffd"}

// Uniform draws an integer in [0, n) with (nearly) equal probabilities.
// rapid's own integer generators are deliberately biased towards small
// values, which starves weighted choices; fair coin flips are not biased,
// and still shrink towards 0.
func Uniform(t *rapid.T, label string, n int) int {
	if n <= 1 {
		return 0
	}
	bits := 0
	for (1 << bits) < n {
		bits++
	}
	bits += 3 // reduce the modulo skew
	v := 0
	for i := 0; i < bits; i++ {
		v <<= 1
		if rapid.Bool().Draw(t, label) {
			v |= 1
		}
	}
	return v % n
}

// Int draws an integer: boundary value or random (small or full range).
func Int(t *rapid.T, label string) int64 {
	switch rapid.IntRange(0, 9).Draw(t, label+"_cls") {
	case 0, 1, 2:
		return rapid.SampledFrom(BoundaryInts).Draw(t, label)
	case 3, 4, 5, 6:
		return rapid.Int64Range(-20, 20).Draw(t, label)
	case 7, 8:
		return rapid.Int64Range(-100000, 100000).Draw(t, label)
	}
	return rapid.Int64Range(math.MinInt64+1, math.MaxInt64).Draw(t, label)
}

// SmallInt draws a small integer.
func SmallInt(t *rapid.T, label string) int64 {
	return rapid.Int64Range(-5, 12).Draw(t, label)
}

// Float draws a finite float.
func Float(t *rapid.T, label string) float64 {
	switch rapid.IntRange(0, 5).Draw(t, label+"_cls") {
	case 0, 1:
		return rapid.SampledFrom(BoundaryFloats).Draw(t, label)
	case 2, 3:
		// quarter steps: exactly representable
		return float64(rapid.Int64Range(-400, 400).Draw(t, label)) / 4
	case 4:
		return float64(rapid.Int64Range(-100000, 100000).Draw(t, label)) / 1000
	}
	f := rapid.Float64Range(-1e12, 1e12).Draw(t, label)
	if math.IsNaN(f) || math.IsInf(f, 0) {
		return 0
	}
	return f
}

var runePool = []rune("abcxyzABC019 _-.,é狐犬ß\n\t\r\ufffd  ")

// exoticRunes: white space that is not ASCII (NBSP, ideographic space, line
// and paragraph separators, NEL, vertical tab, form feed), letters with
// special case mappings, combining marks, zero-width and direction marks, and
// characters of every UTF-8 length.
var exoticRunes = []rune("\u00a0\u3000\u2028\u2029\u0085\v\f\u2003\u1680\ufeff\u200b\u200d\u200fİıǅǆſẞΣςσÅÅ\u0301\u0308ﬁ𐐷𐐏😀\U0010ffff\u07ff\u0800\uffff\u007f\u0080aA z")

// Text draws a string free of NUL and of invalid UTF-8.
func Text(t *rapid.T, label string) string {
	switch rapid.IntRange(0, 5).Draw(t, label+"_cls") {
	case 0, 1:
		return rapid.SampledFrom(BoundaryStrings).Draw(t, label)
	case 5:
		return string(rapid.SliceOfN(rapid.SampledFrom(exoticRunes), 1, 6).Draw(t, label))
	}
	rs := rapid.SliceOfN(rapid.SampledFrom(runePool), 0, 8).Draw(t, label)
	return string(rs)
}

// Word draws a short lower/upper-case ASCII word.
func Word(t *rapid.T, label string) string {
	return rapid.StringMatching(`[a-cA-C]{0,4}`).Draw(t, label)
}

// SafeRegexps are valid patterns (spelled as full patterns, flags included).
var SafeRegexps = []string{"a", "^a", "^b", "a$", "b$", "^ab$", "a.", "b+", "abc$", "(?i)^a", "[0-9]+", "(?i)steve", "a|b", "^$", "x.y", `\.`, "(?im)^b", "狐"}

// RegexpPat draws a regexp pattern (mostly valid).
func RegexpPat(t *rapid.T, label string) string {
	if rapid.IntRange(0, 19).Draw(t, label+"_bad") == 0 {
		return rapid.SampledFrom([]string{"(", "a(", "[a", "*a"}).Draw(t, label)
	}
	if rapid.IntRange(0, 2).Draw(t, label+"_made") != 0 {
		return rapid.SampledFrom(SafeRegexps).Draw(t, label)
	}
	// a pattern made for the occasion: one of the bodies under any of the
	// flag spellings (so that one body meets several flag sets in a script and
	// in a process), now and then with one more alternative that is a literal
	// of its own - a process meets thousands of different patterns, and the
	// common ones again after them
	p := rapid.SampledFrom(regexpFlags).Draw(t, label+"_flags") + rapid.SampledFrom(regexpBodies).Draw(t, label+"_body")
	if rapid.Bool().Draw(t, label+"_tagged") {
		p += "|" + string(rapid.SliceOfN(rapid.SampledFrom([]rune("abcxyzABC0189_ é狐")), 2, 4).Draw(t, label+"_tag"))
	}
	return p
}

var regexpFlags = []string{"", "", "(?i)", "(?m)", "(?im)"}
var regexpBodies = []string{"a", "^a", "^b", "a$", "b$", "^ab$", "a.", "b+", "abc$", "[0-9]+", "steve", "a|b", "^$", "x.y", `\.`, "狐", "A", "^B", "=b", "a=", "é+", "a{2}", "b{1,3}c", "x{0}y", "ab{2,}"}

// Scalar draws a value of one of the given scalar kinds.
func Scalar(t *rapid.T, label string, kinds ...lang.Kind) lang.Value {
	if len(kinds) == 0 {
		kinds = []lang.Kind{lang.KInt, lang.KFloat, lang.KString, lang.KBool, lang.KNull}
	}
	switch rapid.SampledFrom(kinds).Draw(t, label+"_kind") {
	case lang.KInt:
		return lang.Int(Int(t, label))
	case lang.KFloat:
		return lang.Float(Float(t, label))
	case lang.KString:
		return lang.Str(Text(t, label))
	case lang.KBool:
		return lang.Bool(rapid.Bool().Draw(t, label))
	case lang.KRegexp:
		return lang.Regexp(RegexpPat(t, label))
	}
	return lang.Null()
}

// HashKey draws a hashable key.
func HashKey(t *rapid.T, label string) lang.Value {
	switch rapid.IntRange(0, 5).Draw(t, label+"_kk") {
	case 0, 1, 2:
		return lang.Str(rapid.SampledFrom([]string{"a", "b", "c", "Name", "k1", "k2", "1", "2.5", "é", "è", "ü", "д", "ж", "世", "中", "ab", "ba", "", "a ", "A",
			// pairs whose 32-bit FNV-1a values coincide (their 64-bit values do not)
			"costarring", "liquid", "declinate", "macallums", "altarage", "zinke", "altarages", "zinkes"}).Draw(t, label))
	case 3, 4:
		return lang.Int(rapid.Int64Range(-2, 6).Draw(t, label))
	}
	if rapid.IntRange(0, 3).Draw(t, label+"_near") == 0 {
		// floats that only differ beyond single precision
		return lang.Float(rapid.SampledFrom([]float64{0.3, 0.30000000000000004, 0.1 + 0.2, 16777216.0, 16777217.0, 1.0000001, 1.00000011, 2.5, 2.5000000001, 1e15, 1e15 + 1}).Draw(t, label))
	}
	return lang.Float(float64(rapid.Int64Range(-4, 12).Draw(t, label)) / 2)
}

// ValueOpts tunes Value.
type ValueOpts struct {
	Depth     int  // container nesting allowed
	Regexp    bool // allow regexp values
	FieldSafe bool // only values a host object can carry
	NoKeyTies bool // hashes never have two keys that print alike
	StringKey bool // hashes only have string keys
}

// Value draws a value of any kind.
func Value(t *rapid.T, label string, o ValueOpts) lang.Value {
	n := 7
	if o.Depth > 0 {
		n = 11
	}
	c := rapid.IntRange(0, n-1).Draw(t, label+"_k")
	switch {
	case c <= 1:
		return lang.Int(Int(t, label))
	case c == 2:
		return lang.Float(Float(t, label))
	case c <= 4:
		return lang.Str(Text(t, label))
	case c == 5:
		return lang.Bool(rapid.Bool().Draw(t, label))
	case c == 6:
		if o.Regexp && !o.FieldSafe && rapid.Bool().Draw(t, label+"_re") {
			return lang.Regexp(RegexpPat(t, label))
		}
		return lang.Null()
	case c <= 8:
		return ArrayValue(t, label, o)
	}
	return HashValue(t, label, o)
}

// ArrayValue draws an array.
func ArrayValue(t *rapid.T, label string, o ValueOpts) lang.Value {
	n := rapid.IntRange(0, 4).Draw(t, label+"_alen")
	out := lang.Array()
	sub := o
	sub.Depth = o.Depth - 1
	for i := 0; i < n; i++ {
		var e lang.Value
		if o.FieldSafe {
			e = Scalar(t, label+"_e", lang.KInt, lang.KFloat, lang.KString, lang.KBool)
		} else if sub.Depth > 0 {
			e = Value(t, label+"_e", sub)
		} else {
			so := sub
			so.Depth = 0
			e = Value(t, label+"_e", so)
		}
		out.A = append(out.A, e)
	}
	return out
}

// HashValue draws a hash without duplicate keys.
func HashValue(t *rapid.T, label string, o ValueOpts) lang.Value {
	n := rapid.IntRange(0, 3).Draw(t, label+"_hlen")
	out := lang.Hash()
	sub := o
	sub.Depth = o.Depth - 1
	if sub.Depth < 0 {
		sub.Depth = 0
	}
	seenPrint := map[string]bool{}
	for i := 0; i < n; i++ {
		var k lang.Value
		if o.FieldSafe || o.StringKey {
			k = lang.Str(rapid.SampledFrom([]string{"a", "b", "c", "Name", "k1", "é", "è", "世", "中", "ab"}).Draw(t, label+"_k"))
		} else {
			k = HashKey(t, label+"_k")
		}
		if _, dup := out.Lookup(k); dup {
			continue
		}
		if (o.NoKeyTies || o.FieldSafe) && seenPrint[k.Inspect()] {
			continue
		}
		seenPrint[k.Inspect()] = true
		v := Value(t, label+"_v", sub)
		if o.FieldSafe && !fieldSafeNested(v) {
			v = lang.Int(1)
		}
		out.H = append(out.H, lang.Pair{K: k, V: v})
	}
	return out
}

func fieldSafeNested(v lang.Value) bool {
	switch v.K {
	case lang.KArray:
		for _, e := range v.A {
			switch e.K {
			case lang.KInt, lang.KFloat, lang.KString, lang.KBool:
			default:
				return false
			}
		}
		return true
	case lang.KHash:
		for _, p := range v.H {
			if p.K.K != lang.KString || !fieldSafeNested(p.V) {
				return false
			}
		}
		return true
	case lang.KRegexp, lang.KVoid:
		return false
	}
	return true
}

// LiteralOK reports whether the value can be written as a literal
// expression (finite floats, NUL-free valid UTF-8 strings, no MinInt64).
func LiteralOK(v lang.Value) bool {
	switch v.K {
	case lang.KInt:
		return v.I != math.MinInt64
	case lang.KFloat:
		return !math.IsNaN(v.F) && !math.IsInf(v.F, 0)
	case lang.KString:
		return !strings.ContainsRune(v.S, 0) && utf8.ValidString(v.S)
	case lang.KRegexp:
		_, body := lang.SplitRegexp(v.S)
		return body != "" && !strings.ContainsRune(v.S, 0) && !strings.HasPrefix(body, "(?")
	case lang.KArray:
		for _, e := range v.A {
			if !LiteralOK(e) {
				return false
			}
		}
	case lang.KHash:
		for _, p := range v.H {
			if !LiteralOK(p.K) || !LiteralOK(p.V) {
				return false
			}
		}
	}
	return true
}
