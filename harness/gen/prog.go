package gen

import (
	"fmt"

	"pgregory.net/rapid"

	"verif/harness/lang"
)

// ProgOpts tunes the program generator.
type ProgOpts struct {
	Depth       int  // maximal nesting of blocks
	Block       int  // maximal statements per block
	Funcs       int  // maximal number of user functions (0 = none)
	Clash       bool // draw parameter/local/loop names from a pool shared with globals
	OptBias     bool // more constant arithmetic / constant conditions / expression statements
	IncDec      bool // use ++ / -- and compound assignments
	Ternary     bool
	Switch      bool
	EarlyRet    bool // returns anywhere
	ErrStmts    bool // occasionally a statement that fails at run time
	NoSqrtFold  bool
	BigInts     bool // integer literals around the inline limit
	PoolShift   bool // 0-40 dummy assignments first, so that names land on every constant-pool index
	StringIter  bool
	VoidOperand bool // now and then a value-less function is used as an operand (a run-time error)
}

// Input is the data a generated program runs against.
type Input struct {
	Fields []Binding // host object fields
	Vars   []Binding // SetVariable before Prepare
}

// Prog is a generated program with its inputs.
type Prog struct {
	P      *lang.Program
	In     Input
	NFuncs int
}

type fnInfo struct {
	name   string
	params []string
	recur  bool // first parameter is a decreasing depth counter
	void   bool
}

type pg struct {
	t      *rapid.T
	o      ProgOpts
	ints   []string // names holding integers (in scope)
	strs   []string
	arrs   []string // names holding arrays / iterables
	hashes []string
	conds  []string // names holding values of arbitrary type
	fns    []fnInfo
	nloop  int
	// needWalker: the program calls walkedby(), defined at its end
	needWalker bool
	inFunc     *fnInfo
	locals     []string // int-valued locals/params of the current function
	protect    map[string]bool
	cur        *fnInfo
}

func (g *pg) pick(label string, n int) int { return Uniform(g.t, label, n) }
func (g *pg) chance(label string, pct int) bool {
	return Uniform(g.t, label, 100) < pct
}

func (g *pg) intLit() lang.Expr {
	if g.o.BigInts && g.chance("big", 15) {
		return lang.Lit{V: lang.Int(rapid.SampledFrom([]int64{24, 255, 256, 65533, 65534, 65535, 65536, 70000, 4294967296}).Draw(g.t, "bigint"))}
	}
	return lang.Lit{V: lang.Int(rapid.Int64Range(0, 9).Draw(g.t, "int"))}
}

func (g *pg) intName() (string, bool) {
	pool := append(append([]string{}, g.ints...), g.locals...)
	if len(pool) == 0 {
		return "", false
	}
	return rapid.SampledFrom(pool).Draw(g.t, "intname"), true
}

// intExpr: an expression that normally evaluates to an integer.
func (g *pg) intExpr(depth int) lang.Expr {
	if depth <= 0 || g.chance("intleaf", 35) {
		if n, ok := g.intName(); ok && g.chance("usename", 60) {
			return lang.Name{N: n}
		}
		return g.intLit()
	}
	switch g.pick("intk", 10) {
	case 0, 1, 2:
		op := rapid.SampledFrom([]string{"+", "-", "*"}).Draw(g.t, "aop")
		return lang.Binary{Op: op, L: g.intExpr(depth - 1), R: g.intExpr(depth - 1)}
	case 3:
		op := rapid.SampledFrom([]string{"/", "%"}).Draw(g.t, "dop")
		return lang.Binary{Op: op, L: g.intExpr(depth - 1), R: lang.Lit{V: lang.Int(rapid.Int64Range(1, 5).Draw(g.t, "div"))}}
	case 4:
		if len(g.arrs) > 0 {
			return lang.Call{Fn: "len", Args: []lang.Expr{lang.Name{N: rapid.SampledFrom(g.arrs).Draw(g.t, "lenarr")}}}
		}
	case 5:
		if g.o.Ternary {
			return lang.Ternary{C: g.cond(depth - 1), A: g.intExpr(0), B: g.intExpr(0)}
		}
	case 6:
		if f, ok := g.callable(false); ok {
			return g.callOf(f, depth-1)
		}
	case 7:
		if g.o.OptBias && g.chance("floatchain", 20) {
			// small integer literals behind an operand that is not one of them
			// (a float where every bit counts, a name): nothing to work out in
			// advance, and what there is to work out goes from left to right
			var x lang.Expr = lang.Lit{V: lang.Float(rapid.SampledFrom([]float64{9007199254740992, 0.1, 0.001, 1e16}).Draw(g.t, "chainfloat"))}
			if n, ok := g.intName(); ok && g.chance("chainname", 40) {
				x = lang.Name{N: n}
			}
			op := rapid.SampledFrom([]string{"+", "*", "-"}).Draw(g.t, "chainop")
			for i := rapid.IntRange(2, 3).Draw(g.t, "chainlen"); i > 0; i-- {
				x = lang.Binary{Op: op, L: x, R: lang.Lit{V: lang.Int(rapid.Int64Range(0, 7).Draw(g.t, "chainlit"))}}
			}
			return x
		}
		if g.o.OptBias {
			// constant arithmetic the optimizer can fold (or must not fold:
			// negative and too-large intermediate results, any nesting shape)
			return ConstTree(g.t, rapid.IntRange(1, 3).Draw(g.t, "cdepth"))
		}
	case 8:
		if g.o.OptBias && g.chance("negatedtext", 12) {
			// a sign in front of something that has none: the error is the answer
			return lang.Binary{Op: rapid.SampledFrom([]string{"+", "-"}).Draw(g.t, "negop"), L: g.strExpr(0), R: lang.Unary{Op: "-", X: g.strExpr(0)}}
		}
		return lang.Unary{Op: "-", X: g.intExpr(depth - 1)}
	}
	return lang.Paren{X: g.intExpr(depth - 1)}
}

func (g *pg) strExpr(depth int) lang.Expr {
	if depth <= 0 || g.chance("strleaf", 50) {
		if len(g.strs) > 0 && g.chance("usestr", 50) {
			return lang.Name{N: rapid.SampledFrom(g.strs).Draw(g.t, "strname")}
		}
		return lang.Lit{V: lang.Str(rapid.SampledFrom([]string{"", "a", "b", "ab", "Re: x", "狐犬", "x y", "狐ab", "naïve", "é1", "a→b"}).Draw(g.t, "strlit"))}
	}
	switch g.pick("strk", 3) {
	case 0:
		return lang.Binary{Op: "+", L: g.strExpr(depth - 1), R: g.strExpr(depth - 1)}
	case 1:
		return lang.Call{Fn: "string", Args: []lang.Expr{g.intExpr(depth - 1)}}
	}
	return lang.Binary{Op: "+", L: g.strExpr(depth - 1), R: lang.Lit{V: lang.Str("-")}}
}

// cond: an expression used in a truth-consuming position.
func (g *pg) cond(depth int) lang.Expr {
	if g.o.OptBias && g.chance("constcond", 25) {
		switch g.pick("cck", 7) {
		case 5, 6:
			// one literal of any kind on both sides of any comparison: two
			// loads of one constant
			lits := []lang.Expr{lang.Lit{V: lang.Str("a")}, lang.Lit{V: lang.Str("")}, lang.Lit{V: lang.Float(2.5)}, lang.Lit{V: lang.Float(0)}, lang.Lit{V: lang.Int(70000)},
				lang.Lit{V: lang.Regexp("a")}, lang.Lit{V: lang.Regexp("(?i)^re")}, lang.ArrayLit{Elems: []lang.Expr{lang.Lit{V: lang.Int(1)}}}, lang.Lit{V: lang.Bool(true)}, lang.Name{N: lang.NullName}}
			a := lits[g.pick("samelit", len(lits))]
			return lang.Binary{Op: rapid.SampledFrom([]string{"==", "!=", "<", "<=", ">", ">=", "~=", "in", "&&", "||"}).Draw(g.t, "sameop"), L: a, R: a}
		case 0:
			return lang.Binary{Op: "==", L: g.intLit(), R: g.intLit()}
		case 1:
			return lang.Binary{Op: "!=", L: g.intLit(), R: g.intLit()}
		case 2:
			return lang.Lit{V: lang.Bool(rapid.Bool().Draw(g.t, "cb"))}
		case 3:
			a := g.intLit()
			return lang.Binary{Op: "==", L: a, R: a}
		}
		return lang.Binary{Op: "==", L: lang.Binary{Op: "+", L: g.intLit(), R: g.intLit()}, R: g.intLit()}
	}
	if depth <= 0 || g.chance("condleaf", 30) {
		if len(g.conds) > 0 && g.chance("condname", 70) {
			return lang.Name{N: rapid.SampledFrom(g.conds).Draw(g.t, "cname")}
		}
		return lang.Binary{Op: rapid.SampledFrom([]string{"<", "<=", ">", ">=", "==", "!="}).Draw(g.t, "cmp"), L: g.intExpr(0), R: g.intExpr(0)}
	}
	switch g.pick("condk", 7) {
	case 0, 1:
		return lang.Binary{Op: rapid.SampledFrom([]string{"<", "<=", ">", ">=", "==", "!="}).Draw(g.t, "cmp"), L: g.intExpr(depth - 1), R: g.intExpr(depth - 1)}
	case 2:
		return lang.Binary{Op: rapid.SampledFrom([]string{"&&", "||"}).Draw(g.t, "lop"), L: g.cond(depth - 1), R: g.cond(depth - 1)}
	case 3:
		return lang.Unary{Op: "!", X: g.cond(depth - 1)}
	case 4:
		if len(g.arrs) > 0 {
			return lang.Binary{Op: "in", L: g.intExpr(0), R: lang.Name{N: rapid.SampledFrom(g.arrs).Draw(g.t, "inarr")}}
		}
	case 5:
		return lang.Binary{Op: "~=", L: g.strExpr(0), R: lang.Lit{V: lang.Regexp(rapid.SampledFrom([]string{"a", "^Re:", "(?i)^re", "b$", "狐"}).Draw(g.t, "re"))}}
	}
	return lang.Binary{Op: "==", L: g.strExpr(0), R: g.strExpr(0)}
}

func (g *pg) callable(voidOK bool) (fnInfo, bool) {
	var c []fnInfo
	for _, f := range g.fns {
		if f.void && !voidOK {
			continue
		}
		// inside a recursive function only self-calls with a smaller depth are
		// generated; inside a non-recursive one only calls of later functions
		if g.cur != nil {
			if f.name == g.cur.name {
				if f.recur {
					c = append(c, f)
				}
				continue
			}
			if f.name <= g.cur.name {
				continue
			}
		}
		c = append(c, f)
	}
	if len(c) == 0 {
		return fnInfo{}, false
	}
	return rapid.SampledFrom(c).Draw(g.t, "fn"), true
}

func (g *pg) callOf(f fnInfo, depth int) lang.Expr {
	if depth < 0 {
		depth = 0
	}
	args := make([]lang.Expr, len(f.params))
	for i := range args {
		args[i] = g.intExpr(depth)
	}
	if f.recur {
		if g.cur != nil && g.cur.name == f.name {
			args[0] = lang.Binary{Op: "-", L: lang.Name{N: f.params[0]}, R: lang.Lit{V: lang.Int(1)}}
		} else {
			args[0] = lang.Lit{V: lang.Int(rapid.Int64Range(0, 3).Draw(g.t, "rdepth"))}
		}
	}
	if g.chance("arity", 2) && len(args) > 0 {
		args = args[1:] // wrong argument count: a run-time error
	}
	return lang.Call{Fn: f.name, Args: args}
}

func (g *pg) traceStmt() lang.Stmt {
	n := g.pick("targs", 3)
	var args []lang.Expr
	args = append(args, lang.Lit{V: lang.Int(int64(g.pick("tid", 50)))})
	for i := 0; i < n; i++ {
		switch g.pick("targk", 3) {
		case 0:
			args = append(args, g.intExpr(1))
		case 1:
			args = append(args, g.strExpr(1))
		default:
			if len(g.conds) > 0 {
				args = append(args, lang.Name{N: rapid.SampledFrom(g.conds).Draw(g.t, "tc")})
			} else {
				args = append(args, g.intExpr(0))
			}
		}
	}
	return lang.ExprStmt{X: lang.Call{Fn: "trace", Args: args}}
}

func (g *pg) assignable() []string {
	var out []string
	for _, n := range append(append([]string{}, g.ints...), g.locals...) {
		if !g.protect[n] {
			out = append(out, n)
		}
	}
	return out
}

func (g *pg) iterable() lang.Expr {
	if g.o.Funcs > 0 && len(g.arrs)+len(g.strs)+len(g.hashes) > 0 && g.chance("iterthroughfn", 8) {
		// the container comes back from a function that has walked it itself
		var pool []string
		pool = append(pool, g.arrs...)
		pool = append(pool, g.strs...)
		pool = append(pool, g.hashes...)
		g.needWalker = true
		return lang.Call{Fn: "walkedby", Args: []lang.Expr{lang.Name{N: rapid.SampledFrom(pool).Draw(g.t, "walked")}}}
	}
	switch g.pick("iterk", 8) {
	case 0, 1:
		if len(g.arrs) > 0 {
			return lang.Name{N: rapid.SampledFrom(g.arrs).Draw(g.t, "itarr")}
		}
	case 2:
		lo := rapid.Int64Range(-1, 3).Draw(g.t, "rlo")
		return lang.Binary{Op: "..", L: lang.Lit{V: lang.Int(lo)}, R: lang.Lit{V: lang.Int(lo + rapid.Int64Range(0, 3).Draw(g.t, "rspan"))}}
	case 3:
		if len(g.strs) > 0 {
			return lang.Name{N: rapid.SampledFrom(g.strs).Draw(g.t, "itstr")}
		}
		return lang.Lit{V: lang.Str(rapid.SampledFrom([]string{"", "a", "ab", "狐犬x"}).Draw(g.t, "itstrlit"))}
	case 4:
		return lang.Lit{V: lang.Str(rapid.SampledFrom([]string{"", "a", "ab", "狐犬x"}).Draw(g.t, "itstrlit"))}
	case 5:
		if len(g.hashes) > 0 {
			return lang.Name{N: rapid.SampledFrom(g.hashes).Draw(g.t, "ithash")}
		}
	case 6:
		n := g.pick("hn", 4)
		h := lang.HashLit{}
		for i := 0; i < n; i++ {
			h.Keys = append(h.Keys, lang.Lit{V: lang.Str(fmt.Sprintf("k%d", (i*7+3)%5))})
			h.Vals = append(h.Vals, g.intLit())
		}
		// distinct keys by construction for n <= 4
		return h
	}
	n := g.pick("an", 4)
	el := make([]lang.Expr, n)
	for i := range el {
		if g.chance("strel", 25) {
			el[i] = g.strExpr(0)
		} else {
			el[i] = g.intExpr(0)
		}
	}
	return lang.ArrayLit{Elems: el}
}

var clashPool = []string{"a", "b", "c"}

func (g *pg) loopVar(label string) string {
	if g.o.Clash && g.chance(label+"clash", 40) {
		return rapid.SampledFrom(clashPool).Draw(g.t, label)
	}
	g.nloop++
	return fmt.Sprintf("%s%d", label, g.nloop)
}

func (g *pg) block(depth int) []lang.Stmt {
	n := 1 + g.pick("blen", g.o.Block)
	var out []lang.Stmt
	for i := 0; i < n; i++ {
		out = append(out, g.stmt(depth)...)
	}
	return out
}

// tailIfElse: if ( c ) { ...; return v; } else { function name(q) {..} } - or
// the other way round, or with the definition as the only content of both.
func (g *pg) tailIfElse(name string) lang.Stmt {
	def := lang.FuncDef{N: name, Params: []string{"q"}, Body: []lang.Stmt{lang.Return{X: lang.Binary{Op: "+", L: lang.Name{N: "q"}, R: lang.Lit{V: lang.Int(1)}}}}}
	leaves := []lang.Stmt{g.traceStmt(), lang.Return{X: g.intExpr(1)}}
	x := lang.If{C: g.cond(1)}
	switch g.pick("tailshape", 4) {
	case 0:
		x.Then, x.Else = leaves, []lang.Stmt{def}
	case 1:
		x.Then, x.Else = []lang.Stmt{def}, leaves
	case 2:
		x.Then = []lang.Stmt{def}
	default:
		x.Then = leaves
		x.ElseIf = &lang.If{C: g.cond(1), Then: []lang.Stmt{def}}
	}
	return x
}

func (g *pg) retExpr() lang.Expr {
	switch g.pick("retk", 6) {
	case 0, 1:
		return g.intExpr(1)
	case 2:
		return g.strExpr(1)
	case 3:
		return g.cond(1)
	case 4:
		var el []lang.Expr
		for _, n := range g.ints {
			el = append(el, lang.Name{N: n})
		}
		for _, n := range g.strs {
			el = append(el, lang.Name{N: n})
		}
		return lang.ArrayLit{Elems: el}
	}
	if len(g.conds) > 0 {
		return lang.Name{N: rapid.SampledFrom(g.conds).Draw(g.t, "retc")}
	}
	return g.intExpr(0)
}

// stmt generates one statement (sometimes with a helper statement before it).
func (g *pg) stmt(depth int) []lang.Stmt {
	k := g.pick("stmtk", 100)
	asg := g.assignable()
	switch {
	case k < 11:
		return []lang.Stmt{g.traceStmt()}
	case k < 14:
		// a call whose result is ignored: leaves a value on the stack
		return []lang.Stmt{lang.ExprStmt{X: lang.Call{Fn: "id", Args: []lang.Expr{g.intExpr(1)}}}}
	case k < 17 && (len(g.arrs)+len(g.strs)+len(g.hashes) > 0):
		// a container is handed to a built-in before (or between) the loops
		// that walk it: that changes nothing about it
		var pool []string
		pool = append(pool, g.arrs...)
		pool = append(pool, g.strs...)
		pool = append(pool, g.hashes...)
		x := lang.Name{N: rapid.SampledFrom(pool).Draw(g.t, "usedc")}
		var call lang.Expr
		switch g.pick("usek", 6) {
		case 0:
			call = lang.Call{Fn: "join", Args: []lang.Expr{x, lang.Lit{V: lang.Str("-")}}}
		case 1:
			call = lang.Call{Fn: "len", Args: []lang.Expr{x}}
		case 2:
			call = lang.Call{Fn: "type", Args: []lang.Expr{lang.Call{Fn: "sort", Args: []lang.Expr{x}}}}
		case 3:
			call = lang.Call{Fn: "type", Args: []lang.Expr{lang.Call{Fn: "reverse", Args: []lang.Expr{x}}}}
		case 4:
			call = lang.Call{Fn: "len", Args: []lang.Expr{lang.Call{Fn: "string", Args: []lang.Expr{x}}}}
		default:
			call = lang.Call{Fn: "type", Args: []lang.Expr{lang.Call{Fn: "keys", Args: []lang.Expr{x}}}}
		}
		return []lang.Stmt{lang.ExprStmt{X: lang.Call{Fn: "id", Args: []lang.Expr{call}}}}
	case k < 28 && len(asg) > 0:
		n := rapid.SampledFrom(asg).Draw(g.t, "asg")
		return []lang.Stmt{lang.Assign{N: n, X: g.intExpr(2)}}
	case k < 34 && len(asg) > 0 && g.o.IncDec:
		n := rapid.SampledFrom(asg).Draw(g.t, "incn")
		if g.chance("incdec", 60) {
			return []lang.Stmt{lang.IncDec{N: n, Op: rapid.SampledFrom([]string{"++", "--"}).Draw(g.t, "incop")}}
		}
		return []lang.Stmt{lang.Compound{N: n, Op: rapid.SampledFrom([]string{"+", "-", "*"}).Draw(g.t, "cmpop"), X: g.intExpr(1)}}
	case k < 38 && len(g.strs) > 0:
		n := rapid.SampledFrom(g.strs).Draw(g.t, "sasg")
		if g.protect[n] {
			return []lang.Stmt{g.traceStmt()}
		}
		return []lang.Stmt{lang.Assign{N: n, X: g.strExpr(1)}}
	case k < 52 && depth > 0:
		x := lang.If{C: g.cond(2), Then: g.block(depth - 1)}
		if g.o.IncDec && len(asg) > 0 && g.chance("thenends", 30) {
			// a block whose last instruction carries an operand (a name)
			x.Then = append(x.Then, lang.IncDec{N: rapid.SampledFrom(asg).Draw(g.t, "endinc"), Op: rapid.SampledFrom([]string{"++", "--"}).Draw(g.t, "endop")})
		}
		emptied := false
		if g.chance("emptythen", 8) {
			// an empty block is a block too
			x.Then = []lang.Stmt{}
			emptied = true
		}
		switch g.pick("elsek", 4) {
		case 0:
			x.Else = g.block(depth - 1)
			if !emptied && g.chance("emptyelse", 8) {
				x.Else = []lang.Stmt{}
			}
		case 1:
			ei := &lang.If{C: g.cond(1), Then: g.block(depth - 1)}
			if g.chance("emptyelseif", 8) {
				ei.Then = []lang.Stmt{}
			}
			if g.chance("elseifelse", 50) {
				ei.Else = g.block(depth - 1)
			}
			x.ElseIf = ei
		}
		return []lang.Stmt{x}
	case k < 60 && depth > 0:
		// bounded while: a fresh counter the body cannot touch
		g.nloop++
		w := fmt.Sprintf("w%d", g.nloop)
		limit := rapid.Int64Range(0, 3).Draw(g.t, "wlimit")
		var c lang.Expr = lang.Binary{Op: "<", L: lang.Name{N: w}, R: lang.Lit{V: lang.Int(limit)}}
		if g.chance("wextra", 40) {
			c = lang.Binary{Op: "&&", L: c, R: g.cond(1)}
		}
		g.protect[w] = true
		body := g.block(depth - 1)
		body = append(body, lang.Assign{N: w, X: lang.Binary{Op: "+", L: lang.Name{N: w}, R: lang.Lit{V: lang.Int(1)}}})
		kw := rapid.SampledFrom([]string{"while", "for"}).Draw(g.t, "kw")
		init := lang.Stmt(lang.Assign{N: w, X: lang.Lit{V: lang.Int(0)}})
		if g.cur != nil {
			// inside a function the counter is a local
			return []lang.Stmt{lang.Local{N: w}, init, lang.While{Kw: kw, C: c, Body: body}}
		}
		return []lang.Stmt{init, lang.While{Kw: kw, C: c, Body: body}}
	case k < 74 && depth > 0:
		it := g.iterable()
		v := g.loopVar("x")
		idx := ""
		if g.chance("withidx", 40) {
			idx = g.loopVar("i")
			if idx == v {
				idx = ""
			}
		}
		// the loop variables are readable in the body; whether they hold
		// integers depends on the iterable, so they only feed trace()
		savedConds := g.conds
		g.conds = append(append([]string{}, g.conds...), v)
		if idx != "" {
			g.conds = append(g.conds, idx)
		}
		pv, pi := g.protect[v], g.protect[idx]
		g.protect[v] = true
		if idx != "" {
			g.protect[idx] = true
		}
		body := g.block(depth - 1)
		if g.o.IncDec && g.chance("steploopvar", 10) {
			// the loop variable is a variable: stepping it changes it for the rest
			// of this pass, not the container and not the next pass
			var step lang.Stmt = lang.IncDec{N: v, Op: rapid.SampledFrom([]string{"++", "--"}).Draw(g.t, "loopstep")}
			if g.chance("loopcompound", 40) {
				step = lang.Compound{N: v, Op: "+", X: lang.Lit{V: lang.Int(10)}}
			}
			body = append([]lang.Stmt{step, lang.ExprStmt{X: lang.Call{Fn: "trace", Args: []lang.Expr{lang.Name{N: v}}}}}, body...)
		}
		g.protect[v] = pv
		if idx != "" {
			g.protect[idx] = pi
		}
		g.conds = savedConds
		loop := lang.Foreach{Idx: idx, Var: v, Iter: it, Body: body}
		if g.chance("readoutside", 12) {
			// the loop's names read where they are not bound: before the loop
			// or behind it they are whatever else carries the name, or nothing
			read := lang.ExprStmt{X: lang.Call{Fn: "trace", Args: []lang.Expr{lang.Name{N: v}}}}
			if idx != "" {
				read = lang.ExprStmt{X: lang.Call{Fn: "trace", Args: []lang.Expr{lang.Name{N: v}, lang.Name{N: idx}}}}
			}
			if g.chance("readbefore", 50) {
				return []lang.Stmt{read, loop}
			}
			return []lang.Stmt{loop, read}
		}
		return []lang.Stmt{loop}
	case k < 82 && depth > 0 && g.o.Switch:
		return []lang.Stmt{g.switchStmt(depth)}
	case k < 86 && g.o.EarlyRet:
		return []lang.Stmt{lang.Return{X: g.retExpr()}}
	case k < 90 || (k < 97 && len(g.fns) > 0 && !g.o.OptBias):
		if f, ok := g.callable(true); ok {
			c := g.callOf(f, 1)
			if f.void || len(asg) == 0 || g.chance("callstmt", 40) {
				return []lang.Stmt{lang.ExprStmt{X: c}}
			}
			return []lang.Stmt{lang.Assign{N: rapid.SampledFrom(asg).Draw(g.t, "callasg"), X: c}}
		}
		return []lang.Stmt{g.traceStmt()}
	case k < 93 && g.o.OptBias:
		// an expression statement: leaves a value on the stack
		return []lang.Stmt{lang.ExprStmt{X: g.intExpr(1)}}
	case k < 95 && g.o.OptBias:
		// square roots (of non-constants, and of constants unless the known
		// finding about their folding is open) and constant division by zero
		switch g.pick("optk", 4) {
		case 0:
			if n, ok := g.intName(); ok {
				return []lang.Stmt{lang.ExprStmt{X: lang.Call{Fn: "trace", Args: []lang.Expr{lang.Unary{Op: "√", X: lang.Name{N: n}}}}}}
			}
		case 1:
			var x lang.Expr = lang.Lit{V: lang.Float(float64(rapid.Int64Range(0, 40).Draw(g.t, "sq")) / 4)}
			if !g.o.NoSqrtFold && g.chance("sqint", 50) {
				x = g.intLit()
			} else if g.chance("sqnonsquare", 50) {
				// an integer literal that is no perfect square: its root is a float
				// with or without the optimizer (not the open finding)
				x = lang.Lit{V: lang.Int(rapid.SampledFrom([]int64{2, 3, 5, 6, 7, 8, 10, 12, 15, 24, 99, 300, 65534}).Draw(g.t, "nonsquare"))}
			}
			return []lang.Stmt{lang.ExprStmt{X: lang.Call{Fn: "trace", Args: []lang.Expr{lang.Binary{Op: "+", L: lang.Unary{Op: "√", X: x}, R: g.intLit()}}}}}
		case 2:
			return []lang.Stmt{lang.If{C: g.cond(1), Then: []lang.Stmt{lang.ExprStmt{X: lang.Binary{Op: "/", L: g.intLit(), R: lang.Lit{V: lang.Int(0)}}}}}}
		}
		return []lang.Stmt{lang.ExprStmt{X: lang.Call{Fn: "trace", Args: []lang.Expr{lang.Binary{Op: rapid.SampledFrom([]string{"<", ">", "<=", ">=", "%", "**"}).Draw(g.t, "cmpconst"), L: g.intLit(), R: g.intLit()}}}}}
	case k < 96 && g.o.ErrStmts:
		switch g.pick("errk", 4) {
		case 0:
			return []lang.Stmt{lang.ExprStmt{X: lang.Binary{Op: "/", L: g.intExpr(0), R: lang.Lit{V: lang.Int(0)}}}}
		case 1:
			return []lang.Stmt{lang.ExprStmt{X: lang.Binary{Op: "+", L: g.intExpr(0), R: lang.Lit{V: lang.Str("s")}}}}
		case 2:
			// panic() with whatever a script may hand it: a message, nothing, a
			// number, null (an unset name), a container
			pargs := [][]lang.Expr{{lang.Lit{V: lang.Str("boom")}}, {}, {lang.Lit{V: lang.Int(3)}}, {lang.Name{N: "Unset"}}, {lang.ArrayLit{}}, {lang.Lit{V: lang.Str("a")}, lang.Lit{V: lang.Int(1)}}, {lang.Lit{V: lang.Bool(false)}}}
			return []lang.Stmt{lang.ExprStmt{X: lang.Call{Fn: "panic", Args: pargs[g.pick("panicarg", len(pargs))]}}}
		}
		return []lang.Stmt{lang.ExprStmt{X: lang.Call{Fn: "nosuchfn", Args: nil}}}
	}
	return []lang.Stmt{g.traceStmt()}
}

func (g *pg) switchStmt(depth int) lang.Stmt {
	sw := lang.Switch{}
	strSubj := g.chance("strsubj", 35)
	if strSubj {
		sw.Subj = g.strExpr(1)
	} else if len(g.conds) > 0 && g.chance("condsubj", 30) {
		sw.Subj = lang.Name{N: rapid.SampledFrom(g.conds).Draw(g.t, "swc")}
	} else {
		sw.Subj = g.intExpr(1)
	}
	n := g.pick("ncases", 4)
	defAt := -1
	if g.chance("hasdef", 60) {
		defAt = g.pick("defat", n+1)
	}
	for i := 0; i <= n; i++ {
		if i == defAt {
			sw.Cases = append(sw.Cases, lang.Case{Default: true, CaseKw: Uniform(g.t, "casekw", 4) == 0, Body: g.block(depth - 1)})
		}
		if i == n {
			break
		}
		c := lang.Case{}
		ne := 1
		if g.chance("multicase", 25) {
			ne = 2
		}
		for j := 0; j < ne; j++ {
			var e lang.Expr
			switch {
			case (strSubj && g.chance("recase", 40)) || (!strSubj && g.chance("recaseint", 12)):
				e = lang.Lit{V: lang.Regexp(rapid.SampledFrom([]string{"a", "^Re:", "(?i)^re", "b$", "^$", "狐"}).Draw(g.t, "cre"))}
			case strSubj:
				e = g.strExpr(0)
			case g.chance("exprcase", 30):
				e = g.intExpr(1)
			case g.chance("othercase", 15):
				e = lang.Lit{V: Scalar(g.t, "caselit", lang.KString, lang.KBool, lang.KFloat)}
			default:
				e = g.intLit()
			}
			c.Exprs = append(c.Exprs, e)
		}
		c.Body = g.block(depth - 1)
		sw.Cases = append(sw.Cases, c)
	}
	return sw
}

func (g *pg) funcDef(i int) lang.Stmt {
	f := fnInfo{name: fmt.Sprintf("f%d", i)}
	if g.o.Clash && i < len(clashPool) && g.chance("fnnamedlikevar", 12) {
		// functions and variables live in different name spaces: a function may
		// be called a, and a still be a variable
		f.name = clashPool[i]
	}
	if g.chance("tinyfn", 10) {
		// the simplest function there is: nothing to pass, a constant to return
		g.fns = append(g.fns, f)
		return lang.FuncDef{N: f.name, Body: []lang.Stmt{lang.Return{X: g.intLit()}}}
	}
	np := g.pick("nparams", 3)
	f.recur = g.chance("recur", 35)
	f.void = g.chance("void", 15)
	if f.recur {
		f.params = append(f.params, "d")
	}
	for j := 0; j < np; j++ {
		var p string
		if g.o.Clash && g.chance("pclash", 60) {
			p = clashPool[(j+i)%len(clashPool)]
		} else {
			p = fmt.Sprintf("p%d", j)
		}
		f.params = append(f.params, p)
	}
	// register before generating the body so that self-calls are possible
	g.fns = append(g.fns, f)
	saved := *g
	g.cur = &f
	g.locals = append([]string{}, f.params...)
	g.protect = map[string]bool{}
	for k, v := range saved.protect {
		g.protect[k] = v
	}
	if f.recur {
		g.protect["d"] = true
	}
	var body []lang.Stmt
	var lateFns []fnInfo
	if f.recur {
		body = append(body, lang.If{C: lang.Binary{Op: "<=", L: lang.Name{N: "d"}, R: lang.Lit{V: lang.Int(0)}},
			Then: []lang.Stmt{lang.Return{X: g.intExpr(0)}}})
	}
	nl := g.pick("nlocals", 3)
	for j := 0; j < nl; j++ {
		var l string
		if g.o.Clash && g.chance("lclash", 50) {
			l = clashPool[(j+i+1)%len(clashPool)]
		} else {
			l = fmt.Sprintf("l%d", j)
		}
		dup := false
		for _, e := range g.locals {
			if e == l {
				dup = true
			}
		}
		if dup {
			continue
		}
		body = append(body, lang.Local{N: l}, lang.Assign{N: l, X: g.intExpr(1)})
		g.locals = append(g.locals, l)
	}
	depth := g.o.Depth - 1
	if depth < 1 {
		depth = 1
	}
	body = append(body, g.block(depth)...)
	if g.chance("nestedfn", 12) {
		// a function defined inside this one (it is global like any other). It
		// comes after every 'local' of the body: the parser forgets that it is
		// inside a function once a nested definition ends. For a value-less
		// function it is the last statement of the body.
		body = append(body, lang.FuncDef{N: fmt.Sprintf("n%s", f.name), Params: []string{"q"}, Body: []lang.Stmt{lang.Return{X: lang.Binary{Op: "+", L: lang.Name{N: "q"}, R: lang.Lit{V: lang.Int(1)}}}}})
	}
	if !f.void {
		body = append(body, lang.Return{X: g.intExpr(2)})
		if g.chance("defafterreturn", 10) {
			// a helper written at the bottom of the body, behind the return: code
			// that never runs, a definition all the same (and one that is called)
			late := fnInfo{name: fmt.Sprintf("late%s", f.name), params: []string{"q"}}
			body = append(body, lang.FuncDef{N: late.name, Params: late.params, Body: []lang.Stmt{lang.Return{X: lang.Binary{Op: "*", L: lang.Name{N: "q"}, R: lang.Lit{V: lang.Int(2)}}}}})
			lateFns = append(lateFns, late)
		}
	} else if g.chance("tailifelsefn", 15) {
		body = append(body, g.tailIfElse("nt"+f.name))
	}
	fns := append(g.fns, lateFns...)
	nloop := g.nloop
	nw := g.needWalker
	*g = saved
	g.fns = fns
	g.nloop = nloop
	g.needWalker = g.needWalker || nw
	return lang.FuncDef{N: f.name, Params: f.params, Body: body}
}

// Program draws a program together with its inputs.
func Program(t *rapid.T, o ProgOpts) *Prog {
	g := &pg{t: t, o: o, protect: map[string]bool{}}
	out := &Prog{P: &lang.Program{}}
	var prelude []lang.Stmt

	bind := func(name string, v lang.Value, kinds ...string) {
		k := rapid.SampledFrom(kinds).Draw(t, "prov_"+name)
		switch k {
		case "field":
			out.In.Fields = append(out.In.Fields, Binding{Name: name, V: v, From: "field"})
		case "setvar":
			out.In.Vars = append(out.In.Vars, Binding{Name: name, V: v, From: "setvar"})
		default:
			prelude = append(prelude, lang.Assign{N: name, X: lang.ValueExpr(v)})
		}
	}

	if o.PoolShift {
		n := rapid.IntRange(0, 40).Draw(t, "poolshift")
		for i := 0; i < n; i++ {
			prelude = append(prelude, lang.Assign{N: fmt.Sprintf("zz%d", i), X: lang.Lit{V: lang.Int(int64(i % 3))}})
		}
	}
	// integer globals
	nint := 2 + g.pick("nint", 3)
	for i := 0; i < nint; i++ {
		name := fmt.Sprintf("g%d", i)
		if o.Clash && i < len(clashPool) && g.chance("gclash", 60) {
			name = clashPool[i]
		}
		v := rapid.Int64Range(0, 9).Draw(t, "gval")
		if o.BigInts && g.chance("gbig", 20) {
			v = rapid.SampledFrom([]int64{65534, 65535, 65536, 70000}).Draw(t, "gbigv")
		}
		// integer globals are assigned in the script or injected; a field of
		// the same name would be shadowed once the script assigns it
		bind(name, lang.Int(v), "assign", "assign", "setvar")
		g.ints = append(g.ints, name)
	}
	// strings
	for i := 0; i < g.pick("nstr", 3); i++ {
		name := fmt.Sprintf("s%d", i)
		bind(name, lang.Str(rapid.SampledFrom([]string{"", "a", "ab", "Re: hi", "狐犬", "b"}).Draw(t, "sval")), "assign", "setvar")
		g.strs = append(g.strs, name)
	}
	// arrays / hashes (never reassigned)
	for i := 0; i < g.pick("narr", 3); i++ {
		name := fmt.Sprintf("A%d", i)
		v := ArrayValue(t, "arrv", ValueOpts{FieldSafe: true})
		if !LiteralOK(v) {
			v = lang.Array(lang.Int(1), lang.Int(2))
		}
		bind(name, v, "assign", "setvar", "field")
		g.arrs = append(g.arrs, name)
		g.protect[name] = true
	}
	if g.chance("hashvar", 40) {
		v := HashValue(t, "hashv", ValueOpts{FieldSafe: true})
		if !LiteralOK(v) {
			v = lang.Hash()
		}
		bind("H0", v, "assign", "setvar", "field")
		g.hashes = append(g.hashes, "H0")
		g.protect["H0"] = true
	}
	// condition variables of arbitrary type
	for i := 0; i < 1+g.pick("ncond", 4); i++ {
		name := fmt.Sprintf("C%d", i)
		v := Value(t, "condv", ValueOpts{Depth: 1, FieldSafe: true})
		if !LiteralOK(v) {
			v = lang.Int(1)
		}
		bind(name, v, "assign", "setvar", "field")
		g.conds = append(g.conds, name)
		g.protect[name] = true
	}

	// functions (signatures first: bodies may call later functions)
	nf := 0
	if o.Funcs > 0 {
		nf = g.pick("nfuncs", o.Funcs+1)
	}
	var defs []lang.Stmt
	for i := 0; i < nf; i++ {
		defs = append(defs, nil)
	}
	// generate in reverse so that callable() (later functions only) finds them
	for i := nf - 1; i >= 0; i-- {
		defs[i] = g.funcDef(i)
	}
	out.NFuncs = nf

	body := g.block(o.Depth)
	if o.VoidOperand && nf > 0 && g.chance("voidoperand", 6) {
		// a value-less function used as an operand is a run-time error; it is
		// placed first, where nothing is left on the stack that could be taken
		// for its result
		for _, f := range g.fns {
			if f.void && !f.recur {
				args := make([]lang.Expr, len(f.params))
				for i := range args {
					args[i] = g.intLit()
				}
				body = append([]lang.Stmt{lang.Assign{N: g.ints[0], X: lang.Call{Fn: f.name, Args: args}}}, body...)
				break
			}
		}
	}
	if g.chance("finalret", 85) {
		body = append(body, lang.Return{X: g.retExpr()})
	} else if g.chance("tailifelse", 50) {
		// the script ends in an if/else of which one block leaves and the other
		// holds nothing but a definition (which produces no code of its own)
		body = append(body, g.tailIfElse("ntail"))
	}

	// definitions before or after use
	var stmts []lang.Stmt
	before := g.chance("defsfirst", 50)
	if before {
		stmts = append(stmts, defs...)
	}
	stmts = append(stmts, prelude...)
	stmts = append(stmts, body...)
	if !before {
		// definitions after the body are still compiled; but a return
		// before them is fine too (definitions emit no code)
		stmts = append(stmts, defs...)
	}
	if g.needWalker {
		stmts = append(stmts, lang.FuncDef{N: "walkedby", Params: []string{"wxs"}, Body: []lang.Stmt{
			lang.Foreach{Idx: "wi", Var: "wq", Iter: lang.Name{N: "wxs"}, Body: []lang.Stmt{lang.If{C: lang.Binary{Op: "==", L: lang.Call{Fn: "type", Args: []lang.Expr{lang.Name{N: "wq"}}}, R: lang.Lit{V: lang.Str("nothing")}}, Then: []lang.Stmt{lang.Return{X: lang.Name{N: "wxs"}}}}}},
			lang.Return{X: lang.Name{N: "wxs"}}}})
	}
	out.P.Stmts = stmts
	return out
}

// VaryFields draws new values (same names, same kinds) for host fields.
func VaryFields(t *rapid.T, fields []Binding) []Binding {
	out := make([]Binding, len(fields))
	for i, f := range fields {
		out[i] = f
		switch f.V.K {
		case lang.KInt:
			out[i].V = lang.Int(rapid.Int64Range(-3, 12).Draw(t, "vf_int"))
		case lang.KFloat:
			out[i].V = lang.Float(float64(rapid.Int64Range(-8, 8).Draw(t, "vf_float")) / 2)
		case lang.KString:
			out[i].V = lang.Str(rapid.SampledFrom([]string{"", "a", "Re: x", "b", "狐犬"}).Draw(t, "vf_str"))
		case lang.KBool:
			out[i].V = lang.Bool(rapid.Bool().Draw(t, "vf_bool"))
		case lang.KArray:
			v := ArrayValue(t, "vf_arr", ValueOpts{FieldSafe: true})
			out[i].V = v
		}
	}
	return out
}

// ConstTree draws an arithmetic tree over small integer literals only, in
// any nesting shape; intermediate results may be negative or exceed the
// inline-integer limit (which the optimizer must then leave alone).
func ConstTree(t *rapid.T, depth int) lang.Expr {
	lit := func() lang.Expr {
		if Uniform(t, "cbig", 8) == 0 {
			return lang.Lit{V: lang.Int(rapid.SampledFrom([]int64{255, 256, 300, 65533, 65534, 32767}).Draw(t, "cbigv"))}
		}
		return lang.Lit{V: lang.Int(rapid.Int64Range(0, 12).Draw(t, "clit"))}
	}
	if depth <= 0 {
		return lit()
	}
	op := rapid.SampledFrom([]string{"+", "-", "*", "/", "+", "-", "*", "==", "!="}).Draw(t, "ctop")
	var l, r lang.Expr
	switch Uniform(t, "cshape", 4) {
	case 0: // left-nested
		l, r = ConstTree(t, depth-1), lit()
	case 1: // right-nested
		l, r = lit(), ConstTree(t, depth-1)
	default:
		l, r = ConstTree(t, depth-1), ConstTree(t, depth-1)
	}
	if op == "/" {
		// keep constant division by zero rare but present
		if Uniform(t, "cdivzero", 10) != 0 {
			r = lang.Lit{V: lang.Int(rapid.Int64Range(1, 6).Draw(t, "cdiv"))}
		}
	}
	if op == "==" || op == "!=" {
		// comparisons yield booleans: only at the top of an arithmetic tree
		return lang.Binary{Op: op, L: l, R: r}
	}
	if bl, ok := l.(lang.Binary); ok && (bl.Op == "==" || bl.Op == "!=") {
		l = lit()
	}
	if br, ok := r.(lang.Binary); ok && (br.Op == "==" || br.Op == "!=") {
		r = lit()
	}
	return lang.Binary{Op: op, L: l, R: r}
}
