// Package bcverify is a structural verifier for evalfilter bytecode: a
// validity predicate over the program an evaluator will execute.
package bcverify

import (
	"encoding/binary"
	"fmt"

	"github.com/skx/evalfilter/v2/code"
)

// Const describes one entry of the constant pool.
type Const struct {
	Type    string
	Inspect string
}

// wide lists the opcodes that carry a 16-bit operand.
var wide = map[code.Opcode]bool{
	code.OpConstant: true, code.OpJump: true, code.OpJumpIfFalse: true, code.OpCall: true, code.OpLookup: true,
	code.OpPush: true, code.OpArray: true, code.OpHash: true, code.OpInc: true, code.OpDec: true,
}

// MaxOpcode is the highest opcode the machine knows.
const MaxOpcode = code.OpRange

type ins struct {
	off int
	op  code.Opcode
	arg int
	len int
}

func decode(body []byte) ([]ins, map[int]int, error) {
	var out []ins
	at := map[int]int{}
	ip := 0
	for ip < len(body) {
		op := code.Opcode(body[ip])
		if op > MaxOpcode {
			return nil, nil, fmt.Errorf("offset %d: unknown opcode %d", ip, op)
		}
		n := 1
		arg := 0
		if wide[op] {
			n = 3
			if ip+3 > len(body) {
				return nil, nil, fmt.Errorf("offset %d: %s lacks its operand", ip, code.String(op))
			}
			arg = int(binary.BigEndian.Uint16(body[ip+1 : ip+3]))
		}
		if code.Length(op) != n {
			return nil, nil, fmt.Errorf("offset %d: %s: the machine reads %d byte(s), the encoding has %d", ip, code.String(op), code.Length(op), n)
		}
		at[ip] = len(out)
		out = append(out, ins{ip, op, arg, n})
		ip += n
	}
	return out, at, nil
}

// effect returns (pops, pushes) of a non-control instruction.
func effect(i ins) (int, int) {
	switch i.op {
	case code.OpConstant, code.OpPush, code.OpTrue, code.OpFalse, code.OpVoid, code.OpLookup:
		return 0, 1
	case code.OpNop, code.OpPlaceholder, code.OpJump:
		return 0, 0
	case code.OpJumpIfFalse:
		return 1, 0
	case code.OpCall:
		return 1 + i.arg, 1
	case code.OpArray, code.OpHash:
		return i.arg, 1
	case code.OpSet:
		return 2, 0
	case code.OpLocal:
		return 1, 0
	case code.OpMinus, code.OpBang, code.OpSquareRoot, code.OpIterationReset:
		return 1, 1
	case code.OpInc, code.OpDec:
		return 1, 0
	case code.OpReturn:
		return 1, 0
	case code.OpIterationNext:
		return 3, 1
	}
	// every remaining opcode is a binary operator
	return 2, 1
}

// Body verifies one body (main program or function).
func Body(name string, body []byte, consts []Const, isFunc bool) error {
	is, at, err := decode(body)
	if err != nil {
		return fmt.Errorf("%s: %v", name, err)
	}
	if isFunc && len(is) == 0 {
		return fmt.Errorf("%s: empty function body", name)
	}
	strConst := func(idx int) bool { return idx < len(consts) && consts[idx].Type == "STRING" }
	for k, i := range is {
		switch i.op {
		case code.OpJump, code.OpJumpIfFalse:
			if _, ok := at[i.arg]; !ok {
				return fmt.Errorf("%s: offset %d: %s targets %d, which is not the start of an instruction inside the body (length %d)", name, i.off, code.String(i.op), i.arg, len(body))
			}
		case code.OpConstant:
			if i.arg >= len(consts) {
				return fmt.Errorf("%s: offset %d: constant %d does not exist (pool has %d)", name, i.off, i.arg, len(consts))
			}
		case code.OpLookup, code.OpInc, code.OpDec:
			if !strConst(i.arg) {
				return fmt.Errorf("%s: offset %d: %s names constant %d, which is not an existing string constant", name, i.off, code.String(i.op), i.arg)
			}
		case code.OpCall, code.OpSet, code.OpLocal:
			// the name operand is pushed by the instruction before
			if k == 0 || is[k-1].op != code.OpConstant || !strConst(is[k-1].arg) {
				return fmt.Errorf("%s: offset %d: %s is not preceded by the push of a string constant naming its target", name, i.off, code.String(i.op))
			}
		case code.OpIterationNext:
			if k < 2 || is[k-1].op != code.OpConstant || !strConst(is[k-1].arg) || is[k-2].op != code.OpConstant || !strConst(is[k-2].arg) {
				return fmt.Errorf("%s: offset %d: OpIterationNext is not preceded by the two variable names", name, i.off)
			}
			if k+1 >= len(is) || is[k+1].op != code.OpJumpIfFalse {
				return fmt.Errorf("%s: offset %d: OpIterationNext is not followed by its conditional jump", name, i.off)
			}
		}
	}
	// data-flow: minimal stack depth at the entry of every reachable
	// instruction over all paths (meet = minimum)
	const unreached = 1 << 30
	depth := make([]int, len(is)+1)
	for k := range depth {
		depth[k] = unreached
	}
	if len(is) == 0 {
		return nil
	}
	depth[0] = 0
	work := []int{0}
	push := func(k, d int) {
		if d < depth[k] {
			depth[k] = d
			work = append(work, k)
		}
	}
	for len(work) > 0 {
		k := work[len(work)-1]
		work = work[:len(work)-1]
		if k == len(is) {
			continue
		}
		i := is[k]
		d := depth[k]
		pops, pushes := effect(i)
		if d < pops {
			return fmt.Errorf("%s: offset %d: %s needs %d operand(s) but a path reaches it with only %d on the stack", name, i.off, code.String(i.op), pops, d)
		}
		nd := d - pops + pushes
		switch i.op {
		case code.OpReturn:
			// terminal
		case code.OpJump:
			push(at[i.arg], nd)
		case code.OpJumpIfFalse:
			push(at[i.arg], nd)
			if k > 0 && is[k-1].op == code.OpIterationNext {
				push(k+1, nd+1) // the iterable is pushed back when an element was found
			} else {
				push(k+1, nd)
			}
		default:
			push(k+1, nd)
		}
	}
	if isFunc && depth[len(is)] != unreached {
		return fmt.Errorf("%s: a path runs off the end of the function body without a return", name)
	}
	return nil
}

// Program verifies the main body and every function body.
func Program(consts []Const, main []byte, funcs map[string][]byte) error {
	if err := Body("main", main, consts, false); err != nil {
		return err
	}
	for n, b := range funcs {
		if err := Body("function "+n, b, consts, true); err != nil {
			return err
		}
	}
	return nil
}

// CountJumps returns the number of jump instructions in a body (0 if it
// cannot be decoded).
func CountJumps(body []byte) int {
	is, _, err := decode(body)
	if err != nil {
		return 0
	}
	n := 0
	for _, i := range is {
		if i.op == code.OpJump || i.op == code.OpJumpIfFalse {
			n++
		}
	}
	return n
}

// HasOpcode reports whether body contains an instruction with the given name.
func HasOpcode(body []byte, name string) bool {
	is, _, err := decode(body)
	if err != nil {
		return false
	}
	for _, i := range is {
		if code.String(i.op) == name {
			return true
		}
	}
	return false
}
